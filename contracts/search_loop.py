"""C03 (search-loop part): the solutions found while the initial population was evaluated are handed out first.

Prefix contract on the real generator Fandango._generate_simple: before the function does anything the engine cannot
follow (it is a long driver loop), every element of self._initial_solutions has been yielded, in order, and the list is
empty.  Obligations are evaluated at the cut / return point over the yields seen so far.
"""
from __future__ import annotations

import z3

from pyvc.dsl import And, Contract, Implies, Loop, Not, SInt, SList, SObj, T, cmp, idx_term, register, to_term_int

I = z3.IntSort()
InitialSolution = z3.Function("InitialSolution", I, I)


def _havoc(cx, env, i):
    l = env["self"].fields["_initial_solutions"]
    l.ghost["offset"] = idx_term(i)
    l.length = SInt(cx.ghost["n0"] - idx_term(i))


def _inv(cx, env, i):
    l = env["self"].fields["_initial_solutions"]
    it = idx_term(i) if not isinstance(i, int) else z3.IntVal(i)
    return [("remaining_is_the_tail", And(l.ghost.get("offset", z3.IntVal(0)) == it, to_term_int(l.length) == cx.ghost["n0"] - it, it <= cx.ghost["n0"]))]


def _one_yield(cx, env, i, events):
    ys = [v for k, v in events if k == "yield"]
    it = idx_term(i)
    ok = len(ys) == 1 and getattr(ys[0], "ident", None) is not None
    return [("yields_exactly_the_next_initial_solution", And(z3.BoolVal(ok), ys[0].ident == InitialSolution(it)) if ok else z3.BoolVal(False))]


@register
class Generate_simple_prefix(Contract):
    target = "evolution/algorithm.py:Fandango._generate_simple"
    properties = ("C03",)
    float_mode = "real"
    prefix_only = True
    explore_unlisted_params = False
    loops = {0: Loop(0, iter_text="self._initial_solutions", inv=_inv, havoc=_havoc, modifies=("self._initial_solutions",), body_post=_one_yield)}

    def inputs(self, cx):
        s = SObj("Fandango", {}, fresh=False, label="self")
        s.ident = cx.const("self_id", I)
        n = cx.int("n_initial_solutions", lo=0, named=True)
        cx.ghost["n0"] = n.term
        l = SList(None, length=n, fresh=False, label="_initial_solutions")

        def base_elem(j):
            o = SObj("DerivationTree", {}, fresh=False, label="initial-solution")
            o.ident = InitialSolution(j)
            return o

        l.ghost["base_elem"] = base_elem
        s.fields["_initial_solutions"] = l
        from pyvc.dsl import unknown_fields
        unknown_fields(cx, s)
        return {"self": s}

    def finish(self, cx, a, outcome):
        l = a["self"].fields["_initial_solutions"]
        if not isinstance(l, SList):
            return [("initial_solutions_drained_first", z3.BoolVal(False))]
        n_left = to_term_int(l.length) if not l.concrete else z3.IntVal(len(l.items))
        return [("initial_solutions_drained_first", n_left == 0)]

    def replay(self, obligation, model):
        return None
