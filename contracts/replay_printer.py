"""Replay builder for the printer contracts."""

SCRIPT = r'''#!/usr/bin/env python3
"""Replay of obligation
    {obligation}
A repetition must print its operand as a single symbol (grouped if necessary) and keep an open upper bound open, so
that the printed grammar reads back as the same grammar.  Exit 1 = reproduced."""
import os, sys
sys.path.insert(0, os.path.join(os.environ.get("VERIF_REPO", "/repo"), "src"))
from fandango.language.parse.parse import parse
bad = []
for spec in ['<start> ::= ("a" "b")* "c"\n', '<start> ::= ("a"*)? "c"\n', '<start> ::= "a"{{2,}} "c"\n', '<start> ::= ("a" "b"){{2}} "c"\n']:
    g, _ = parse(spec, use_stdlib=False, use_cache=False)
    printed = repr(g)
    try:
        g2, _ = parse(printed + "\n", use_stdlib=False, use_cache=False)
    except Exception as e:
        print(spec.strip(), "-> printed", repr(printed), "-> not readable:", type(e).__name__)
        bad.append(spec)
        continue
    words = ["c", "abc", "ababc", "abbc", "aac", "ac", "a" * 25 + "c", "abab" + "c"]
    diff = [w for w in words if (g.parse(w) is None) != (g2.parse(w) is None)]
    print(spec.strip(), "-> printed", repr(printed), "| words judged differently after re-reading:", diff)
    if diff:
        bad.append(spec)
if bad:
    print("VIOLATION reproduced")
    sys.exit(1)
print("not reproduced")
'''


def script(obligation):
    return SCRIPT.format(obligation=obligation)
