"""C12: the forest cache of language/grammar/parser/parser.py.

Object invariant CacheOK of a Parser: every entry of `_cache` holds the COMPLETE forest of its key
(len(_cache[key]) == NForest(key), where NForest(key) is the number of trees the iterative parser yields for that key;
that the iterative parser is a function of (word, start, mode, hookin_parent) is an assumed contract - the Earley
engine is out of reach).  parse_forest is a generator: the invariant is an obligation AT EVERY YIELD (the consumer may
never resume: parse() takes one tree and drops the generator) and at return.
Ownership: a yielded tree is never an object that is (or will be) stored in the cache.
"""
from __future__ import annotations

import z3

from pyvc.dsl import And, Contract, Implies, Loop, Not, Or, SBool, SDict, SInt, SList, SObj, SOpaque, T, cmp, idx_term, register, to_term_int

I = z3.IntSort()
B = z3.BoolSort()
NForest = z3.Function("NForest", I, I)
ForestTree = z3.Function("ForestTree", I, I, I)


def _key_term(cx, a):
    from pyvc.builtins import Builtins
    return cx.ghost["key_term"]


def _entry(cache: SDict, kt):
    for k, v in cache.store:
        if cache.ghost["ident_of"](k).eq(kt):
            return v
    return None


def cache_ok_now(cx, a):
    """CacheOK restricted to the key of this call (other entries are not touched: frame)"""
    cache = a["self"].fields["_cache"]
    kt = cx.ghost.get("key_term")
    if kt is None:
        return []
    e = _entry(cache, kt)
    if e is None:
        return [("cache_entry_complete", Implies(z3.Select(cache.keys, kt), z3.BoolVal(True)))]
    n = to_term_int(e.length if not e.concrete else len(e.items))
    return [("cache_entry_complete", n == NForest(kt))]


def forest_list(cx, kt, fresh: bool, label: str) -> SList:
    n = cx.int("n_forest", lo=0)
    cx.assume(to_term_int(n) == NForest(kt))
    l = SList(None, length=n, fresh=fresh, label=label)

    def elem(j):
        o = SObj("DerivationTree", {}, fresh=False, label=f"{label}[{idx_term(j)}]")
        o.ident = ForestTree(kt, idx_term(j))
        o.in_cache = not fresh  # type: ignore[attr-defined]
        return o

    l.elem = elem
    return l


@register
class Parser_inner_parse_forest(Contract):
    """assumed: the iterative parser yields a sequence of trees determined by (word, start, mode, hookin_parent)"""
    target = "language/grammar/parser/parser.py:Parser._parse_forest"
    trusted = True

    def fresh_result(self, cx, a):
        return forest_list(cx, cx.ghost["key_term"], True, "parsed")


@register
class IterParser_to_derivation_tree(Contract):
    """assumed: builds a new DerivationTree from a parser tree"""
    target = "language/grammar/parser/iterative_parser.py:IterativeParser.to_derivation_tree"
    trusted = True

    def fresh_result(self, cx, a):
        o = SObj("DerivationTree", {}, fresh=True, label="converted")
        o.ident = cx.const("converted", I)
        return o


@register
class Parser_collapse(Contract):
    target = "language/grammar/parser/parser.py:Parser.collapse"
    inline = True


@register
class IterParser_collapse(Contract):
    """assumed here: returns a newly built tree (or raises); its no-helper-symbol postcondition is checked under C04"""
    target = "language/grammar/parser/iterative_parser.py:IterativeParser.collapse"
    trusted = True

    def fresh_result(self, cx, a):
        o = SObj("DerivationTree", {}, fresh=True, label="collapsed")
        o.ident = cx.const("collapsed", I)
        return o


@register
class Tree_deepcopy(Contract):
    """assumed here (C10 covers deepcopy): returns a tree none of whose nodes is shared with the receiver"""
    target = "language/tree.py:DerivationTree.__deepcopy__"
    trusted = True

    def fresh_result(self, cx, a):
        o = SObj("DerivationTree", {}, fresh=True, label="deepcopy")
        o.ident = cx.const("copy", I)
        return o


def _havoc_hit(cx, env, i):
    pass


def _inv_none(cx, env, i):
    return []


def _havoc_miss(cx, env, i):
    a = cx.ghost["pre_args"]
    cache = a["self"].fields["_cache"]
    kt = cx.ghost["key_term"]
    # local accumulator (present when the function collects the forest before publishing it)
    for name in ("forest", "trees", "result", "new_forest"):
        v = env.get(name)
        if isinstance(v, SList):
            v.items, v.length, v.elem = None, i, None
    # the entry of this key stays absent while the forest is being produced (it is published after the loop)
    cache.store = []
    cache.keys = cx.ghost["pre_cache_keys"]
    cx.ghost["loop_allow"].append(cache)


def _inv_miss(cx, env, i):
    a = cx.ghost["pre_args"]
    cache = a["self"].fields["_cache"]
    kt = cx.ghost["key_term"]
    it = idx_term(i) if not isinstance(i, int) else z3.IntVal(i)
    out = []
    e = _entry(cache, kt)
    if e is None:
        out.append(("entry_absent", Not(z3.Select(cache.keys, kt))))
    else:
        n = to_term_int(e.length if not e.concrete else len(e.items))
        out.append(("entry_has_one_tree_per_iteration", And(n == it, it > 0)))
    for name in ("forest", "trees", "result", "new_forest"):
        v = env.get(name)
        if isinstance(v, SList):
            n = to_term_int(v.length if not v.concrete else len(v.items))
            out.append((f"accumulator_{name}_length", n == it))
    return out


def _one_yield_per_tree(cx, env, i, events):
    n = sum(1 for k, v in events if k == "yield")
    return [("one_tree_yielded_per_forest_entry", z3.BoolVal(n == 1))]


@register
class Parser_parse_forest(Contract):
    target = "language/grammar/parser/parser.py:Parser.parse_forest"
    properties = ("C12",)
    float_mode = "real"
    cases = ("word_str", "word_int")
    loops = {
        0: Loop(0, iter_text="forest", inv=_inv_none, havoc=_havoc_hit, modifies=("tree", "collapsed"),
                body_post=_one_yield_per_tree),
        1: Loop(1, iter_text="self._parse_forest(word, start, mode=mode, hookin_parent=hookin_parent, starter_bit=starter_bit)",
                inv=_inv_miss, havoc=_havoc_miss, modifies=("tree", "collapsed", "forest", "self._cache"),
                body_post=_one_yield_per_tree),
    }

    def inputs(self, cx, case):
        from pyvc.builtins import Builtins
        p = SObj("Parser", {}, fresh=False, label="self")
        p.ident = cx.const("parser", I)
        ip = SObj("IterativeParser", {}, fresh=False, label="iter_parser")
        ip.ident = cx.const("iter_parser", I)
        p.fields["_iter_parser"] = ip
        cache = cx.int_dict("cache")
        p.fields["_cache"] = cache
        word = cx.str("word", named=True) if case == "word_str" else cx.int("word_int", named=True)
        start = SObj("NonTerminal", {}, fresh=False, label="start")
        start.ident = cx.const("start_id", I)
        start.fields["@hash"] = SInt(start.ident)
        mode = cx.opaque("ParsingMode", base="mode")
        a = {"self": p, "word": word, "start": start, "mode": mode, "hookin_parent": None,
             "include_controlflow": cx.bool("include_controlflow", named=True)}
        cx.ghost["pre_cache_keys"] = cache.keys
        from pyvc.values import SStr
        b = Builtins(None)
        w2 = word if case == "word_str" else SStr(z3.IntToStr(to_term_int(word)))
        self._bind_key(cx, b, a, (w2, start, mode, None))
        return a

    def _bind_key(self, cx, b, a, key_value):
        kt = b.ident_term(key_value)
        cx.ghost["key_term"] = kt
        cx.ghost["key_value"] = key_value
        cache = a["self"].fields["_cache"]
        cache.ghost["ident_of"] = b.ident_term
        # value model of pre-existing entries: CacheOK holds at entry (requires)
        cache.base = lambda key: forest_list(cx, b.ident_term(key), False, "cached")

    def at_yield(self, cx, a, value, index):
        out = list(cache_ok_now(cx, a))
        cache = a["self"].fields["_cache"]
        stored = []
        for (o, f, v) in cx.writes:
            if f == "@items" and isinstance(o, SList) and any(o is lv for _, lv in cache.store):
                stored.append(v)
        for _, lv in cache.store:
            if isinstance(lv, SList) and lv.concrete:
                stored.extend(lv.items)
        shared = any(value is s for s in stored) or getattr(value, "in_cache", False)
        out.append(("yielded_tree_not_owned_by_cache", z3.BoolVal(not shared)))
        return out

    def finish(self, cx, a, outcome):
        if outcome.kind != "return":
            return []
        return [(n + "_at_return", f) for n, f in cache_ok_now(cx, a)]

    def replay(self, obligation, model):
        from contracts import replay_parser
        return replay_parser.cache_script(obligation, model)
