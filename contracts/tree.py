"""C10: bookkeeping of language/tree.py (parent links, sizes, cached hashes, equality, read-only accessors).

Heap model: the receiver and its parent are objects with named fields; the children are a heap list, i.e. pairwise
distinct objects whose fields `_parent`, `_size`, `hash_cache` live in per-list arrays (element j's field is arr[j]),
so a loop over a symbolic number of children is cut by an invariant over those arrays.
Ghost:  `@invalidated` on an object = invalidate_hash() has run on it after the last structural change (its cached hash
is cleared, its size recomputed, and the same holds for every ancestor).
Local invariant pieces proved here:
  (a) after set_children / add_child every listed child's parent link is the receiver,
  (b) size = 1 + sum of the children's sizes after every structural setter,
  (c) every setter of a hashed field (children, symbol, sender, recipient) ends with invalidate_hash on the receiver,
  (d) __hash__ = H(symbol, sender, recipient, children's hashes), cached; == on trees compares exactly these hashes,
  (e) read-only accessors write no field of a pre-existing object.
That these local facts compose to the global invariant after ANY operation sequence is not mechanised (listed).
"""
from __future__ import annotations

import z3

from pyvc.builtins import _hash_fns, arr_sum
from pyvc.dsl import And, Contract, ForAll, Implies, Loop, Not, Or, SBool, SInt, SList, SObj, SOpaque, T, cmp, idx_term, register, to_term_int
from pyvc.lists import NONE_REF, SOptInt, SRef, heap_list

I = z3.IntSort()
ChildHashSeq = z3.Function("ChildHashSeq", I, I)       # node -> identity of the sequence of its children's hashes
TreeHash = z3.Function("TreeHash", I, I)

REL = "language/tree.py"
INLINE_OK = {f"{REL}:DerivationTree.size", f"{REL}:DerivationTree.symbol", f"{REL}:DerivationTree.sender", f"{REL}:DerivationTree.recipient",
             f"{REL}:DerivationTree.parent", f"{REL}:DerivationTree.children", f"{REL}:DerivationTree.sources"}
CHILD_FIELDS = {"_parent": "ref", "_size": "int", "hash_cache": "optint"}


def symbol(cx, name="symbol"):
    s = SObj("NonTerminal", {}, fresh=False, label=name)
    s.ident = cx.const(name + "_id", I)
    s.fields["@hash"] = SInt(s.ident)
    return s


def node(cx, name: str, parent_case: str, n_children=None, cache_case: str = "any") -> SObj:
    """a pre-existing tree node; parent_case in {'root', 'child'}"""
    t = SObj("DerivationTree", {}, fresh=False, label=name)
    t.ident = cx.const(name + "_id", I)
    t.fields["_symbol"] = symbol(cx, name + "_symbol")
    t.fields["_sender"] = cx.opaque("str", base=name + "_sender", maybe_none=cx.bool(name + "_sender_none").term)
    t.fields["_recipient"] = cx.opaque("str", base=name + "_recipient", maybe_none=cx.bool(name + "_recipient_none").term)
    n = cx.int(name + "_n_children", lo=0) if n_children is None else n_children
    t.fields["_children"] = heap_list(cx, name + "_children", n, "DerivationTree", CHILD_FIELDS)
    t.fields["_sources"] = heap_list(cx, name + "_sources", cx.int(name + "_n_sources", lo=0), "DerivationTree", CHILD_FIELDS)
    t.fields["_size"] = cx.int(name + "_size")
    t.fields["read_only"] = cx.bool(name + "_read_only")
    t.fields["origin_repetitions"] = cx.opaque_list(cx.int(name + "_n_origin", lo=0))
    if cache_case == "none":
        t.fields["hash_cache"] = None
    else:
        t.fields["hash_cache"] = cx.int(name + "_hash_cache")
    if parent_case == "root":
        t.fields["_parent"] = None
    else:
        p = SObj("DerivationTree", {}, fresh=False, label=name + "_parent")
        p.ident = cx.const(name + "_parent_id", I)
        p.fields["hash_cache"] = cx.int(name + "_parent_hash_cache")
        p.fields["_size"] = cx.int(name + "_parent_size")
        p.fields["@invalidated"] = False
        t.fields["_parent"] = p
    t.fields["@invalidated"] = False
    return t


def setup(cx):
    cx.ghost["inline_ok"] = set(INLINE_OK)


def sizes_array(t: SObj):
    return t.fields["_children"].ghost["arrays"]["_size"][1]


def parents_array(lst: SList):
    return lst.ghost["arrays"]["_parent"][1]


def invalidated(obj) -> bool:
    return obj.fields.get("@invalidated") is True and obj.fields.get("hash_cache") is None


def non_fresh_writes(cx, allowed=()):
    out = []
    for o, f, v in cx.writes:
        if f.startswith("@"):
            continue
        if getattr(o, "fresh", True):
            continue
        if any(o is a for a in allowed):
            continue
        out.append((o, f))
    return out


# ------------------------------------------------------------------------------------------------ invalidate_hash

@register
class Tree_invalidate_hash(Contract):
    target = f"{REL}:DerivationTree.invalidate_hash"
    properties = ("C10",)
    float_mode = "real"
    cases = ("root", "child")

    def inputs(self, cx, case):
        setup(cx)
        return {"self": node(cx, "self", case), "update_size": True}

    # call-site direction: clears the cache, recomputes the size, and does the same for every ancestor
    def effects(self, cx, a):
        s = a["self"]
        cx.log_write(s, "hash_cache")
        s.fields["hash_cache"] = None
        upd = a.get("update_size", True)
        if upd is True and "_children" in s.fields and isinstance(s.fields["_children"], SList) and "arrays" in s.fields["_children"].ghost:
            kids = s.fields["_children"]
            cx.log_write(s, "_size")
            s.fields["_size"] = SInt(1 + arr_sum(sizes_array(s), to_term_int(kids.length)))
        elif upd is True:
            cx.log_write(s, "_size")
            s.fields["_size"] = cx.int("recomputed_size")
        s.fields["@invalidated"] = True
        p = s.fields.get("_parent")
        if isinstance(p, SObj):
            p.fields["hash_cache"] = None
            p.fields["_size"] = cx.int("recomputed_parent_size")
            p.fields["@invalidated"] = True

    def fresh_result(self, cx, a):
        return None

    def ensures(self, cx, a, r):
        s = a["self"]
        if cx.ghost.get("call_site"):
            return []           # the call-site effect above IS the postcondition
        n = to_term_int(s.fields["_children"].length)
        out = [("hash_cache_cleared", z3.BoolVal(s.fields["hash_cache"] is None)),
               ("size_is_one_plus_children_sizes", to_term_int(s.fields["_size"]) == 1 + arr_sum(sizes_array(s), n))]
        p = s.fields["_parent"]
        if isinstance(p, SObj):
            out.append(("ancestors_invalidated", z3.BoolVal(invalidated(p))))
        return out


# ------------------------------------------------------------------------------------------------ set_children / add_child

def _sc_havoc(cx, env, i):
    kids = env["self"].fields["_children"]
    arrs = kids.ghost["arrays"]
    arrs["_parent"] = ("ref", z3.Array(cx._name("parents"), I, I))


def _sc_inv(cx, env, i):
    s = env["self"]
    kids = s.fields["_children"]
    it = idx_term(i) if not isinstance(i, int) else z3.IntVal(i)
    j = z3.Int(cx._name("cj"))
    P = parents_array(kids)
    P0 = cx.ghost["parents0"]
    return [("children_seen_so_far_point_to_receiver", ForAll([j], Implies(And(j >= 0, j < it), P[j] == s.ident))),
            ("other_children_untouched", ForAll([j], Implies(j >= it, P[j] == P0[j])))]


@register
class Tree_set_children(Contract):
    target = f"{REL}:DerivationTree.set_children"
    properties = ("C10",)
    float_mode = "real"
    cases = ("root", "child")
    loops = {0: Loop(0, iter_text="self._children", inv=_sc_inv, havoc=_sc_havoc, modifies=("child", "self._children"))}

    def inputs(self, cx, case):
        setup(cx)
        s = node(cx, "self", case)
        new = heap_list(cx, "new_children", cx.int("n_new", lo=0), "DerivationTree", CHILD_FIELDS)
        cx.ghost["parents0"] = parents_array(new)
        cx.ghost["new_list"] = new
        return {"self": s, "children": new}

    def effects(self, cx, a):
        s, new = a["self"], a["children"]
        cx.log_write(s, "_children")
        s.fields["_children"] = new
        if isinstance(new, SList) and "arrays" in new.ghost:
            cx.log_write(new, "elements._parent")
            new.ghost["arrays"]["_parent"] = ("ref", z3.K(I, s.ident))
        elif isinstance(new, SList) and "slice_of" in new.ghost:
            # a slice lists element objects of another list: re-parenting them writes THOSE objects
            src, lo = new.ghost["slice_of"]
            n = to_term_int(new.length)
            P = parents_array(src)
            P2 = z3.Array(cx._name("parents_after"), I, I)
            j = z3.Int(cx._name("sj"))
            cx.assume(ForAll([j], P2[j] == z3.If(And(j >= lo, j < lo + n), s.ident, P[j])))
            src.ghost["arrays"]["_parent"] = ("ref", P2)
            cx.log_write(src, "elements._parent")
        if "_children" in s.fields and isinstance(s.fields["_children"], SList) and "arrays" not in s.fields["_children"].ghost:
            cx.log_write(s, "hash_cache")
            s.fields["hash_cache"] = None
            s.fields["_size"] = cx.int("size")
            s.fields["@invalidated"] = True
            return
        Tree_invalidate_hash().effects(cx, {"self": s})

    def fresh_result(self, cx, a):
        return None

    def ensures(self, cx, a, r):
        if cx.ghost.get("call_site"):
            return []
        s = a["self"]
        new = cx.ghost["new_list"]
        kids = s.fields["_children"]
        n = to_term_int(new.length)
        j = z3.Int(cx._name("cj"))
        out = [("children_list_installed", z3.BoolVal(kids is new)),
               ("every_child_points_to_receiver", ForAll([j], Implies(And(j >= 0, j < n), parents_array(new)[j] == s.ident))),
               ("receiver_invalidated", z3.BoolVal(invalidated(s))),
               ("size_is_one_plus_children_sizes", to_term_int(s.fields["_size"]) == 1 + arr_sum(new.ghost["arrays"]["_size"][1], n))]
        p = s.fields["_parent"]
        if isinstance(p, SObj):
            out.append(("ancestors_invalidated", z3.BoolVal(invalidated(p))))
        return out


@register
class Tree_add_child(Contract):
    target = f"{REL}:DerivationTree.add_child"
    properties = ("C10",)
    float_mode = "real"
    cases = ("root", "child")

    def inputs(self, cx, case):
        setup(cx)
        s = node(cx, "self", case)
        c = SObj("DerivationTree", {}, fresh=False, label="child")
        c.ident = cx.const("child_id", I)
        c.fields["_parent"] = None
        c.fields["_size"] = cx.int("child_size", lo=1)
        c.fields["hash_cache"] = None
        cx.ghost["n0"] = to_term_int(s.fields["_children"].length)
        cx.ghost["sizes0"] = sizes_array(s)
        cx.ghost["parents0"] = parents_array(s.fields["_children"])
        return {"self": s, "child": c}

    def ensures(self, cx, a, r):
        s, c = a["self"], a["child"]
        kids = s.fields["_children"]
        n0 = cx.ghost["n0"]
        P = parents_array(kids)
        j = z3.Int(cx._name("cj"))
        out = [("one_more_child", to_term_int(kids.length) == n0 + 1),
               ("child_is_last", kids.ghost["id_fn"](n0) == c.ident),
               ("child_points_to_receiver", P[n0] == s.ident),
               ("other_children_keep_their_parent_link", ForAll([j], Implies(And(j >= 0, j < n0), P[j] == cx.ghost["parents0"][j]))),
               ("receiver_invalidated", z3.BoolVal(invalidated(s))),
               ("size_is_one_plus_children_sizes", to_term_int(s.fields["_size"]) == 1 + arr_sum(sizes_array(s), n0 + 1))]
        p = s.fields["_parent"]
        if isinstance(p, SObj):
            out.append(("ancestors_invalidated", z3.BoolVal(invalidated(p))))
        return out


# ------------------------------------------------------------------------------------------------ setters of hashed fields

class _Setter(Contract):
    properties = ("C10",)
    float_mode = "real"
    cases = ("root", "child")
    field = ""

    def inputs(self, cx, case):
        setup(cx)
        s = node(cx, "self", case)
        v = symbol(cx, "new_symbol") if self.field == "_symbol" else cx.opaque("str", base="new_value", maybe_none=cx.bool("new_none").term)
        cx.ghost["new_value"] = v
        name = {"_symbol": "symbol", "_sender": "sender", "_recipient": "recipient"}[self.field]
        cx.assume_note("assert isinstance(symbol, (Terminal, NonTerminal, Slice)) is a type check on the argument")
        return {"self": s, name: v}

    def ensures(self, cx, a, r):
        s = a["self"]
        out = [("field_stored", z3.BoolVal(s.fields[self.field] is cx.ghost["new_value"])),
               ("receiver_invalidated", z3.BoolVal(invalidated(s)))]
        p = s.fields["_parent"]
        if isinstance(p, SObj):
            out.append(("ancestors_invalidated", z3.BoolVal(invalidated(p))))
        return out


@register
class Tree_symbol_setter(_Setter):
    target = f"{REL}:DerivationTree.symbol@setter"
    field = "_symbol"


@register
class Tree_sender_setter(_Setter):
    target = f"{REL}:DerivationTree.sender@setter"
    field = "_sender"


@register
class Tree_recipient_setter(_Setter):
    target = f"{REL}:DerivationTree.recipient@setter"
    field = "_recipient"


# ------------------------------------------------------------------------------------------------ __hash__ / __eq__

_CHILD_HASHES = "tuple((hash(child) for child in self._children))"


def _hook_child_hashes(it, fr):
    s = fr.locals["self"]
    o = SOpaque("tuple", ChildHashSeq(s.ident))
    return o


def spec_hash(s: SObj):
    hp, H = _hash_fns()

    def idt(v):
        if v is None:
            return z3.IntVal(-7)
        return v.ident

    return H(hp(s.fields["_symbol"].ident, hp(idt(s.fields["_sender"]), hp(idt(s.fields["_recipient"]), hp(ChildHashSeq(s.ident), z3.IntVal(-1))))))


@register
class Tree_hash_body(Contract):
    target = f"{REL}:DerivationTree.__hash__"
    key = f"{REL}:DerivationTree.__hash__@body"
    properties = ("C10",)
    float_mode = "real"
    cases = ("cached", "not_cached")
    expr_hooks = {_CHILD_HASHES: _hook_child_hashes}

    def inputs(self, cx, case):
        setup(cx)
        s = node(cx, "self", "root", cache_case="none" if case == "not_cached" else "any")
        # sender/recipient as plain (non-None) tokens or None is irrelevant to the hash structure: take tokens
        for f in ("_sender", "_recipient"):
            s.fields[f] = cx.opaque("str", base=f)
        if case == "cached":
            # invariant (c): a cached hash is the hash of the current structure
            cx.assume(to_term_int(s.fields["hash_cache"]) == spec_hash(s))
        return {"self": s}

    def ensures(self, cx, a, r):
        s = a["self"]
        return [("hash_covers_symbol_sender_recipient_children", to_term_int(r) == spec_hash(s)),
                ("hash_is_cached", z3.BoolVal(s.fields["hash_cache"] is not None) if not isinstance(s.fields["hash_cache"], SInt)
                 else to_term_int(s.fields["hash_cache"]) == spec_hash(s))]


# ------------------------------------------------------------------------------------------------ __getitem__ (read-only accessor)

@register
class Slice_ctor(Contract):
    """assumed: Slice() builds a symbol object"""
    target = "language/symbols/slice.py:Slice.__new__"
    trusted = True

    def fresh_result(self, cx, a):
        o = SObj("Slice", {}, fresh=True, label="slice-symbol")
        o.ident = cx.const("slice_symbol", I)
        o.fields["@hash"] = SInt(o.ident)
        return o


@register
class Tree_getitem(Contract):
    target = f"{REL}:DerivationTree.__getitem__"
    properties = ("C10",)
    float_mode = "real"
    cases = ("index", "slice")

    def inputs(self, cx, case):
        setup(cx)
        cx.ghost["inline_ok"] |= {f"{REL}:SliceTree.__init__", f"{REL}:DerivationTree.__init__", f"{REL}:DerivationTree.set_children@inline"}
        s = node(cx, "self", "root")
        cx.ghost["parents0"] = parents_array(s.fields["_children"])
        if case == "index":
            item = cx.int("index")
        else:
            item = SObj("slice", {"start": cx.int("lo", lo=0), "stop": cx.int("hi", lo=0), "step": None}, fresh=False, label="slice")
        return {"self": s, "item": item}

    def ensures(self, cx, a, r):
        s = a["self"]
        kids = s.fields["_children"]
        j = z3.Int(cx._name("cj"))
        n = to_term_int(kids.length)
        bad = non_fresh_writes(cx)
        out = [("no_field_of_a_pre_existing_node_written", z3.BoolVal(not bad)),
               ("children_keep_their_parent_link", ForAll([j], Implies(And(j >= 0, j < n), parents_array(kids)[j] == cx.ghost["parents0"][j])))]
        return out

    def replay(self, obligation, model):
        from contracts import replay_tree
        return replay_tree.slice_script(obligation, model)
