"""C10: bookkeeping of language/tree.py (parent links, sizes, cached hashes, equality, read-only accessors).

Heap model: the receiver and its parent are objects with named fields; the children are a heap list, i.e. pairwise
distinct objects whose fields `_parent`, `_size`, `hash_cache` live in per-list arrays (element j's field is arr[j]),
so a loop over a symbolic number of children is cut by an invariant over those arrays.
Ghost:  `@invalidated` on an object = invalidate_hash() has run on it after the last structural change (its cached hash
is cleared, its size recomputed, and the same holds for every ancestor).
Local invariant pieces proved here:
  (a) after set_children / add_child every listed child's parent link is the receiver,
  (b) size = 1 + sum of the children's sizes after every structural setter,
  (c) every setter of a hashed field (children, symbol, sender, recipient) ends with invalidate_hash on the receiver,
  (d) __hash__ = H(symbol, sender, recipient, children's hashes), cached; == on trees compares exactly these hashes,
  (e) read-only accessors write no field of a pre-existing object.
That these local facts compose to the global invariant after ANY operation sequence is not mechanised (listed).
"""
from __future__ import annotations

import z3

from pyvc.builtins import _hash_fns, arr_sum
from pyvc.dsl import And, Contract, ForAll, Implies, Loop, Not, Or, SBool, SInt, SList, SObj, SOpaque, T, cmp, idx_term, register, to_term_int
from pyvc.lists import NONE_REF, SOptInt, SRef, heap_list

import contracts.parser_state  # noqa: F401,E402  (Symbol.__eq__ contract: equality of symbol names)

I = z3.IntSort()
ChildHashSeq = z3.Function("ChildHashSeq", I, I)       # node -> identity of the sequence of its children's hashes
TreeHash = z3.Function("TreeHash", I, I)

REL = "language/tree.py"
INLINE_OK = {f"{REL}:DerivationTree.size", f"{REL}:DerivationTree.symbol", f"{REL}:DerivationTree.sender", f"{REL}:DerivationTree.recipient",
             f"{REL}:DerivationTree.parent", f"{REL}:DerivationTree.children", f"{REL}:DerivationTree.sources"}
CHILD_FIELDS = {"_parent": "ref", "_size": "int", "hash_cache": "optint"}


def symbol(cx, name="symbol"):
    s = SObj("NonTerminal", {}, fresh=False, label=name)
    s.ident = cx.const(name + "_id", I)
    s.fields["@hash"] = SInt(s.ident)
    return s


def node(cx, name: str, parent_case: str, n_children=None, cache_case: str = "any") -> SObj:
    """a pre-existing tree node; parent_case in {'root', 'child'}"""
    t = SObj("DerivationTree", {}, fresh=False, label=name)
    t.ident = cx.const(name + "_id", I)
    t.fields["_symbol"] = symbol(cx, name + "_symbol")
    t.fields["_sender"] = cx.opaque("str", base=name + "_sender", maybe_none=cx.bool(name + "_sender_none").term)
    t.fields["_recipient"] = cx.opaque("str", base=name + "_recipient", maybe_none=cx.bool(name + "_recipient_none").term)
    n = cx.int(name + "_n_children", lo=0) if n_children is None else n_children
    t.fields["_children"] = heap_list(cx, name + "_children", n, "DerivationTree", CHILD_FIELDS)
    t.fields["_sources"] = heap_list(cx, name + "_sources", cx.int(name + "_n_sources", lo=0), "DerivationTree", CHILD_FIELDS)
    t.fields["_size"] = cx.int(name + "_size")
    t.fields["read_only"] = cx.bool(name + "_read_only")
    t.fields["origin_repetitions"] = cx.opaque_list(cx.int(name + "_n_origin", lo=0))
    if cache_case == "none":
        t.fields["hash_cache"] = None
    else:
        t.fields["hash_cache"] = cx.int(name + "_hash_cache")
    if parent_case == "root":
        t.fields["_parent"] = None
    else:
        p = SObj("DerivationTree", {}, fresh=False, label=name + "_parent")
        p.ident = cx.const(name + "_parent_id", I)
        p.fields["hash_cache"] = cx.int(name + "_parent_hash_cache")
        p.fields["_size"] = cx.int(name + "_parent_size")
        p.fields["@invalidated"] = False
        t.fields["_parent"] = p
    t.fields["@invalidated"] = False
    return t


def setup(cx):
    cx.ghost["inline_ok"] = set(INLINE_OK)


def sizes_array(t: SObj):
    return t.fields["_children"].ghost["arrays"]["_size"][1]


def parents_array(lst: SList):
    return lst.ghost["arrays"]["_parent"][1]


def invalidated(obj) -> bool:
    return obj.fields.get("@invalidated") is True and obj.fields.get("hash_cache") is None


def non_fresh_writes(cx, allowed=()):
    out = []
    for o, f, v in cx.writes:
        if f.startswith("@"):
            continue
        if getattr(o, "fresh", True):
            continue
        if any(o is a for a in allowed):
            continue
        out.append((o, f))
    return out


# ------------------------------------------------------------------------------------------------ invalidate_hash

@register
class Tree_invalidate_hash(Contract):
    target = f"{REL}:DerivationTree.invalidate_hash"
    properties = ("C10",)
    float_mode = "real"
    cases = ("root", "child")

    def inputs(self, cx, case):
        setup(cx)
        return {"self": node(cx, "self", case), "update_size": True}

    # call-site direction: clears the cache, recomputes the size, and does the same for every ancestor
    def effects(self, cx, a):
        s = a["self"]
        cx.log_write(s, "hash_cache")
        s.fields["hash_cache"] = None
        upd = a.get("update_size", True)
        if upd is True and "_children" in s.fields and isinstance(s.fields["_children"], SList) and "arrays" in s.fields["_children"].ghost:
            kids = s.fields["_children"]
            cx.log_write(s, "_size")
            s.fields["_size"] = SInt(1 + arr_sum(sizes_array(s), to_term_int(kids.length)))
        elif upd is True:
            cx.log_write(s, "_size")
            s.fields["_size"] = cx.int("recomputed_size")
        s.fields["@invalidated"] = True
        p = s.fields.get("_parent")
        if isinstance(p, SObj):
            p.fields["hash_cache"] = None
            p.fields["_size"] = cx.int("recomputed_parent_size")
            p.fields["@invalidated"] = True

    def fresh_result(self, cx, a):
        return None

    def ensures(self, cx, a, r):
        s = a["self"]
        if cx.ghost.get("call_site"):
            return []           # the call-site effect above IS the postcondition
        n = to_term_int(s.fields["_children"].length)
        out = [("hash_cache_cleared", z3.BoolVal(s.fields["hash_cache"] is None)),
               ("size_is_one_plus_children_sizes", to_term_int(s.fields["_size"]) == 1 + arr_sum(sizes_array(s), n))]
        p = s.fields["_parent"]
        if isinstance(p, SObj):
            out.append(("ancestors_invalidated", z3.BoolVal(invalidated(p))))
        return out


# ------------------------------------------------------------------------------------------------ set_children / add_child

def _sc_havoc(cx, env, i):
    kids = env["self"].fields["_children"]
    arrs = kids.ghost["arrays"]
    arrs["_parent"] = ("ref", z3.Array(cx._name("parents"), I, I))


def _sc_inv(cx, env, i):
    s = env["self"]
    kids = s.fields["_children"]
    it = idx_term(i) if not isinstance(i, int) else z3.IntVal(i)
    j = z3.Int(cx._name("cj"))
    P = parents_array(kids)
    P0 = cx.ghost["parents0"]
    return [("children_seen_so_far_point_to_receiver", ForAll([j], Implies(And(j >= 0, j < it), P[j] == s.ident))),
            ("other_children_untouched", ForAll([j], Implies(j >= it, P[j] == P0[j])))]


@register
class Tree_set_children(Contract):
    target = f"{REL}:DerivationTree.set_children"
    properties = ("C10",)
    float_mode = "real"
    cases = ("root", "child")
    loops = {0: Loop(0, iter_text="self._children", inv=_sc_inv, havoc=_sc_havoc, modifies=("child", "self._children"))}

    def inputs(self, cx, case):
        setup(cx)
        s = node(cx, "self", case)
        new = heap_list(cx, "new_children", cx.int("n_new", lo=0), "DerivationTree", CHILD_FIELDS)
        cx.ghost["parents0"] = parents_array(new)
        cx.ghost["new_list"] = new
        return {"self": s, "children": new}

    def effects(self, cx, a):
        s, new = a["self"], a["children"]
        cx.log_write(s, "_children")
        s.fields["_children"] = new
        if isinstance(new, SList) and "arrays" in new.ghost:
            cx.log_write(new, "elements._parent")
            new.ghost["arrays"]["_parent"] = ("ref", z3.K(I, s.ident))
        elif isinstance(new, SList) and "slice_of" in new.ghost:
            # a slice lists element objects of another list: re-parenting them writes THOSE objects
            src, lo = new.ghost["slice_of"]
            n = to_term_int(new.length)
            P = parents_array(src)
            P2 = z3.Array(cx._name("parents_after"), I, I)
            j = z3.Int(cx._name("sj"))
            cx.assume(ForAll([j], P2[j] == z3.If(And(j >= lo, j < lo + n), s.ident, P[j])))
            src.ghost["arrays"]["_parent"] = ("ref", P2)
            cx.log_write(src, "elements._parent")
        if "_children" in s.fields and isinstance(s.fields["_children"], SList) and "arrays" not in s.fields["_children"].ghost:
            cx.log_write(s, "hash_cache")
            s.fields["hash_cache"] = None
            s.fields["_size"] = cx.int("size")
            s.fields["@invalidated"] = True
            return
        Tree_invalidate_hash().effects(cx, {"self": s})

    def fresh_result(self, cx, a):
        return None

    def ensures(self, cx, a, r):
        if cx.ghost.get("call_site"):
            return []
        s = a["self"]
        new = cx.ghost["new_list"]
        kids = s.fields["_children"]
        n = to_term_int(new.length)
        j = z3.Int(cx._name("cj"))
        out = [("children_list_installed", z3.BoolVal(kids is new)),
               ("every_child_points_to_receiver", ForAll([j], Implies(And(j >= 0, j < n), parents_array(new)[j] == s.ident))),
               ("receiver_invalidated", z3.BoolVal(invalidated(s))),
               ("size_is_one_plus_children_sizes", to_term_int(s.fields["_size"]) == 1 + arr_sum(new.ghost["arrays"]["_size"][1], n))]
        p = s.fields["_parent"]
        if isinstance(p, SObj):
            out.append(("ancestors_invalidated", z3.BoolVal(invalidated(p))))
        return out


@register
class Tree_add_child(Contract):
    target = f"{REL}:DerivationTree.add_child"
    properties = ("C10",)
    float_mode = "real"
    cases = ("root", "child")

    def inputs(self, cx, case):
        setup(cx)
        s = node(cx, "self", case)
        c = SObj("DerivationTree", {}, fresh=False, label="child")
        c.ident = cx.const("child_id", I)
        c.fields["_parent"] = None
        c.fields["_size"] = cx.int("child_size", lo=1)
        c.fields["hash_cache"] = None
        cx.ghost["n0"] = to_term_int(s.fields["_children"].length)
        cx.ghost["sizes0"] = sizes_array(s)
        cx.ghost["parents0"] = parents_array(s.fields["_children"])
        return {"self": s, "child": c}

    # call-site direction, for receivers whose children are a sequence of identities (contracts/fuzz.py): what the
    # verified postconditions state -- one more child, it is the last one, it points to the receiver, caches cleared
    def effects(self, cx, a):
        s, c = a["self"], a["child"]
        kids = s.fields.get("_children")
        if not (isinstance(kids, SList) and "seq" in kids.ghost and "seq_make" in kids.ghost and isinstance(c, SObj) and c.ident is not None):
            from pyvc.ctx import Unsupported
            raise Unsupported("add_child at a call site: receiver's children are not a sequence of identities")
        cx.log_write(s, "_children")
        new = kids.ghost["seq_make"](z3.Concat(kids.ghost["seq"], z3.Unit(c.ident)))
        new.ghost["last_added"] = c
        new.ghost["added"] = list(kids.ghost.get("added", [])) + [c]       # seq_make copied the earlier ones; idempotent
        s.fields["_children"] = new
        cx.log_write(c, "_parent")
        c.fields["_parent"] = s
        cx.log_write(s, "_size")
        s.fields["_size"] = cx.int("size_after_add", lo=1)
        s.fields["hash_cache"] = None
        s.fields["@invalidated"] = True

    def fresh_result(self, cx, a):
        return None

    def ensures(self, cx, a, r):
        if cx.ghost.get("call_site"):
            return []
        s, c = a["self"], a["child"]
        kids = s.fields["_children"]
        n0 = cx.ghost["n0"]
        P = parents_array(kids)
        j = z3.Int(cx._name("cj"))
        out = [("one_more_child", to_term_int(kids.length) == n0 + 1),
               ("child_is_last", kids.ghost["id_fn"](n0) == c.ident),
               ("child_points_to_receiver", P[n0] == s.ident),
               ("other_children_keep_their_parent_link", ForAll([j], Implies(And(j >= 0, j < n0), P[j] == cx.ghost["parents0"][j]))),
               ("receiver_invalidated", z3.BoolVal(invalidated(s))),
               ("size_is_one_plus_children_sizes", to_term_int(s.fields["_size"]) == 1 + arr_sum(sizes_array(s), n0 + 1))]
        p = s.fields["_parent"]
        if isinstance(p, SObj):
            out.append(("ancestors_invalidated", z3.BoolVal(invalidated(p))))
        return out


# ------------------------------------------------------------------------------------------------ setters of hashed fields

class _Setter(Contract):
    properties = ("C10",)
    float_mode = "real"
    cases = ("root", "child")
    field = ""

    def inputs(self, cx, case):
        setup(cx)
        s = node(cx, "self", case)
        v = symbol(cx, "new_symbol") if self.field == "_symbol" else cx.opaque("str", base="new_value", maybe_none=cx.bool("new_none").term)
        cx.ghost["new_value"] = v
        name = {"_symbol": "symbol", "_sender": "sender", "_recipient": "recipient"}[self.field]
        cx.assume_note("assert isinstance(symbol, (Terminal, NonTerminal, Slice)) is a type check on the argument")
        return {"self": s, name: v}

    # call-site direction: the verified postconditions (field stored, receiver and ancestors invalidated)
    def effects(self, cx, a):
        s = a["self"]
        name = {"_symbol": "symbol", "_sender": "sender", "_recipient": "recipient"}[self.field]
        cx.log_write(s, self.field)
        s.fields[self.field] = a[name]
        s.fields["hash_cache"] = None
        s.fields["@invalidated"] = True
        p = s.fields.get("_parent")
        if isinstance(p, SObj):
            p.fields["hash_cache"] = None
            p.fields["@invalidated"] = True

    def fresh_result(self, cx, a):
        return None

    def ensures(self, cx, a, r):
        if cx.ghost.get("call_site"):
            return []
        s = a["self"]
        out = [("field_stored", z3.BoolVal(s.fields[self.field] is cx.ghost["new_value"])),
               ("receiver_invalidated", z3.BoolVal(invalidated(s)))]
        p = s.fields["_parent"]
        if isinstance(p, SObj):
            out.append(("ancestors_invalidated", z3.BoolVal(invalidated(p))))
        return out


@register
class Tree_symbol_setter(_Setter):
    target = f"{REL}:DerivationTree.symbol@setter"
    field = "_symbol"


@register
class Tree_sender_setter(_Setter):
    target = f"{REL}:DerivationTree.sender@setter"
    field = "_sender"


@register
class Tree_recipient_setter(_Setter):
    target = f"{REL}:DerivationTree.recipient@setter"
    field = "_recipient"


# ------------------------------------------------------------------------------------------------ __hash__ / __eq__

_CHILD_HASHES = "tuple((hash(child) for child in self._children))"


def _hook_child_hashes(it, fr):
    s = fr.locals["self"]
    o = SOpaque("tuple", ChildHashSeq(s.ident))
    return o


def spec_hash(s: SObj):
    hp, H = _hash_fns()

    def idt(v):
        if v is None:
            return z3.IntVal(-7)
        return v.ident

    return H(hp(s.fields["_symbol"].ident, hp(idt(s.fields["_sender"]), hp(idt(s.fields["_recipient"]), hp(ChildHashSeq(s.ident), z3.IntVal(-1))))))


@register
class Tree_hash_body(Contract):
    target = f"{REL}:DerivationTree.__hash__"
    key = f"{REL}:DerivationTree.__hash__@body"
    properties = ("C10",)
    float_mode = "real"
    cases = ("cached", "not_cached")
    expr_hooks = {_CHILD_HASHES: _hook_child_hashes}

    def inputs(self, cx, case):
        setup(cx)
        s = node(cx, "self", "root", cache_case="none" if case == "not_cached" else "any")
        # sender/recipient as plain (non-None) tokens or None is irrelevant to the hash structure: take tokens
        for f in ("_sender", "_recipient"):
            s.fields[f] = cx.opaque("str", base=f)
        if case == "cached":
            # invariant (c): a cached hash is the hash of the current structure
            cx.assume(to_term_int(s.fields["hash_cache"]) == spec_hash(s))
        return {"self": s}

    def ensures(self, cx, a, r):
        s = a["self"]
        return [("hash_covers_symbol_sender_recipient_children", to_term_int(r) == spec_hash(s)),
                ("hash_is_cached", z3.BoolVal(s.fields["hash_cache"] is not None) if not isinstance(s.fields["hash_cache"], SInt)
                 else to_term_int(s.fields["hash_cache"]) == spec_hash(s))]


# ------------------------------------------------------------------------------------------------ __getitem__ (read-only accessor)

@register
class Slice_ctor(Contract):
    """assumed: Slice() builds a symbol object"""
    target = "language/symbols/slice.py:Slice.__new__"
    trusted = True

    def fresh_result(self, cx, a):
        o = SObj("Slice", {}, fresh=True, label="slice-symbol")
        o.ident = cx.const("slice_symbol", I)
        o.fields["@hash"] = SInt(o.ident)
        return o


@register
class Tree_getitem(Contract):
    target = f"{REL}:DerivationTree.__getitem__"
    properties = ("C10",)
    float_mode = "real"
    cases = ("index", "slice")

    def inputs(self, cx, case):
        setup(cx)
        cx.ghost["inline_ok"] |= {f"{REL}:SliceTree.__init__", f"{REL}:DerivationTree.__init__", f"{REL}:DerivationTree.set_children@inline"}
        s = node(cx, "self", "root")
        cx.ghost["parents0"] = parents_array(s.fields["_children"])
        if case == "index":
            item = cx.int("index")
        else:
            item = SObj("slice", {"start": cx.int("lo", lo=0), "stop": cx.int("hi", lo=0), "step": None}, fresh=False, label="slice")
        return {"self": s, "item": item}

    # call-site direction (selector contracts): the item is a tree determined by the receiver and the index expression
    def may_raise(self, cx, a):
        return [("IndexError", None), ("StepException", None)]

    def fresh_result(self, cx, a):
        from pyvc.builtins import Builtins
        item = a["item"]
        iid = item.ident if getattr(item, "ident", None) is not None else Builtins(None).ident_term(item)
        t = SObj("DerivationTree", {}, fresh=False, label="item")
        t.ident = ItemOf(a["self"].ident, iid)
        return t

    def ensures(self, cx, a, r):
        if cx.ghost.get("call_site"):
            return []
        s = a["self"]
        kids = s.fields["_children"]
        j = z3.Int(cx._name("cj"))
        n = to_term_int(kids.length)
        bad = non_fresh_writes(cx)
        out = [("no_field_of_a_pre_existing_node_written", z3.BoolVal(not bad)),
               ("children_keep_their_parent_link", ForAll([j], Implies(And(j >= 0, j < n), parents_array(kids)[j] == cx.ghost["parents0"][j])))]
        return out

    def replay(self, obligation, model):
        from contracts import replay_tree
        return replay_tree.slice_script(obligation, model)


# ------------------------------------------------------------------------------------------------ replace_multiple

PathExt = z3.Function("PathExt", I, I, I, I)      # path, kind of step (0 child / 1 source), index -> path
ItemOf = z3.Function("ItemOf", I, I, I)             # (tree, index expression) -> identity of tree[index expression]
ReplacementAt = z3.Function("ReplacementAt", I, I)  # path -> identity of the replacement tree registered for it
ReplacedOf = z3.Function("ReplacedOf", I, I)        # node -> identity of the tree the recursive replace_multiple returns for it
SymOfTree = z3.Function("SymOfTree", I, I)         # tree identity -> identity of its symbol


def path_value(cx, ident):
    p = SOpaque("path", ident)

    def add(op, other, ident=ident):
        # current_path + (ChildStep(i),)  /  + (SourceStep(i),)
        if isinstance(other, tuple) and len(other) == 1 and isinstance(other[0], SObj) and other[0].cls in ("ChildStep", "SourceStep"):
            st = other[0]
            kind = 0 if st.cls == "ChildStep" else 1
            return path_value(cx, PathExt(ident, z3.IntVal(kind), to_term_int(st.fields["index"])))
        from pyvc.values import Unsupported
        raise Unsupported("path concatenation of an unexpected shape")

    p.attrs["binop"] = add
    p.attrs["isinstance"] = lambda n: n == "tuple"
    return p


def plain_tree(cx, name, fresh=False, symbol_obj=None, read_only=None):
    """a tree node described by identity, symbol, flags and a child list (used for copies, replacements and results)"""
    t = SObj("DerivationTree", {}, fresh=fresh, label=name)
    t.ident = cx.const(name + "_id", I)
    t.fields["_symbol"] = symbol_obj if symbol_obj is not None else symbol(cx, name + "_symbol")
    t.fields["read_only"] = cx.bool(name + "_read_only") if read_only is None else read_only
    t.fields["_parent"] = None
    t.fields["_sender"] = None
    t.fields["_recipient"] = None
    t.fields["hash_cache"] = None
    t.fields["_size"] = cx.int(name + "_size")
    t.fields["origin_repetitions"] = cx.opaque_list(cx.int(name + "_n_origin", lo=0), fresh=fresh)
    t.fields["_children"] = heap_list(cx, name + "_children", cx.int(name + "_n_children", lo=0), "DerivationTree", CHILD_FIELDS, fresh=fresh)
    t.fields["_sources"] = heap_list(cx, name + "_sources", cx.int(name + "_n_sources", lo=0), "DerivationTree", CHILD_FIELDS, fresh=fresh)
    t.fields["@invalidated"] = False
    return t


@register
class Tree_deepcopy_method(Contract):
    """assumed here: deepcopy builds a tree none of whose nodes is shared with the receiver and that carries the same
    symbol (its body is a memoised recursion over copy.deepcopy; the bounded half checks it)"""
    target = f"{REL}:DerivationTree.deepcopy"
    trusted = True

    def fresh_result(self, cx, a):
        src = a["self"]
        t = plain_tree(cx, "copy", fresh=True, symbol_obj=src.fields.get("_symbol"), read_only=src.fields.get("read_only"))
        cx.ghost.setdefault("deepcopies", []).append((src, t))
        cx.ghost.setdefault("deepcopy_args", []).append({k: a.get(k, "absent") for k in ("copy_children", "copy_params", "copy_parent")})
        return t


@register
class Tree_get_choices_path(Contract):
    """assumed: the path of a node from its root is a function of the node"""
    target = f"{REL}:DerivationTree.get_choices_path"
    trusted = True
    PathOf = z3.Function("PathOf", I, I)

    def fresh_result(self, cx, a):
        return path_value(cx, self.PathOf(a["self"].ident))


@register
class Tree_eq(Contract):
    """assumed here: == on trees is a boolean function of the two trees (structural, via hashes: verified as __hash__)"""
    target = f"{REL}:DerivationTree.__eq__"
    trusted = True
    TreeEq = z3.Function("TreeEq", I, I, z3.BoolSort())

    def fresh_result(self, cx, a):
        o = a["other"]
        if getattr(o, "ident", None) is None:
            return cx.bool("eq")
        return SBool(self.TreeEq(a["self"].ident, o.ident))


@register
class Tree_ne(Contract):
    target = f"{REL}:DerivationTree.__ne__"
    inline = True


@register
class Grammar_populate_sources(Contract):
    """assumed: touches only the tree it is given (marks generated children read-only, sets sources)"""
    target = "language/grammar/grammar.py:Grammar.populate_sources"
    trusted = True

    def fresh_result(self, cx, a):
        t = a["tree"]
        cx.ghost.setdefault("populated", []).append(t)
        return None


def _rm_children_havoc(cx, env, i):
    env["new_children"] = cx.opaque_list(i, fresh=True, label="new_children")
    env["new_children"].ghost["all_fresh"] = True
    env["regen_params"] = cx.bool("regen_params")


def _rm_sources_havoc(cx, env, i):
    env["sources"] = cx.opaque_list(i, fresh=True, label="new_sources")
    env["regen_children"] = cx.bool("regen_children")


def _len_is(name):
    def inv(cx, env, i):
        l = env[name]
        n = l.length if not l.concrete else len(l.items)
        return [(f"{name}_has_one_entry_per_visited_node", T(cmp("==", n, i)))]
    return inv


def _appends_fresh(name):
    def post(cx, env, i, events):
        # what was appended in this iteration is the (fresh) result of the recursive call
        wrote = [w for w in cx.writes if w[0] is env[name] and w[1] == "@items"]
        ok = bool(wrote) and isinstance(wrote[-1][2], SObj) and wrote[-1][2].fresh
        return [(f"{name}_receives_a_new_tree", z3.BoolVal(ok))]
    return post


@register
class Tree_replace_multiple(Contract):
    """recursive case (paths already computed), for a node whose symbol has no generator:
      * the result is a NEW node (never the receiver, never the registered replacement itself) carrying the receiver's symbol,
      * a replacement is taken only at a registered path, only if the symbols agree and the receiver is not read-only,
        and then it is a deep copy of the registered tree,
      * no field of a pre-existing object is written (the receiver, its children, the replacements stay as they are)."""
    target = f"{REL}:DerivationTree.replace_multiple"
    properties = ("C10", "C16", "C01")
    float_mode = "real"
    explore_unlisted_params = False
    loops = {
        0: Loop(0, iter_text="replacements", inv=lambda cx, env, i: [], havoc=lambda cx, env, i: None, modifies=("replacee", "replacement", "path_to_replacement")),
        1: Loop(1, iter_text="enumerate(new_subtree._children)", inv=_len_is("new_children"), havoc=lambda cx, env, i: env.__setitem__("new_children", cx.opaque_list(i, fresh=True)),
                modifies=("new_children", "i", "child"), body_post=_appends_fresh("new_children")),
        2: Loop(2, iter_text="enumerate(self._sources)", inv=_len_is("sources"), havoc=_rm_sources_havoc,
                modifies=("sources", "regen_children", "i", "param", "new_param"), body_post=_appends_fresh("sources")),
        3: Loop(3, iter_text="enumerate(self._children)", inv=_len_is("new_children"), havoc=_rm_children_havoc,
                modifies=("new_children", "regen_params", "i", "child", "new_child"), body_post=_appends_fresh("new_children")),
    }

    def inputs(self, cx):
        return self._base_inputs(cx, generator=False)

    def _base_inputs(self, cx, generator: bool):
        setup(cx)
        cx.ghost["inline_ok"] |= {f"{REL}:DerivationTree.__init__", f"{REL}:DerivationTree.sources@setter", f"{REL}:DerivationTree.read_only",
                                  f"{REL}:PathStep.__init__", f"{REL}:ChildStep.__init__", f"{REL}:SourceStep.__init__"}
        s = node(cx, "self", "child")
        s.fields["_parent"].fields["_children"] = cx.opaque_list(cx.int("siblings", lo=1))
        g = SObj("Grammar", {}, fresh=False, label="grammar")
        g.ident = cx.const("grammar_id", I)
        gens = cx.int_dict("generators")
        g.fields["generators"] = gens
        # this contract covers nodes whose symbol is not defined by a generator (the generator branch re-runs user code)
        has_gen = z3.Select(gens.keys, s.fields["_symbol"].ident)
        cx.assume(has_gen if generator else Not(has_gen))
        p2r = cx.int_dict("path_to_replacement")

        memo = {}

        def repl_at(key):
            from pyvc.builtins import Builtins
            kid = Builtins(None).ident_term(key)
            k = kid.sexpr()
            if k not in memo:       # the same entry read twice is the same object
                r = plain_tree(cx, "replacement", fresh=False)
                r.ident = ReplacementAt(kid)
                memo[k] = r
            return memo[k]

        p2r.base = repl_at
        cur = path_value(cx, cx.const("current_path", I))
        cx.ghost["p2r_keys0"] = p2r.keys
        cx.ghost["cur_path"] = cur
        return {"self": s, "grammar": g, "replacements": cx.opaque_list(cx.int("n_replacements", lo=0)),
                "path_to_replacement": p2r, "current_path": cur}

    # call-site direction (recursion): a new tree with the child's symbol
    def fresh_result(self, cx, a):
        src = a["self"]
        sym = src.fields["_symbol"] if "_symbol" in src.fields else None
        t = plain_tree(cx, "replaced", fresh=True, symbol_obj=sym)
        if getattr(src, "ident", None) is not None:
            # the result for a node is named by a function of the node (each node is visited once per call)
            cx.assume(t.ident == ReplacedOf(src.ident))
        return t

    def ensures(self, cx, a, r):
        if cx.ghost.get("call_site"):
            return []
        s = a["self"]
        if not isinstance(r, SObj):
            return [("returns_a_tree", z3.BoolVal(False))]
        copies = cx.ghost.get("deepcopies", [])
        took_replacement = any(t is r for _, t in copies)
        registered = z3.Select(cx.ghost["p2r_keys0"], cx.ghost["cur_path"].ident)
        sym_r = r.fields["_symbol"] if "_symbol" in r.fields else None
        same_symbol = z3.BoolVal(sym_r is s.fields["_symbol"]) if not took_replacement else (sym_r.ident == s.fields["_symbol"].ident)
        bad = non_fresh_writes(cx)
        out = [
            ("result_is_a_new_node", z3.BoolVal(r.fresh and r is not s)),
            ("result_carries_the_receivers_symbol", same_symbol),
            ("inputs_not_written", z3.BoolVal(not bad)),
        ]
        if took_replacement:
            out.append(("replacement_only_at_a_registered_path", registered))
            out.append(("read_only_nodes_are_never_replaced", Not(T(s.fields["read_only"]))))
        return out


# ------------------------------------------------------------------------------------------------ sources setter

def _ss_havoc(cx, env, i):
    srcs = env["self"].fields["_sources"]
    if "arrays" in srcs.ghost:
        srcs.ghost["arrays"]["_parent"] = ("ref", z3.Array(cx._name("src_parents"), I, I))


def _ss_inv(cx, env, i):
    s = env["self"]
    srcs = s.fields["_sources"]
    if "arrays" not in srcs.ghost:
        return []
    it = idx_term(i) if not isinstance(i, int) else z3.IntVal(i)
    j = z3.Int(cx._name("sj"))
    return [("sources_seen_so_far_point_to_receiver", ForAll([j], Implies(And(j >= 0, j < it), parents_array(srcs)[j] == s.ident)))]


@register
class Tree_sources_setter(Contract):
    target = f"{REL}:DerivationTree.sources@setter"
    properties = ("C10",)
    float_mode = "real"
    cases = ("list", "none")
    loops = {0: Loop(0, iter_text="self._sources", inv=_ss_inv, havoc=_ss_havoc, modifies=("param", "self._sources"))}

    def inputs(self, cx, case):
        setup(cx)
        s = node(cx, "self", "root")
        new = heap_list(cx, "new_sources", cx.int("n_new", lo=0), "DerivationTree", CHILD_FIELDS) if case == "list" else None
        cx.ghost["new_list"] = new
        cx.ghost["hash0"] = s.fields["hash_cache"]
        return {"self": s, "source": new}

    def effects(self, cx, a):
        s, new = a["self"], a["source"]
        cx.log_write(s, "_sources")
        if new is None:
            from pyvc.values import SList as _SL
            s.fields["_sources"] = _SL([])
            return
        s.fields["_sources"] = new
        if isinstance(new, SList) and "arrays" in new.ghost:
            cx.log_write(new, "elements._parent")
            new.ghost["arrays"]["_parent"] = ("ref", z3.K(I, s.ident))

    def fresh_result(self, cx, a):
        return None

    def ensures(self, cx, a, r):
        if cx.ghost.get("call_site"):
            return []
        s = a["self"]
        new = cx.ghost["new_list"]
        if new is None:
            srcs = s.fields["_sources"]
            return [("none_becomes_empty_list", z3.BoolVal(isinstance(srcs, SList) and srcs.concrete and not srcs.items))]
        n = to_term_int(new.length)
        j = z3.Int(cx._name("sj"))
        return [("sources_installed", z3.BoolVal(s.fields["_sources"] is new)),
                ("every_source_points_to_receiver", ForAll([j], Implies(And(j >= 0, j < n), parents_array(new)[j] == s.ident)))]


# ------------------------------------------------------------------------------------------------ __deepcopy__

@register
class Tree_deepcopy_dunder(Contract):
    """a copy is a NEW node with the receiver's symbol, parties and read-only flag, it carries no cached hash unless the
    children were copied along (its hash is computed from what it actually contains), it is registered in the memo,
    and nothing of the receiver (or of any other pre-existing tree) is written."""
    target = f"{REL}:DerivationTree.__deepcopy__"
    properties = ("C10",)
    float_mode = "real"
    cases = ("all", "no_children", "no_params", "no_parent", "memo_none")

    def inputs(self, cx, case):
        setup(cx)
        cx.ghost["inline_ok"] |= {f"{REL}:DerivationTree.__init__", f"{REL}:DerivationTree.sources@setter", f"{REL}:DerivationTree.read_only"}
        s = node(cx, "self", "child")
        memo = cx.int_dict("memo") if case != "memo_none" else None
        if memo is not None:
            memo.base = lambda key: plain_tree(cx, "memoised", fresh=False)
        cx.ghost["memo0"] = memo
        return {"self": s, "memo": memo, "copy_children": case != "no_children", "copy_params": case != "no_params", "copy_parent": case != "no_parent"}

    # call-site direction (recursion through copy.deepcopy)
    def fresh_result(self, cx, a):
        src = a["self"]
        t = plain_tree(cx, "copy", fresh=True, symbol_obj=src.fields.get("_symbol") if isinstance(src, SObj) else None)
        cx.ghost.setdefault("deepcopies", []).append((src, t))
        return t

    def ensures(self, cx, a, r):
        if cx.ghost.get("call_site"):
            return []
        s = a["self"]
        if not isinstance(r, SObj):
            from pyvc.values import Unsupported
            raise Unsupported("__deepcopy__ does not return a tree object the contract can read")
        if not r.fresh:
            # the memo branch: the registered copy is handed back
            return [("a_memoised_copy_is_returned_only_from_the_memo", z3.BoolVal(cx.ghost["memo0"] is not None))]
        bad = [(o, f) for o, f in non_fresh_writes(cx) if o is not a["memo"]]
        return [
            ("result_is_a_new_node", z3.BoolVal(r is not s)),
            # the hash covers symbol, parties and the children's hashes: a cached value may only be carried over together with the children
            ("copy_carries_no_stale_cached_hash", z3.BoolVal(r.fields.get("hash_cache") is None
                                                             or (a["copy_children"] is True and r.fields.get("hash_cache") is s.fields["hash_cache"]))),
            ("copy_has_the_receivers_symbol_parties_and_flag",
             z3.BoolVal(r.fields.get("_symbol") is s.fields["_symbol"] and r.fields.get("_sender") is s.fields["_sender"]
                        and r.fields.get("_recipient") is s.fields["_recipient"] and r.fields.get("read_only") is s.fields["read_only"])),
            ("receiver_and_other_trees_not_written", z3.BoolVal(not bad)),
        ]
