"""C07, selector classes of language/search.py: what a selector finds is what docs/Paths.md says it finds.

Ghost vocabulary (identities are ints, match lists are z3 sequences of tree identities, in document order):
  FindS(s, t, sc)        trees matched by search s in tree t under scope content sc, containers flattened
  FindDirectS(s, t, sc)  the same for the "direct" reading (only children of t are inspected by the innermost rule)
  AllTrees(t, sym)       every node below and including t whose symbol is sym   (DerivationTree.find_all_trees)
  DirectTrees(t, sym)    the children and sources of t whose symbol is sym       (DerivationTree.find_direct_trees)
  FMd(a, S, sc) / FMf(a, S, sc)    flat-map over the sequence S:  FM(a, [])= [],  FM(a, S ++ [x]) = FM(a, S) ++ X(a, x, sc)
                          with X = FindDirectS (FMd) or FindS (FMf)
Documented meaning, proved per class against the abstract contract "result flattened == FindS / FindDirectS":
  <sym>            FindS = [scope[sym]] if sym is bound in the scope, else AllTrees(t, sym);  direct: DirectTrees(t, sym)
  base.attr        FindS = FMd(attr, FindS(base, t)),        direct: FMd(attr, FindDirectS(base, t))
  base..attr       FindS = FMf(attr, FindS(base, t)),        direct: FMf(attr, FindDirectS(base, t))
A list of containers is modelled by the sequence it flattens to; element j of an abstract container list holds the trees
TreesAt(l, j), and FlatUpTo(l, i) = TreesAt(l, 0) ++ ... ++ TreesAt(l, i-1) (recursive definition, unfolded at the loop index).
"""
from __future__ import annotations

import z3

from pyvc.ctx import Unsupported
from pyvc.dsl import And, Contract, ForAll, Implies, Loop, Not, Or, SBool, SInt, SList, SObj, SOpaque, T, cmp, idx_term, register, to_term_int

import contracts.constraints as cc  # noqa: F401  (abstract_dict; the call-site contract of Container.get_trees)

I = z3.IntSort()
B = z3.BoolSort()
IS = z3.SeqSort(I)
EMPTY = z3.Empty(IS)
NONE_ID = z3.IntVal(-7)

FindS = z3.Function("FindS", I, I, I, IS)
FindDirectS = z3.Function("FindDirectS", I, I, I, IS)
AllTrees = z3.Function("AllTrees", I, I, IS)
DirectTrees = z3.Function("DirectTrees", I, I, IS)
FMd = z3.Function("FlatMapDirect", I, IS, I, IS)
FMf = z3.Function("FlatMapFind", I, IS, I, IS)
TreesAt = z3.Function("TreesAt", I, I, IS)
FlatUpTo = z3.Function("FlatUpTo", I, I, IS)
Upto = z3.Function("SeqUpTo", IS, I, IS)                # Upto(T, k) = the first k elements of T

SEARCH = "language/search.py"


def tree_list(cx, seq, label="trees") -> SList:
    l = SList(None, length=SInt(z3.Length(seq), 0, None), fresh=True, label=label)
    l.ghost["seq"] = seq

    def elem(j, seq=seq):
        o = SObj("DerivationTree", {}, fresh=False, label=f"{label}[{idx_term(j)}]")
        o.ident = seq[to_term_int(j)]
        return o

    l.elem = elem
    l.ghost["seq_make"] = lambda sq: tree_list(cx, sq, label + "[slice]")
    return l


def container_list(cx, flat, label="containers", fresh=True) -> SList:
    """abstract list of containers that flattens to `flat`"""
    lid = cx.const(cx._name(label + "_id"), I) if hasattr(cx, "_name") else None
    n = cx.int("n_" + label, lo=0)
    l = SList(None, length=n, fresh=fresh, label=label)
    l.ghost["flat"] = flat
    l.ghost["flat_make"] = lambda sq: tree_list(cx, sq, "flattened")
    l.ghost["ident"] = lid
    cx.assume(FlatUpTo(lid, 0) == EMPTY)
    cx.assume(FlatUpTo(lid, to_term_int(n)) == flat)

    def elem(j, lid=lid):
        o = SObj("Container", {}, fresh=False, label=f"{label}[{idx_term(j)}]")
        o.ident = z3.Int(cx._name("container"))
        o.fields["@trees"] = tree_list(cx, TreesAt(lid, idx_term(j)), f"{label}[{idx_term(j)}].trees")
        return o

    l.elem = elem
    return l


def flat_of(l):
    """sequence a list of containers flattens to, or None"""
    if not isinstance(l, SList):
        return None
    if "flat" in l.ghost:
        return l.ghost["flat"]
    if l.concrete:
        sq = EMPTY
        for c in l.items:
            if isinstance(c, SObj) and c.cls == "Tree" and isinstance(c.fields.get("tree"), SObj):
                u = z3.Unit(c.fields["tree"].ident)
            elif isinstance(c, SObj) and c.cls in ("TreeList", "Length") and isinstance(c.fields.get("trees"), SList) and "seq" in c.fields["trees"].ghost:
                u = c.fields["trees"].ghost["seq"]
            else:
                return None
            sq = u if sq.eq(EMPTY) else z3.Concat(sq, u)
        return sq
    if "concat" in l.ghost:
        fa, fb = flat_of(l.ghost["concat"][0]), flat_of(l.ghost["concat"][1])
        return None if fa is None or fb is None else z3.Concat(fa, fb)
    if "map_of" in l.ghost and l.ghost["map_of"][0] == "Tree":
        src = l.ghost["map_of"][1]
        if isinstance(src, SList) and "seq" in src.ghost:
            return src.ghost["seq"]
    return None


def search_obj(cx, cls: str, name: str) -> SObj:
    s = SObj(cls, {}, fresh=False, label=name)
    s.ident = cx.const(name + "_id", I)
    return s


def scope_id(a):
    sc = a.get("scope")
    if sc is None:
        return NONE_ID
    return sc.ghost["ident"]


def some_tree(cx, name="tree") -> SObj:
    t = SObj("DerivationTree", {}, fresh=False, label=name)
    t.ident = cx.const(name + "_id", I)
    return t


ScopeVal = z3.Function("ScopeValue", I, I, I)           # (scope content, symbol) -> identity of the tree bound to the symbol


def scope_input(cx, case):
    """None, or a dict NonTerminal -> tree of unknown content (possibly empty)"""
    if case == "no_scope":
        return None
    sid = cx.const("scope_content", I)

    def value(key, sid=sid):
        t = SObj("DerivationTree", {}, fresh=False, label="scope[...]")
        t.ident = ScopeVal(sid, cx.b.ident_term(key) if hasattr(cx, "b") else key.ident)
        return t

    d = cx.int_dict("scope", value=value)
    d.ghost["ident"] = sid
    d.ghost["nonempty"] = cx.bool("scope_nonempty").term
    k = z3.Int("sk")
    cx.assume(ForAll([k], Implies(z3.Select(d.keys, k), d.ghost["nonempty"])))     # a dict with a key is not empty
    return d


# ------------------------------------------------------------------------------------------------ abstract contracts

class _AbstractFind(Contract):
    properties = ("C07",)
    abstract = True
    float_mode = "real"
    fn = None

    def fresh_result(self, cx, a):
        s, t = a["self"], a["tree"]
        return container_list(cx, type(self).fn(s.ident, t.ident, scope_id(a)), "found")


@register
class Search_find(_AbstractFind):
    """abstract contract of NonTerminalSearch.find: the containers returned flatten to FindS(self, tree, scope)"""
    target = f"{SEARCH}:NonTerminalSearch.find"
    fn = FindS


@register
class Search_find_direct(_AbstractFind):
    """abstract contract of NonTerminalSearch.find_direct: the containers returned flatten to FindDirectS(self, tree, scope)"""
    target = f"{SEARCH}:NonTerminalSearch.find_direct"
    fn = FindDirectS


# ------------------------------------------------------------------------------------------------ base.attr / base..attr

def _outer_havoc(cx, env, i):
    flat = z3.Const(cx._name("targets_flat"), IS)
    env["targets"] = container_list(cx, flat, "targets")
    lid = env["bases"].ghost["ident"]
    it = idx_term(i)
    cx.assume(FlatUpTo(lid, it + 1) == z3.Concat(FlatUpTo(lid, it), TreesAt(lid, it)))      # definition, instance at the loop index


def _mk_outer_inv(fm):
    def inv(cx, env, i):
        flat = flat_of(env["targets"])
        if flat is None:
            raise Unsupported("`targets` is not a list of containers the contract can flatten")
        lid = env["bases"].ghost["ident"]
        it = idx_term(i) if not isinstance(i, int) else z3.IntVal(i)
        attr = env["self"].fields["attribute"]
        return [("targets_are_the_flat_map_over_the_bases_so_far", flat == fm(attr.ident, FlatUpTo(lid, it), cx.ghost["scope_id"]))]
    return inv


def _inner_havoc(fm, x):
    def havoc(cx, env, k):
        flat = z3.Const(cx._name("targets_flat"), IS)
        env["targets"] = container_list(cx, flat, "targets")
        trees = env["base"].fields["@trees"].ghost["seq"]
        kt = idx_term(k)
        attr = env["self"].fields["attribute"]
        sc = cx.ghost["scope_id"]
        done = cx.ghost["outer_done"]
        cx.assume(Upto(trees, kt + 1) == z3.Concat(Upto(trees, kt), z3.Unit(trees[kt])))       # definition of Upto, instance at k
        cx.assume(Upto(trees, 0) == EMPTY)
        cx.assume(Upto(trees, z3.Length(trees)) == trees)
        # definition of the flat-map, instance at the element processed by this iteration
        S = z3.Concat(done, Upto(trees, kt))
        cx.assume(fm(attr.ident, z3.Concat(S, z3.Unit(trees[kt])), sc) == z3.Concat(fm(attr.ident, S, sc), x(attr.ident, trees[kt], sc)))
    return havoc


def _mk_inner_inv(fm):
    def inv(cx, env, k):
        flat = flat_of(env["targets"])
        if flat is None:
            raise Unsupported("`targets` is not a list of containers the contract can flatten")
        trees = env["base"].fields["@trees"].ghost["seq"]
        kt = idx_term(k) if not isinstance(k, int) else z3.IntVal(k)
        attr = env["self"].fields["attribute"]
        done = cx.ghost["outer_done"]
        cx.assume(Upto(trees, 0) == EMPTY)                       # definition of Upto (base case, and the whole sequence)
        cx.assume(Upto(trees, z3.Length(trees)) == trees)
        return [("targets_are_the_flat_map_over_earlier_bases_and_the_first_k_trees_of_this_one",
                 flat == fm(attr.ident, z3.Concat(done, Upto(trees, kt)), cx.ghost["scope_id"]))]
    return inv


class _TwoLevel(Contract):
    properties = ("C07",)
    float_mode = "real"
    cases = ("no_scope", "scope")
    cls = ""
    base_fn = None      # FindS or FindDirectS: how the bases are found
    fm = None           # FMd or FMf
    x = None            # FindDirectS or FindS: what is found below each base tree

    def inputs(self, cx, case):
        s = search_obj(cx, self.cls, "self")
        s.fields["base"] = search_obj(cx, "NonTerminalSearch", "self.base")
        s.fields["attribute"] = search_obj(cx, "NonTerminalSearch", "self.attribute")
        a = {"self": s, "tree": some_tree(cx), "scope": scope_input(cx, case), "population": None}
        cx.ghost["scope_id"] = scope_id(a)
        cx.ghost["fm_empty"] = True
        cx.assume(type(self).fm(s.fields["attribute"].ident, EMPTY, cx.ghost["scope_id"]) == EMPTY)      # definition of the flat-map, base case
        return a

    def ensures(self, cx, a, r):
        flat = flat_of(r)
        s = a["self"]
        sc = cx.ghost["scope_id"]
        want = type(self).fm(s.fields["attribute"].ident, type(self).base_fn(s.fields["base"].ident, a["tree"].ident, sc), sc)
        if flat is None:
            raise Unsupported("the result is not a list of containers the contract can flatten")
        return [("result_flattens_to_the_documented_match_list", flat == want)]


def _two_level_loops(fm, x):
    def outer_havoc(cx, env, i):
        _outer_havoc(cx, env, i)
        cx.ghost["outer_done"] = FlatUpTo(env["bases"].ghost["ident"], idx_term(i))
    return {
        0: Loop(0, iter_text="bases", inv=_mk_outer_inv(fm), havoc=outer_havoc, modifies=("targets", "base", "t")),
        1: Loop(1, iter_text="base.get_trees()", inv=_mk_inner_inv(fm), havoc=_inner_havoc(fm, x), modifies=("targets", "t")),
    }


@register
class AttributeSearch_find(_TwoLevel):
    target = f"{SEARCH}:AttributeSearch.find"
    cls, base_fn, fm, x = "AttributeSearch", FindS, FMd, FindDirectS
    loops = _two_level_loops(FMd, FindDirectS)


@register
class AttributeSearch_find_direct(_TwoLevel):
    target = f"{SEARCH}:AttributeSearch.find_direct"
    cls, base_fn, fm, x = "AttributeSearch", FindDirectS, FMd, FindDirectS
    loops = _two_level_loops(FMd, FindDirectS)


@register
class DescendantAttributeSearch_find(_TwoLevel):
    target = f"{SEARCH}:DescendantAttributeSearch.find"
    cls, base_fn, fm, x = "DescendantAttributeSearch", FindS, FMf, FindS
    loops = _two_level_loops(FMf, FindS)


@register
class DescendantAttributeSearch_find_direct(_TwoLevel):
    target = f"{SEARCH}:DescendantAttributeSearch.find_direct"
    cls, base_fn, fm, x = "DescendantAttributeSearch", FindDirectS, FMf, FindS
    loops = _two_level_loops(FMf, FindS)


# ------------------------------------------------------------------------------------------------ <sym>

def nonterminal(cx, name="self.symbol") -> SObj:
    s = SObj("NonTerminal", {}, fresh=False, label=name)
    s.ident = cx.const("symbol_id", I)
    s.fields["@hash"] = SInt(s.ident)
    return s


@register
class Tree_find_all_trees(Contract):
    """assumed here: the list returned by DerivationTree.find_all_trees is AllTrees(tree, symbol) (recursive definition in tree.py)"""
    target = "language/tree.py:DerivationTree.find_all_trees"
    trusted = True

    def fresh_result(self, cx, a):
        return tree_list(cx, AllTrees(a["self"].ident, a["symbol"].ident), "all_trees")


@register
class Tree_find_direct_trees(Contract):
    """assumed at call sites, verified below: the children and sources whose symbol is `symbol`, in order"""
    target = "language/tree.py:DerivationTree.find_direct_trees"
    trusted = True

    def fresh_result(self, cx, a):
        return tree_list(cx, DirectTrees(a["self"].ident, a["symbol"].ident), "direct_trees")


class _Rule(Contract):
    properties = ("C07",)
    float_mode = "real"
    cases = ("no_scope", "scope")
    trees_fn = None

    def inputs(self, cx, case):
        s = search_obj(cx, "RuleSearch", "self")
        s.fields["symbol"] = nonterminal(cx)
        a = {"self": s, "tree": some_tree(cx), "scope": scope_input(cx, case), "population": None}
        cx.ghost["scope_id"] = scope_id(a)
        cx.ghost["scope0"] = a["scope"]
        cx.ghost["keys0"] = a["scope"].keys if a["scope"] is not None else None
        return a

    def ensures(self, cx, a, r):
        flat = flat_of(r)
        if flat is None:
            raise Unsupported("the result is not a list of containers the contract can flatten")
        s, t = a["self"], a["tree"]
        sym = s.fields["symbol"]
        unbound = type(self).trees_fn(t.ident, sym.ident)
        sc = cx.ghost["scope0"]
        if sc is None:
            return [("without_a_scope_every_match_in_the_tree", flat == unbound)]
        bound = z3.Select(cx.ghost["keys0"], sym.ident)
        val = ScopeVal(cx.ghost["scope_id"], sym.ident)
        return [("a_symbol_bound_in_the_scope_is_that_one_tree", Implies(bound, flat == z3.Unit(val))),
                ("an_unbound_symbol_is_every_match_in_the_tree", Implies(Not(bound), flat == unbound))]


@register
class RuleSearch_find(_Rule):
    target = f"{SEARCH}:RuleSearch.find"
    trees_fn = AllTrees


@register
class RuleSearch_find_direct(_Rule):
    target = f"{SEARCH}:RuleSearch.find_direct"
    trees_fn = DirectTrees


# ------------------------------------------------------------------------------------------------ *sel and |sel|

class _Wrap(Contract):
    """*base / |base|: ONE container holding all trees matched by the base, in order (the Length container evaluates to their number)"""
    properties = ("C07",)
    float_mode = "real"
    cases = ("no_scope", "scope")
    cls, field, container, base_fn = "", "base", "", None

    def inputs(self, cx, case):
        s = search_obj(cx, self.cls, "self")
        s.fields[self.field] = search_obj(cx, "NonTerminalSearch", "self." + self.field)
        a = {"self": s, "tree": some_tree(cx), "scope": scope_input(cx, case), "population": None}
        cx.ghost["scope_id"] = scope_id(a)
        cx.ghost["inline_ok"] = {f"{SEARCH}:StarSearch._find"}
        return a

    def ensures(self, cx, a, r):
        s = a["self"]
        want = type(self).base_fn(s.fields[self.field].ident, a["tree"].ident, cx.ghost["scope_id"])
        if not (isinstance(r, SList) and r.concrete):
            raise Unsupported("the result is not a list display the contract can read")
        one = len(r.items) == 1 and isinstance(r.items[0], SObj) and r.items[0].cls == self.container
        out = [("exactly_one_container_of_the_documented_kind", z3.BoolVal(one))]
        if one:
            flat = flat_of(r)
            if flat is None:
                raise Unsupported("the container's trees are not a sequence the contract can read")
            out.append(("it_holds_every_tree_matched_by_the_base_in_order", flat == want))
        return out


@register
class StarSearch_find(_Wrap):
    target = f"{SEARCH}:StarSearch.find"
    cls, field, container, base_fn = "StarSearch", "base", "TreeList", FindS


@register
class StarSearch_find_direct(_Wrap):
    target = f"{SEARCH}:StarSearch.find_direct"
    cls, field, container, base_fn = "StarSearch", "base", "TreeList", FindDirectS


@register
class LengthSearch_find(_Wrap):
    target = f"{SEARCH}:LengthSearch.find"
    cls, field, container, base_fn = "LengthSearch", "value", "Length", FindS


@register
class LengthSearch_find_direct(_Wrap):
    target = f"{SEARCH}:LengthSearch.find_direct"
    cls, field, container, base_fn = "LengthSearch", "value", "Length", FindDirectS


@register
class StarSearch_quantify(_Wrap):
    """quantifying over *base binds one match at a time: one Tree container per tree matched by the base, in order"""
    target = f"{SEARCH}:StarSearch.quantify"
    cls, field, container, base_fn = "StarSearch", "base", "Tree", FindS

    def ensures(self, cx, a, r):
        s = a["self"]
        want = FindS(s.fields["base"].ident, a["tree"].ident, cx.ghost["scope_id"])
        flat = flat_of(r)
        if flat is None:
            raise Unsupported("the result is not a list of containers the contract can flatten")
        return [("one_container_per_tree_matched_by_the_base_in_order", And(flat == want, to_term_int(r.length if not r.concrete else len(r.items)) == z3.Length(want)))]


@register
class Search_quantify_default(Contract):
    """the default quantify() is find(): same containers"""
    target = f"{SEARCH}:NonTerminalSearch.quantify"
    key = f"{SEARCH}:NonTerminalSearch.quantify@verified"
    properties = ("C07",)
    float_mode = "real"
    cases = ("no_scope", "scope")

    def inputs(self, cx, case):
        s = search_obj(cx, "NonTerminalSearch", "self")
        a = {"self": s, "tree": some_tree(cx), "scope": scope_input(cx, case), "population": None}
        cx.ghost["scope_id"] = scope_id(a)
        return a

    def ensures(self, cx, a, r):
        flat = flat_of(r)
        if flat is None:
            raise Unsupported("the result is not a list of containers the contract can flatten")
        return [("quantify_is_find", flat == FindS(a["self"].ident, a["tree"].ident, cx.ghost["scope_id"]))]


# ------------------------------------------------------------------------------------------------ DerivationTree.find_direct_trees

SymOf = z3.Function("SymbolOf", I, I)


def sym_tree_list(cx, seq, label) -> SList:
    """trees by identity whose symbol is the NonTerminal named SymbolOf(identity)"""
    l = tree_list(cx, seq, label)
    base_elem = l.elem

    def elem(j):
        o = base_elem(j)
        sy = SObj("NonTerminal", {}, fresh=False, label=f"{label}[{idx_term(j)}].symbol")
        sy.ident = SymOf(o.ident)
        sy.fields["@hash"] = SInt(sy.ident)
        o.fields["_symbol"] = sy
        return o

    l.elem = elem
    l.ghost["seq_make"] = lambda sq: sym_tree_list(cx, sq, label + "'")
    return l


@register
class Tree_find_direct_trees_verified(Contract):
    """DirectTrees(t, sym): the sub-sequence of children ++ sources (in that order) whose symbol equals sym"""
    target = "language/tree.py:DerivationTree.find_direct_trees"
    key = "language/tree.py:DerivationTree.find_direct_trees@verified"
    properties = ("C07",)
    float_mode = "real"

    def inputs(self, cx):
        import contracts.parser_state  # noqa: F401  (Symbol.__eq__: equality of names)
        t = some_tree(cx, "self")
        kids, srcs = z3.Const("children_seq", IS), z3.Const("sources_seq", IS)
        t.fields["_children"] = sym_tree_list(cx, kids, "children")
        t.fields["_sources"] = sym_tree_list(cx, srcs, "sources")
        cx.ghost["both"] = z3.Concat(kids, srcs)
        cx.ghost["inline_ok"] = {"language/tree.py:DerivationTree.symbol"}
        return {"self": t, "symbol": nonterminal(cx, "symbol")}

    def ensures(self, cx, a, r):
        if not (isinstance(r, SList) and "filter_of" in r.ghost):
            raise Unsupported("the result is not a filtering comprehension the contract can read")
        f = r.ghost["filter_of"]
        j = f["index"]
        from pyvc.ops import as_seq
        src = f["src"]
        sq = src.ghost.get("seq") if isinstance(src, SList) else None
        if sq is None:
            raise Unsupported("the filtered list is not a sequence of identities")
        both = cx.ghost["both"]
        n = z3.Length(both)
        elt, at = f["elt"], f["elem_at_index"]
        return [("filters_children_followed_by_sources", sq == both),
                ("keeps_exactly_the_trees_with_that_symbol", ForAll([j], Implies(And(j >= 0, j < n), f["keep"] == (SymOf(both[j]) == a["symbol"].ident)))),
                ("kept_elements_are_the_trees_themselves", z3.BoolVal(elt is at))]


# ------------------------------------------------------------------------------------------------ NonTerminalSearch.find_all

def _fa_havoc(cx, env, k):
    flat = z3.Const(cx._name("targets_flat"), IS)
    env["targets"] = container_list(cx, flat, "targets")
    trees = env["trees"].ghost["seq"]
    kt = idx_term(k)
    s, sc = env["self"], cx.ghost["scope_id"]
    cx.assume(Upto(trees, kt + 1) == z3.Concat(Upto(trees, kt), z3.Unit(trees[kt])))
    cx.assume(FMf(s.ident, z3.Concat(Upto(trees, kt), z3.Unit(trees[kt])), sc) == z3.Concat(FMf(s.ident, Upto(trees, kt), sc), FindS(s.ident, trees[kt], sc)))


def _fa_inv(cx, env, k):
    flat = flat_of(env["targets"])
    if flat is None:
        raise Unsupported("`targets` is not a list of containers the contract can flatten")
    trees = env["trees"].ghost["seq"]
    kt = idx_term(k) if not isinstance(k, int) else z3.IntVal(k)
    cx.assume(Upto(trees, 0) == EMPTY)
    cx.assume(Upto(trees, z3.Length(trees)) == trees)
    return [("targets_are_the_matches_of_the_first_k_trees", flat == FMf(env["self"].ident, Upto(trees, kt), cx.ghost["scope_id"]))]


@register
class Search_find_all(Contract):
    """find_all(trees) = the matches of find() in each tree, concatenated in the order of the trees"""
    target = f"{SEARCH}:NonTerminalSearch.find_all"
    properties = ("C07",)
    float_mode = "real"
    cases = ("no_scope", "scope")
    loops = {0: Loop(0, iter_text="trees", inv=_fa_inv, havoc=_fa_havoc, modifies=("targets", "tree"))}

    def inputs(self, cx, case):
        s = search_obj(cx, "NonTerminalSearch", "self")
        a = {"self": s, "trees": tree_list(cx, z3.Const("trees_seq", IS), "trees"), "scope": scope_input(cx, case), "population": None}
        cx.ghost["scope_id"] = scope_id(a)
        cx.assume(FMf(s.ident, EMPTY, cx.ghost["scope_id"]) == EMPTY)
        return a

    def ensures(self, cx, a, r):
        flat = flat_of(r)
        if flat is None:
            raise Unsupported("the result is not a list of containers the contract can flatten")
        return [("result_is_the_flat_map_of_find_over_the_trees", flat == FMf(a["self"].ident, a["trees"].ghost["seq"], cx.ghost["scope_id"]))]


# ------------------------------------------------------------------------------------------------ base[items]

import contracts.tree as _tree_contracts  # noqa: E402  (call-site contract of DerivationTree.__getitem__)

ItemOf = _tree_contracts.ItemOf
MapItems = z3.Function("MapItems", I, IS, IS)          # (index expression, S) -> [ItemOf(t, index expression) for t in S]


def _map_items_def(cx, sid, seq):
    """definition of MapItems, instantiated for the sequence at hand"""
    k = z3.Int(cx._name("mi"))
    cx.assume(z3.Length(MapItems(sid, seq)) == z3.Length(seq))
    cx.assume(ForAll([k], Implies(And(k >= 0, k < z3.Length(seq)), MapItems(sid, seq)[k] == ItemOf(seq[k], sid))))


class _Item(Contract):
    """base[items]: one Tree container per tree matched by the base, holding that tree's item; find uses the base's find,
    find_direct the base's find_direct"""
    properties = ("C07",)
    float_mode = "real"
    cases = ("no_scope", "scope")
    base_fn = None

    def inputs(self, cx, case):
        s = search_obj(cx, "ItemSearch", "self")
        s.fields["base"] = search_obj(cx, "NonTerminalSearch", "self.base")
        sl = cx.opaque("slices")
        s.fields["slices"] = sl
        a = {"self": s, "tree": some_tree(cx), "scope": scope_input(cx, case), "population": None}
        cx.ghost["scope_id"] = scope_id(a)
        cx.ghost["inline_ok"] = {f"{SEARCH}:ItemSearch._find"}
        return a

    def ensures(self, cx, a, r):
        flat = flat_of(r)
        if flat is None:
            raise Unsupported("the result is not a list of containers the contract can flatten")
        s = a["self"]
        base = type(self).base_fn(s.fields["base"].ident, a["tree"].ident, cx.ghost["scope_id"])
        sid = s.fields["slices"].ident
        k = z3.Int(cx._name("ik"))
        # stated pointwise (sequence extensionality is not something the solvers do unprompted)
        return [("one_container_per_tree_matched_by_the_base", z3.Length(flat) == z3.Length(base)),
                ("container_k_holds_the_item_of_the_k_th_match", ForAll([k], Implies(And(k >= 0, k < z3.Length(base)), flat[k] == ItemOf(base[k], sid))))]


@register
class ItemSearch_find(_Item):
    target = f"{SEARCH}:ItemSearch.find"
    base_fn = FindS


@register
class ItemSearch_find_direct(_Item):
    target = f"{SEARCH}:ItemSearch.find_direct"
    base_fn = FindDirectS


# ------------------------------------------------------------------------------------------------ DerivationTree.find_by_origin (C01)

OriginS = z3.Function("OriginS", I, IS)                 # (tree) -> the nodes below it (children and sources, terminals included) tagged with the repetition id, then itself


@register
class Tree_find_by_origin(Contract):
    """C01 (computed repetition counts are enforced on what find_by_origin reports): the first statement collects the result of
    the recursive call for EVERY child and EVERY source, in that order -- no child is skipped, whatever its symbol is.
    Prefix contract: the loop over the node's own tags that follows is outside the engine's reach (tuple targets + break)."""
    target = "language/tree.py:DerivationTree.find_by_origin"
    properties = ("C01",)
    float_mode = "real"
    prefix_only = True

    def inputs(self, cx):
        t = some_tree(cx, "self")
        kids, srcs = z3.Const("children_seq", IS), z3.Const("sources_seq", IS)
        t.fields["_children"] = self._any_symbol_list(cx, kids, "children")
        t.fields["_sources"] = self._any_symbol_list(cx, srcs, "sources")
        t.fields["origin_repetitions"] = cx.opaque_list(cx.int("n_origin", lo=0))
        cx.ghost["both"] = z3.Concat(kids, srcs)
        cx.ghost["inline_ok"] = {"language/tree.py:DerivationTree.symbol", "language/symbols/symbol.py:Symbol.is_non_terminal",
                                 "language/symbols/symbol.py:Symbol.is_terminal"}
        return {"self": t, "node_id": cx.str("node_id")}

    @staticmethod
    def _any_symbol_list(cx, seq, label):
        """trees by identity whose symbol is a terminal or a nonterminal (its kind is unknown)"""
        l = tree_list(cx, seq, label)
        base_elem = l.elem

        def elem(j):
            o = base_elem(j)
            sy = SObj("Symbol", {}, fresh=False, label=f"{label}[{idx_term(j)}].symbol")
            sy.ident = SymOf(o.ident)
            sy.fields["_type"] = cx.opaque("SymbolType", base="kind_of_symbol")
            o.fields["_symbol"] = sy
            return o

        l.elem = elem
        l.ghost["seq_make"] = lambda sq: Tree_find_by_origin._any_symbol_list(cx, sq, label + "'")
        return l

    # call-site direction (the recursion)
    def fresh_result(self, cx, a):
        l = tree_list(cx, OriginS(a["self"].ident), "found_below")
        cx.ghost.setdefault("origin_calls", []).append((a["self"], a["node_id"], l))
        return l

    def finish(self, cx, a, out):
        # (whether the exploration reached the end of the function or was cut at the loop: the obligations are about the first statement)
        calls = cx.ghost.get("origin_calls", [])
        if len(calls) != 1:
            raise Unsupported("the recursive calls of find_by_origin cannot be read as one call per element")
        elem, nid, _ = calls[0]
        ident = elem.ident
        both = cx.ghost["both"]
        over_all = z3.is_app(ident) and ident.num_args() == 2 and z3.eq(ident.arg(0), both)
        maps = cx.ghost.get("flat_maps", [])
        if len(maps) != 1:
            if out.kind == "cut":
                raise Unsupported("the first statement is outside the engine's reach: " + "; ".join(cx.assumed[-1:]))
            # (a filter in the comprehension, or another way of collecting the results: not readable -- undecided, not a violation)
            raise Unsupported("the results of the recursive calls are not collected by one unfiltered sum(..., []) over the searched nodes")
        src_seq = maps[0].ghost.get("seq") if isinstance(maps[0], SList) else None
        kept = [Implies(And(rng, *assumed), ct) for rng, assumed, ct in cx.ghost.get("flat_map_filters", [])]
        return [("every_child_and_source_is_searched_in_order", z3.BoolVal(bool(over_all)) if src_seq is None else And(z3.BoolVal(bool(over_all)), src_seq == both)),
                ("no_searched_node_is_skipped_whatever_its_symbol", And(*kept) if kept else z3.BoolVal(True)),
                ("searched_for_the_requested_id", z3.BoolVal(nid is a["node_id"]))]
