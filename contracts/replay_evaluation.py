"""Replay builders for the evaluation contracts: turn a solver model into a run of the REAL code."""
from __future__ import annotations

TEMPLATE = r'''#!/usr/bin/env python3
"""Replay of obligation
    {obligation}
counterexample from the verifier: h={h} hard constraints, r={r} repetition-bound constraints, all satisfied.
Runs the real Evaluator.evaluate_individual of the working tree.  Exit 1 = violation reproduced."""
import os, sys
sys.path.insert(0, os.path.join(os.environ.get("VERIF_REPO", "/repo"), "src"))
from fandango.language.parse.parse import parse
from fandango.constraints.repetition_bounds import RepetitionBoundsConstraint
from fandango.constraints.expression import ExpressionConstraint
from fandango.evolution.evaluation import Evaluator
from fandango.language.tree import DerivationTree
from fandango.language.symbols.non_terminal import NonTerminal

h, r = {h}, {r}
grammar, cs = parse('<start> ::= <n> <a>{{int(<n>)}}\n<n> ::= "1"\n<a> ::= "a"\n', use_stdlib=False, use_cache=False)
rep = [c for c in cs if isinstance(c, RepetitionBoundsConstraint)][0]
hard = ExpressionConstraint("True")
constraints = [hard] * h + [rep] * r
tree = DerivationTree(NonTerminal("<start>"))          # no tagged repetition: every bound is satisfied
all_sat = all(c.fitness(tree).success for c in constraints)
ev = Evaluator(grammar, constraints, 1.0, 0, 0.0)
gen = ev.evaluate_individual(tree)
yielded = []
try:
    while True:
        yielded.append(next(gen))
except StopIteration as stop:
    fitness = stop.value[0]
print(f"h={{h}} r={{r}} all constraints satisfied: {{all_sat}}; fitness={{fitness!r}}; yielded as solution: {{bool(yielded)}}")
if all_sat and not yielded:
    print("VIOLATION reproduced: a tree satisfying every constraint is not accepted (expected fitness 1.0)")
    sys.exit(1)
if yielded and not all_sat:
    print("VIOLATION reproduced: a tree is accepted although a constraint fails")
    sys.exit(1)
print("not reproduced")
sys.exit(0)
'''


def script(obligation: str, model: dict):
    try:
        h = int(model.get("h", "0"))
        r = int(model.get("r", "0"))
    except ValueError:
        return None
    if "C03" not in obligation:
        return None
    return TEMPLATE.format(obligation=obligation, h=h, r=r)
