"""Contracts for constraints/*.py: every `fitness` override refines the abstract Constraint.fitness contract
(contracts/evaluation.py) and implements the verdict semantics of property C07.

Representation invariant of every result  Inv(r):  0 <= solved <= total, total >= 1, success <=> solved == total.
Verdict semantics (ghost):  Sat(c, tree, scope, locals)  is what `success` must equal; per class it is defined from the
children's Sat (composites) or from the per-combination evaluation outcomes (leaves).
Memo invariant (C11): every entry of self.cache satisfies Inv and carries the verdict SatKey(self, key); that
SatKey(self, get_hash(tree, scope, locals)) == Sat(self, tree, scope, locals) is the explicit no-collision / key
completeness assumption `hash_key_faithful` (never provable with an uninterpreted hash).
"""
from __future__ import annotations

import z3

from pyvc import lemmas
from pyvc.dsl import (And, Contract, Exists, ForAll, Implies, Loop, Not, Or, SBool, SDict, SFloat, SInt, SList, SObj,
                      SOpaque, T, cmp, idx_term, kconst, record_list, register, to_term_int)
from contracts.evaluation import NONE_ID, Raises4, Sat4, fitness_inv, new_constraint_fitness, tree

I = z3.IntSort()
B = z3.BoolSort()
SatKey = z3.Function("SatKey", I, I, B)              # constraint, memo key
KeyOf = z3.Function("KeyOf", I, I, I, I)             # root/tree, scope content, locals content -> memo key
ChildId = z3.Function("ChildId", I, I, I)            # composite constraint, position -> child constraint


def dict_id(d):
    if d is None:
        return NONE_ID
    if isinstance(d, SDict):
        return d.ghost["ident"]
    raise TypeError(d)


def abstract_dict(cx, name: str, fresh: bool = False) -> SDict:
    d = cx.int_dict(name, fresh=fresh)
    d.ghost["ident"] = cx.const(name + "_content", I)
    d.ghost["nonempty"] = cx.bool(name + "_nonempty").term
    from pyvc.builtins import EMPTY_DICT_ID
    cx.assume(Implies(Not(d.ghost["nonempty"]), d.ghost["ident"] == EMPTY_DICT_ID))   # all empty dicts have the same content
    return d


def maybe_dict(cx, name: str, case: str):
    """None / a dict whose emptiness is symbolic (the case split of the optional scope and locals arguments)"""
    if case == "none":
        return None
    return abstract_dict(cx, name)


def cached_fitness_factory(cx, self_obj):
    """value model of pre-existing memo entries: they satisfy the memo invariant"""

    def base(key):
        o = new_constraint_fitness(cx, "cached")
        for _, f in fitness_inv(o.fields["solved"], o.fields["total"], o.fields["success"]):
            cx.assume(f)
        cx.assume(T(o.fields["success"]) == SatKey(self_obj.ident, to_term_int(key)))
        o.fresh = False
        return o

    return base


def constraint_self(cx, cls: str, **fields) -> SObj:
    s = SObj(cls, {}, fresh=False, label="self")
    s.ident = cx.const("self_id", I)
    s.fields["cache"] = cx.int_dict("cache", cached_fitness_factory(cx, s))
    s.fields["searches"] = abstract_dict(cx, "searches")
    s.fields["local_variables"] = abstract_dict(cx, "self_locals")
    s.fields["global_variables"] = abstract_dict(cx, "self_globals")
    s.fields.update(fields)
    return s


def child_list(cx, owner: SObj, base: str, n: SInt) -> SList:
    l = SList(None, length=n, fresh=False, label=base)

    def elem(j, owner=owner):
        o = SObj("Constraint", {}, fresh=False, label=f"{base}[{idx_term(j)}]")
        o.ident = ChildId(owner.ident, idx_term(j))
        return o

    l.elem = elem
    return l


# ------------------------------------------------------------------------------------------------ shared contracts

@register
class GeneticBase_get_hash(Contract):
    """memo key: a function of the tree (and its root), of the scope content and of the locals content -- key
    completeness (C11 ii).  Verified against the body: the result must be the hash of a tuple that contains all four
    components."""
    target = "constraints/base.py:GeneticBase.get_hash"
    properties = ("C11",)
    float_mode = "real"
    cases = tuple((s, l) for s in ("none", "dict") for l in ("none", "dict"))

    def inputs(self, cx, case):
        return generic_args(cx, case)

    def fresh_result(self, cx, a):
        return SInt(KeyOf(a["tree"].ident, dict_id(a["scope"]), dict_id(a["local_variables"])))

    def ensures(self, cx, a, r):
        from pyvc.builtins import _hash_fns
        from contracts.evaluation import Tree_get_root
        if cx.tag != self.target:
            return []      # at call sites the result is the term KeyOf(...) itself
        hp, H = _hash_fns()
        tup = z3.Function("tuple_of", I, I)
        t = a["tree"].ident
        want = H(hp(Tree_get_root.RootOf(t), hp(t, hp(tup(dict_id(a["scope"])), hp(tup(dict_id(a["local_variables"])), z3.IntVal(-1))))))
        return [("key_covers_root_tree_scope_locals", to_term_int(r) == want)]


def generic_args(cx, case):
    sc_case, lv_case = case
    return {"tree": tree(cx, "tree"), "scope": maybe_dict(cx, "scope", sc_case),
            "local_variables": maybe_dict(cx, "locals", lv_case)}


ARG_CASES = tuple((s, l) for s in ("none", "dict") for l in ("none", "dict"))


def pre_ids(a):
    """content identities of scope / locals AT ENTRY (the dict objects may be mutated by the body)"""
    if "@scope_id" not in a:
        a["@scope_id"] = dict_id(a["scope"])
        a["@locals_id"] = dict_id(a["local_variables"])
    return a["@scope_id"], a["@locals_id"]


def key_of(a):
    s0, l0 = pre_ids(a)
    return KeyOf(a["tree"].ident, s0, l0)


def sat_of(a, c=None, scope=None, lv=None):
    c = a["self"].ident if c is None else c
    s0, l0 = pre_ids(a)
    return Sat4(c, a["tree"].ident, s0 if scope is None else scope, l0 if lv is None else lv)


class FitnessOverride(Contract):
    """common part of every override: refinement of the abstract contract + memo invariant + frame"""
    float_mode = "real"
    cases = ARG_CASES
    properties = ("C02", "C07", "C11")
    cls = ""

    def make_self(self, cx):
        raise NotImplementedError

    def inputs(self, cx, case):
        a = generic_args(cx, case)
        a["self"] = self.make_self(cx)
        pre_ids(a)
        cx.ghost["pre"] = {
            "scope_id": dict_id(a["scope"]), "locals_id": dict_id(a["local_variables"]),
            "scope_obj": a["scope"], "locals_obj": a["local_variables"],
            "cache_keys": a["self"].fields["cache"].keys,
        }
        # explicit assumption (C11 iv): the memo key is faithful to what the verdict depends on
        cx.assume(SatKey(a["self"].ident, key_of(a)) == sat_of(a))
        # definition of the ghost verdict of THIS constraint class (property C07's semantics)
        cx.assume(sat_of(a) == self.sem(cx, a))
        return a

    def sem(self, cx, a):
        """z3 Bool: the verdict the documentation prescribes, or None when `defines_sat` binds Sat itself"""
        raise NotImplementedError

    def ensures(self, cx, a, r):
        if not isinstance(r, SObj):
            return [("returns_a_fitness_object", z3.BoolVal(False))]
        out = fitness_inv(r.fields["solved"], r.fields["total"], r.fields["success"])
        out.append(("verdict_follows_semantics", T(r.fields["success"]) == sat_of(a)))
        return out

    def finish(self, cx, a, outcome):
        pre = cx.ghost["pre"]
        obl = []
        # frame (C07/C11): the caller's scope / locals dicts are not written
        for nm in ("scope_obj", "locals_obj"):
            d = pre[nm]
            if d is not None:
                wrote = any(o is d for (o, f, v) in outcome.writes)
                obl.append((f"frame_caller_{nm[:-4]}_not_written", z3.BoolVal(not wrote)))
        # memo invariant maintained: whatever was stored under the key carries the verdict
        cache = a["self"].fields["cache"]
        for k, v in cache.store:
            if isinstance(v, SObj) and "success" in v.fields:
                obl.append(("memo_entry_carries_verdict", T(v.fields["success"]) == SatKey(a["self"].ident, to_term_int(k))))
                for nme, f in fitness_inv(v.fields["solved"], v.fields["total"], v.fields["success"]):
                    obl.append((f"memo_entry_inv_{nme}", f))
        return obl


def _two_sums(cx):
    sums = cx.ghost.get("sums", [])
    return sums[-2], sums[-1]


def apply_sum_lemmas(cx):
    """lemma instances for the two sums `solved`, `total` over the children's results (if the path has them)"""
    sums = cx.ghost.get("sums", [])
    if len(sums) >= 2:
        A, Bt = sums[-2], sums[-1]
        lemmas.sum_pair(cx, A, Bt)
        lemmas.sum_ge_count(cx, Bt)
        lemmas.sum_nonneg(cx, A)


# ------------------------------------------------------------------------------------------------ conjunction / disjunction

class _LazyLoop:
    """for constraint in self.constraints: fitness = constraint.fitness(...); fitness_values.append(fitness); break on ..."""

    @staticmethod
    def make(stop_on_success: bool):
        def havoc(cx, env, i):
            env["fitness_values"] = record_list(
                cx, "fv", i, "ConstraintFitness", {"solved": "int", "total": "int", "success": "bool"},
                other={"failing_trees": lambda cx_, j: cx_.opaque_list(cx_.int("nft", lo=0), fresh=True),
                       "suggestion": lambda cx_, j: cx_.opaque("Suggestion")})

        def inv(cx, env, i):
            fv = env["fitness_values"]
            it = idx_term(i) if not isinstance(i, int) else z3.IntVal(i)
            a = cx.ghost["pre_args"]
            out = [("length_is_index", T(cmp("==", fv.length if not fv.concrete else len(fv.items), i)))]
            if fv.concrete:
                return out
            j = z3.Int(cx._name("ij"))
            rf = fv.ghost["rec_fields"]
            so, to, su = rf["solved"][1], rf["total"][1], rf["success"][1]
            child = lambda k: ChildId(a["self"].ident, k)  # noqa: E731
            body = And(so(j) >= 0, so(j) <= to(j), to(j) >= 1, su(j) == (so(j) == to(j)),
                       su(j) == sat_of(a, c=child(j)),
                       (Not(su(j)) if not stop_on_success else su(j)) == z3.BoolVal(False))
            out.append(("prefix_results", ForAll([j], Implies(And(j >= 0, j < it), body))))
            return out

        return havoc, inv


_conj_havoc, _conj_inv = _LazyLoop.make(stop_on_success=False)
_disj_havoc, _disj_inv = _LazyLoop.make(stop_on_success=True)


class _Junction(FitnessOverride):
    lazy_cases = (True, False)

    def make_self(self, cx):
        s = constraint_self(cx, self.cls)
        n = cx.int("n_children", lo=1)
        s.fields["constraints"] = child_list(cx, s, "children", n)
        s.fields["lazy"] = cx.bool("lazy", named=True)
        return s

    def all_children(self, cx, a, conj: bool):
        n = to_term_int(a["self"].fields["constraints"].length)
        j = z3.Int(cx._name("cj"))
        body = sat_of(a, c=ChildId(a["self"].ident, j))
        rng = And(j >= 0, j < n)
        return ForAll([j], Implies(rng, body)) if conj else Exists([j], And(rng, body))

    def ensures(self, cx, a, r):
        apply_sum_lemmas(cx)
        return super().ensures(cx, a, r)


@register
class Conjunction_fitness(_Junction):
    target = "constraints/conjunction.py:ConjunctionConstraint.fitness"
    cls = "ConjunctionConstraint"
    loops = {0: Loop(0, iter_text="self.constraints", inv=_conj_inv, havoc=_conj_havoc,
                     modifies=("fitness_values", "fitness", "constraint"))}

    def sem(self, cx, a):
        return self.all_children(cx, a, True)


@register
class Disjunction_fitness(_Junction):
    target = "constraints/disjunct.py:DisjunctionConstraint.fitness"
    cls = "DisjunctionConstraint"
    loops = {0: Loop(0, iter_text="self.constraints", inv=_disj_inv, havoc=_disj_havoc,
                     modifies=("fitness_values", "fitness", "constraint"))}

    def sem(self, cx, a):
        return self.all_children(cx, a, False)


# ------------------------------------------------------------------------------------------------ implication

@register
class Implication_fitness(FitnessOverride):
    target = "constraints/implication.py:ImplicationConstraint.fitness"
    cls = "ImplicationConstraint"

    def make_self(self, cx):
        s = constraint_self(cx, self.cls)
        for k, nm in enumerate(("antecedent", "consequent")):
            o = SObj("Constraint", {}, fresh=False, label=nm)
            o.ident = ChildId(s.ident, z3.IntVal(k))
            s.fields[nm] = o
        return s

    def sem(self, cx, a):
        me = a["self"].ident
        return Or(Not(sat_of(a, c=ChildId(me, z3.IntVal(0)))), sat_of(a, c=ChildId(me, z3.IntVal(1))))


# ------------------------------------------------------------------------------------------------ forall / exists

from pyvc.builtins import EMPTY_DICT_ID, dput, dput_overwrite_law  # noqa: E402

QElem = z3.Function("QElem", I, I, I, I, I)      # search, tree, scope content, index -> container
EvalOf = z3.Function("EvalOf", I, I)             # container -> value it evaluates to


@register
class Search_quantify(Contract):
    """assumed here (selector semantics are the subject of contracts/search.py): quantify returns a list of
    containers determined by (search, tree, scope content)"""
    target = "language/search.py:NonTerminalSearch.quantify"
    trusted = True

    def fresh_result(self, cx, a):
        n = cx.int("n_matches", lo=0)
        sid, tid, scid = a["self"].ident, a["tree"].ident, dict_id(a.get("scope"))
        l = SList(None, length=n, fresh=True, label="matches")
        l.ghost["q"] = (sid, tid, scid)

        def elem(j):
            o = SObj("Container", {}, fresh=False, label=f"match[{idx_term(j)}]")
            o.ident = QElem(sid, tid, scid, idx_term(j))
            return o

        l.elem = elem
        cx.ghost["quantify_result"] = l
        return l


@register
class Container_evaluate(Contract):
    """assumed: Container.evaluate is a pure accessor"""
    target = "language/search.py:Container.evaluate"
    trusted = True

    def fresh_result(self, cx, a):
        o = SObj("DerivationTree", {}, fresh=False, label="bound-value")
        o.ident = EvalOf(a["self"].ident)
        return o


def _quantifier_parts(cx, a):
    """(scope content at entry, locals content at entry, bound key term, is_str_bound)"""
    s0, l0 = pre_ids(a)
    bound = a["self"].fields["bound"]
    if isinstance(bound, str):
        from pyvc.builtins import Builtins
        kt = z3.IntVal(__import__("zlib").crc32(bound.encode()) + 1000)
        return s0, l0, kt, True
    return s0, l0, bound.ident, False


def _stmt_sat_at(cx, a, j):
    """Sat of the statement with the bound variable set to the j-th match (fresh binding over the caller's dicts)"""
    s0, l0, kt, is_str = _quantifier_parts(cx, a)
    me = a["self"]
    sid = me.fields["search"].ident
    val = EvalOf(QElem(sid, a["tree"].ident, s0, j))
    stmt = ChildId(me.ident, z3.IntVal(0))
    if is_str:
        return Sat4(stmt, a["tree"].ident, s0, dput(l0, kt, val))
    return Sat4(stmt, a["tree"].ident, dput(s0, kt, val), l0)


class _QuantLoop:
    @staticmethod
    def make(kind: str):
        def havoc(cx, env, i):
            a = cx.ghost["pre_args"]
            env["fitness_values"] = record_list(
                cx, "fv", i, "ConstraintFitness", {"solved": "int", "total": "int", "success": "bool"},
                other={"failing_trees": lambda cx_, j: cx_.opaque_list(cx_.int("nft", lo=0), fresh=True),
                       "suggestion": lambda cx_, j: cx_.opaque("Suggestion")})
            # the dict that receives the binding is rewritten by every iteration: its content is described by the invariant
            s0, l0, kt, is_str = _quantifier_parts(cx, a)
            d = env["local_variables"] if is_str else env["scope"]
            d.ghost["ident"] = cx.const("binding_dict_content", I)
            d.ghost["nonempty"] = cx.bool("binding_dict_nonempty").term
            d.store = []
            d.keys = z3.Array(cx._name("binding_keys"), I, B)

        def inv(cx, env, i):
            a = cx.ghost["pre_args"]
            fv = env["fitness_values"]
            it = idx_term(i) if not isinstance(i, int) else z3.IntVal(i)
            s0, l0, kt, is_str = _quantifier_parts(cx, a)
            me = a["self"]
            sid = me.fields["search"].ident
            d = env["local_variables"] if is_str else env["scope"]
            base = l0 if is_str else s0
            last = EvalOf(QElem(sid, a["tree"].ident, s0, it - 1))
            out = [
                ("length_is_index", T(cmp("==", fv.length if not fv.concrete else len(fv.items), i))),
                ("binding_dict_content", d.ghost["ident"] == z3.If(it == 0, base, dput(base, kt, last))),
            ]
            other = env["scope"] if is_str else env["local_variables"]
            out.append(("other_dict_untouched", other.ghost["ident"] == (s0 if is_str else l0)))
            if fv.concrete:
                return out
            j = z3.Int(cx._name("ij"))
            rf = fv.ghost["rec_fields"]
            so, to, su = rf["solved"][1], rf["total"][1], rf["success"][1]
            lazy = T(me.fields["lazy"])
            stop = Not(su(j)) if kind == "forall" else su(j)
            body = And(so(j) >= 0, so(j) <= to(j), to(j) >= 1, su(j) == (so(j) == to(j)),
                       su(j) == _stmt_sat_at(cx, a, j), Implies(lazy, Not(stop)))
            out.append(("prefix_results", ForAll([j], Implies(And(j >= 0, j < it), body))))
            return out

        return havoc, inv


class _Quantifier(FitnessOverride):
    kind = "forall"
    cases = tuple((s, l, b) for s in ("none", "dict") for l in ("none", "dict") for b in ("nt", "str"))

    def inputs(self, cx, case):
        self._bound_case = case[2]
        cx.assume(dput_overwrite_law())
        return super().inputs(cx, case[:2])

    def make_self(self, cx):
        s = constraint_self(cx, self.cls)
        st = SObj("Constraint", {}, fresh=False, label="statement")
        st.ident = ChildId(s.ident, z3.IntVal(0))
        s.fields["statement"] = st
        if self._bound_case == "str":
            s.fields["bound"] = "x"
        else:
            b = SObj("NonTerminal", {}, fresh=False, label="bound")
            b.ident = cx.const("bound_id", I)
            s.fields["bound"] = b
        se = SObj("NonTerminalSearch", {}, fresh=False, label="search")
        se.ident = cx.const("search_id", I)
        s.fields["search"] = se
        s.fields["lazy"] = cx.bool("lazy", named=True)
        return s

    def sem(self, cx, a):
        s0, _ = pre_ids(a)
        m = z3.Function("NMatches", I, I, I, I)(a["self"].fields["search"].ident, a["tree"].ident, s0)
        j = z3.Int(cx._name("qj"))
        rng = And(j >= 0, j < m)
        body = _stmt_sat_at(cx, a, j)
        return ForAll([j], Implies(rng, body)) if self.kind == "forall" else Exists([j], And(rng, body))

    def ensures(self, cx, a, r):
        q = cx.ghost.get("quantify_result")
        if q is not None:
            # the number of matches is the function of (search, tree, scope) the semantics quantifies over
            m = z3.Function("NMatches", I, I, I, I)(*q.ghost["q"])
            cx.assume(to_term_int(q.length) == m)
        apply_sum_lemmas(cx)
        return super().ensures(cx, a, r)

    def replay(self, obligation, model):
        from contracts import replay_constraints
        return replay_constraints.frame_script(obligation, model, self.cls)

    def finish(self, cx, a, outcome):
        q = cx.ghost.get("quantify_result")
        if q is not None:
            m = z3.Function("NMatches", I, I, I, I)(*q.ghost["q"])
            cx.assume(to_term_int(q.length) == m)
        return super().finish(cx, a, outcome)


_fa_havoc, _fa_inv = _QuantLoop.make("forall")
_ex_havoc, _ex_inv = _QuantLoop.make("exists")


@register
class Forall_fitness(_Quantifier):
    target = "constraints/forall.py:ForallConstraint.fitness"
    cls = "ForallConstraint"
    kind = "forall"
    loops = {0: Loop(0, iter_text="self.search.quantify(tree, scope=scope)", inv=_fa_inv, havoc=_fa_havoc,
                     modifies=("fitness_values", "fitness", "container", "scope", "local_variables"))}


@register
class Exists_fitness(_Quantifier):
    target = "constraints/exists.py:ExistsConstraint.fitness"
    cls = "ExistsConstraint"
    kind = "exists"
    loops = {0: Loop(0, iter_text="self.search.quantify(tree, scope=scope)", inv=_ex_inv, havoc=_ex_havoc,
                     modifies=("fitness_values", "fitness", "container", "scope", "local_variables"))}


# ------------------------------------------------------------------------------------------------ leaves: expression / comparison

CombId = z3.Function("CombId", I, I, I, I, I)        # constraint, tree, scope content, index -> combination
NCombos = z3.Function("NCombos", I, I, I, I)         # constraint, tree, scope content -> number of combinations
EvalRaises = z3.Function("EvalRaises", I, I, I, B)   # constraint, expression, combination
EvalTruthy = z3.Function("EvalTruthy", I, I, I, B)
EvalIsNone = z3.Function("EvalIsNone", I, I, I, B)             # the evaluation returned None
CmpRaises = z3.Function("CmpRaises", I, I, B)        # constraint, combination: the comparison operator itself raises
CmpTrue = z3.Function("CmpTrue", I, I, B)
AllOkE = z3.Function("AllOkE", I, I, I, I, B)        # constraint, tree, scope content, i: first i combinations are ok


def _pair_list(cx, label, annotated: bool):
    """a combination: abstract tuple of (name, container) pairs"""
    m = cx.int("n_names", lo=0)
    l = SList(None, length=m, fresh=False, label=label, kind="tuple")

    def elem(j):
        c = SObj("Container", {}, fresh=False, label="container")   # abstract: calls go through Container's contracts
        c.ident = cx.const("container", I)
        if annotated:
            c.fields["annotation"] = cx.str("annotation")
        return (cx.opaque("str", base="name"), c)

    l.elem = elem
    return l


@register
class GeneticBase_combinations(Contract):
    """assumed here: the list of combinations is a function of (self, tree, scope); its definition as the cartesian
    product of the searches' matches is the subject of contracts/search.py"""
    target = "constraints/base.py:GeneticBase.combinations"
    trusted = True

    def fresh_result(self, cx, a):
        me, t, sc = a["self"].ident, a["tree"].ident, dict_id(a.get("scope"))
        n = cx.int("n_combos", lo=0)
        cx.assume(to_term_int(n) == NCombos(me, t, sc))
        l = SList(None, length=n, fresh=True, label="combinations")
        annotated = a["self"].cls == "ComparisonConstraint"

        def elem(j):
            comb = _pair_list(cx, f"combination[{idx_term(j)}]", annotated)
            comb.ghost["ident"] = CombId(me, t, sc, idx_term(j))
            cx.ghost["cur_combo"] = comb.ghost["ident"]
            return comb

        l.elem = elem
        return l


@register
class Constraint_eval(Contract):
    """assumed: evaluating user Python is a function of (constraint, expression text, combination): it either raises
    some Exception or returns a value with a truth value"""
    target = "constraints/constraint.py:Constraint.eval"
    trusted = True

    def _ids(self, cx, a):
        e = a["expression"]
        eid = e.ident if isinstance(e, SOpaque) else z3.IntVal(__import__("zlib").crc32(e.encode()) + 1000)
        return cx.ghost["self_id"], eid, cx.ghost["cur_combo"]

    def may_raise(self, cx, a):
        return [("Exception", EvalRaises(*self._ids(cx, a)))]

    def fresh_result(self, cx, a):
        # any Python value, None included (re.match(), dict.get(), a predicate without `return`): None is falsy
        ids = self._ids(cx, a)
        is_none = EvalIsNone(*ids)
        o = cx.opaque("value", maybe_none=is_none)
        o.truthy = EvalTruthy(*ids)
        cx.assume(Implies(is_none, Not(EvalTruthy(*ids))))
        return o


@register
class Container_get_trees(Contract):
    """assumed: pure accessor"""
    target = "language/search.py:Container.get_trees"
    trusted = True

    def fresh_result(self, cx, a):
        me = a["self"]
        if isinstance(me, SObj) and "@trees" in me.fields:      # containers of contracts/search.py carry their trees as ghost
            return me.fields["@trees"]
        return cx.opaque_list(cx.int("n_trees", lo=0), fresh=True)


def _opaque_trees(cx):
    l = cx.opaque_list(cx.int("n_ft", lo=0), fresh=True)
    l.ghost["contains"] = lambda x: cx.bool("in_failing")
    return l


def _leaf_self(cx, cls, **extra):
    s = constraint_self(cx, cls, **extra)
    cx.ghost["self_id"] = s.ident
    return s


def _allok_unfold(cx, a, i, ok):
    me, t = a["self"].ident, a["tree"].ident
    s0, _ = pre_ids(a)
    cx.assume(AllOkE(me, t, s0, i + 1) == And(AllOkE(me, t, s0, i), ok))


class _ExprLoop:
    @staticmethod
    def ok(cx, a, i):
        me, t = a["self"].ident, a["tree"].ident
        s0, _ = pre_ids(a)
        e = a["self"].fields["expression"].ident
        c = CombId(me, t, s0, i)
        return And(Not(EvalRaises(me, e, c)), EvalTruthy(me, e, c))

    @staticmethod
    def havoc(cx, env, i):
        a = cx.ghost["pre_args"]
        env["solved"] = cx.int("solved")
        env["total"] = cx.int("total")
        env["has_combinations"] = cx.bool("has_combinations")
        env["failing_trees"] = _opaque_trees(cx)
        _allok_unfold(cx, a, idx_term(i), _ExprLoop.ok(cx, a, idx_term(i)))

    @staticmethod
    def inv(cx, env, i):
        a = cx.ghost["pre_args"]
        me, t = a["self"].ident, a["tree"].ident
        s0, _ = pre_ids(a)
        it = idx_term(i) if not isinstance(i, int) else z3.IntVal(i)
        solved, total = to_term_int(env["solved"]), to_term_int(env["total"])
        return [
            ("total_counts_combinations", total == it),
            ("solved_in_range", And(solved >= 0, solved <= it)),
            ("all_solved_iff_all_ok", (solved == it) == AllOkE(me, t, s0, it)),
            ("has_combinations_flag", T(env["has_combinations"]) == (it > 0)),
        ]


def _trivial_inv(cx, env, i):
    return []


def _havoc_failing(cx, env, i):
    env["failing_trees"] = _opaque_trees(cx)


@register
class Expression_fitness(FitnessOverride):
    target = "constraints/expression.py:ExpressionConstraint.fitness"
    cls = "ExpressionConstraint"
    loops = {
        0: Loop(0, iter_text="self.combinations(tree, scope)", inv=_ExprLoop.inv, havoc=_ExprLoop.havoc,
                modifies=("solved", "total", "has_combinations", "failing_trees", "combination", "local_vars", "result",
                          "_", "container", "node", "e")),
        1: Loop(1, iter_text="combination", inv=_trivial_inv, havoc=_havoc_failing,
                modifies=("failing_trees", "_", "container", "node")),
        2: Loop(2, iter_text="container.get_trees()", inv=_trivial_inv, havoc=_havoc_failing,
                modifies=("failing_trees", "node")),
    }

    def make_self(self, cx):
        s = _leaf_self(cx, self.cls)
        s.fields["expression"] = cx.opaque("str", base="expression")
        return s

    def inputs(self, cx, case):
        a = super().inputs(cx, case)
        me, t = a["self"].ident, a["tree"].ident
        s0, _ = pre_ids(a)
        cx.assume(AllOkE(me, t, s0, z3.IntVal(0)))
        return a

    def sem(self, cx, a):
        me, t = a["self"].ident, a["tree"].ident
        s0, _ = pre_ids(a)
        return AllOkE(me, t, s0, NCombos(me, t, s0))


# ---- comparison ----------------------------------------------------------------------------------

def _cmp_ok(cx, a, i):
    """combination i counts as satisfied: neither side raises and the operator holds"""
    me, t = a["self"].ident, a["tree"].ident
    s0, _ = pre_ids(a)
    c = CombId(me, t, s0, i)
    le, re_ = a["self"].fields["_left"].ident, a["self"].fields["_right"].ident
    return And(Not(EvalRaises(me, le, c)), Not(EvalRaises(me, re_, c)), CmpTrue(me, c))


@register
class Comparison_evaluate_comparison(Contract):
    """contract of the helper as used by fitness(); verified below (Comparison_evaluate_comparison_body)"""
    target = "constraints/comparison.py:ComparisonConstraint._evaluate_comparison"
    properties = ("C02", "C07")
    float_mode = "ieee"
    cases = ("EQUAL", "NOT_EQUAL", "GREATER", "GREATER_EQUAL", "LESS", "LESS_EQUAL")

    # -- call-site direction
    def may_raise(self, cx, a):
        return [("Exception", CmpRaises(cx.ghost["self_id"], cx.ghost["cur_combo"]))]

    def fresh_result(self, cx, a):
        return (cx.float("cmp_fitness"), cx.opaque("Suggestion", maybe_none=z3.BoolVal(False)))

    def ensures(self, cx, a, r):
        from pyvc.dsl import feq
        me = cx.ghost.get("self_id")
        holds = CmpTrue(me, cx.ghost["cur_combo"]) if me is not None and "cur_combo" in cx.ghost else None
        f = r[0]
        out = [("value_is_zero_or_one", Or(feq(f, 0.0), feq(f, 1.0)))]
        if holds is not None:
            out.append(("one_iff_comparison_holds", feq(f, 1.0) == holds))
        return out

    # -- verification direction
    def inputs(self, cx, case):
        from pyvc.values import SEnumMember
        s = _leaf_self(cx, "ComparisonConstraint")
        values = {"EQUAL": "==", "NOT_EQUAL": "!=", "GREATER": ">", "GREATER_EQUAL": ">=", "LESS": "<", "LESS_EQUAL": "<="}
        s.fields["_operator"] = SEnumMember("Comparison", case, values[case])
        cx.ghost["cur_combo"] = cx.const("combo", I)
        left = cx.opaque("value", base="left")
        right = cx.opaque("value", base="right")
        for v in (left, right):
            v.attrs["isinstance"] = lambda n: False if n in ("DerivationTree",) else None
            v.attrs["eq"] = lambda other: cx.bool("user_values_equal")
        def mk(nm):
            sym = cx.opaque("Symbol", base=nm + "_symbol")
            isnt = cx.bool(nm + "_symbol_is_nt").term
            sym.attrs["isinstance"] = lambda n, isnt=isnt: isnt
            o = cx.opaque("DerivationTree", base=nm, maybe_none=cx.bool(nm + "_is_none").term)
            o.attrs["symbol"] = sym
            o.attrs["methods"] = {"parseable_from": lambda it, *args: cx.bool("parseable")}
            o.attrs["eq"] = lambda other: cx.bool("tree_eq_value")
            return o

        return {"self": s, "left": left, "right": right, "single_left_tree": mk("slt"), "single_right_tree": mk("srt")}


@register
class Comparison_compare(Contract):
    """assumed: Comparison.compare applies the Python operator to user values: it returns a bool or raises"""
    target = "constraints/failing_tree.py:Comparison.compare"
    trusted = True

    def may_raise(self, cx, a):
        return [("Exception", CmpRaises(cx.ghost["self_id"], cx.ghost["cur_combo"]))]

    def fresh_result(self, cx, a):
        return SBool(CmpTrue(cx.ghost["self_id"], cx.ghost["cur_combo"]))


@register
class Comparison_sigmoid(Contract):
    """assumed: 1 / (1 + exp(-x)) is a float in [0, 1] (math.exp is external)"""
    target = "constraints/comparison.py:_sigmoid"
    trusted = True

    def fresh_result(self, cx, a):
        return cx.float("sigmoid")

    def ensures(self, cx, a, r):
        from pyvc.dsl import fge, fle
        return [("sigmoid_in_unit_interval", And(fge(r, 0.0), fle(r, 1.0)))]


@register
class Comparison_distance_norm(Contract):
    target = "constraints/comparison.py:_distance_norm"
    properties = ("C02", "C07")
    float_mode = "ieee"

    def inputs(self, cx):
        l, r = cx.opaque("value", base="left"), cx.opaque("value", base="right")
        sub_raises = cx.bool("sub_raises").term
        rsub_raises = cx.bool("rsub_raises").term

        def sub(it, other, me=l, flag=sub_raises):
            return None

        # user values: `-` either raises or returns some value (not the object `float | int`)
        def user_value(name):
            o = cx.opaque("value", base=name)
            # a user value may be of any type: isinstance checks on it are undetermined
            o.attrs["isinstance"] = lambda n: cx.bool(f"{name}_isinstance_{n}").term
            return o

        l.attrs["binop"] = lambda op, other: ("raise" if cx.branch(sub_raises, "left-right raises") else user_value("dist"))
        r.attrs["binop"] = lambda op, other: ("raise" if cx.branch(rsub_raises, "right-left raises") else user_value("dist"))
        return {"left": l, "right": r}

    def fresh_result(self, cx, a):
        return None

    def ensures(self, cx, a, r):
        # `dist is float | int` compares a value with a freshly built types.UnionType object: never true
        return [("always_none", z3.BoolVal(r is None))]


class _CmpLoop:
    @staticmethod
    def havoc(cx, env, i):
        from pyvc.lists import term_list
        a = cx.ghost["pre_args"]
        env["fitness_values"] = term_list(cx, "values", i, "float")
        env["failing_trees"] = _opaque_trees(cx)
        env["suggestions"] = cx.opaque_list(cx.int("n_sugg", lo=0), fresh=True)
        env["has_combinations"] = cx.bool("has_combinations")
        env["self"].fields["_types_checked"] = cx.bool("types_checked")
        _allok_unfold(cx, a, idx_term(i), _cmp_ok(cx, a, idx_term(i)))

    @staticmethod
    def inv(cx, env, i):
        from pyvc.dsl import feq
        a = cx.ghost["pre_args"]
        me, t = a["self"].ident, a["tree"].ident
        s0, _ = pre_ids(a)
        it = idx_term(i) if not isinstance(i, int) else z3.IntVal(i)
        fv = env["fitness_values"]
        out = [("one_value_per_combination", T(cmp("==", fv.length if not fv.concrete else len(fv.items), i))),
               ("has_combinations_flag", T(env["has_combinations"]) == (it > 0))]
        if fv.concrete:
            return out
        j = z3.Int(cx._name("ij"))
        fn = fv.ghost["elem_term"][1]
        out.append(("values_are_zero_or_one_and_match", ForAll([j], Implies(And(j >= 0, j < it), And(
            Or(feq(fn(j), 0.0), feq(fn(j), 1.0)), feq(fn(j), 1.0) == _cmp_ok(cx, a, j))))))
        j2 = z3.Int(cx._name("ij"))
        out.append(("prefix_all_ok", AllOkE(me, t, s0, it) == ForAll([j2], Implies(And(j2 >= 0, j2 < it), feq(fn(j2), 1.0)))))
        return out


def _havoc_lr(cx, env, i):
    env["left_trees"] = cx.opaque_list(cx.int("n_left", lo=0), fresh=True)
    env["right_trees"] = cx.opaque_list(cx.int("n_right", lo=0), fresh=True)


@register
class Comparison_check_types(Contract):
    """assumed: diagnostic only (emits a warning), returns a bool"""
    target = "constraints/comparison.py:ComparisonConstraint.check_type_compatibility"
    trusted = True

    def fresh_result(self, cx, a):
        return cx.bool("types_checked")


@register
class Comparison_fitness(FitnessOverride):
    target = "constraints/comparison.py:ComparisonConstraint.fitness"
    cls = "ComparisonConstraint"
    loops = {
        0: Loop(0, iter_text="self.combinations(tree, scope)", inv=_CmpLoop.inv, havoc=_CmpLoop.havoc,
                modifies=("fitness_values", "failing_trees", "suggestions", "has_combinations", "self._types_checked",
                          "untyped_combination", "combination", "local_vars", "var_evals", "left_trees", "right_trees",
                          "annotation", "tree", "single_left_tree", "single_right_tree", "left", "right", "e",
                          "fitness_value", "suggestion", "_", "container")),
        1: Loop(1, iter_text="filter(lambda x: isinstance(x[1], DerivationTree), var_evals.values())", inv=_trivial_inv,
                havoc=_havoc_lr, modifies=("left_trees", "right_trees", "annotation", "tree")),
    }
    # the loops that only collect failing trees are keyed by what they iterate, not by position
    loops_by_text = {
        "combination": Loop(-1, iter_text="combination", inv=_trivial_inv, havoc=_havoc_failing,
                            modifies=("failing_trees", "_", "container")),
    }

    def make_self(self, cx):
        s = _leaf_self(cx, self.cls)
        s.fields["_left"] = cx.opaque("str", base="left_expr")
        s.fields["_right"] = cx.opaque("str", base="right_expr")
        s.fields["_types_checked"] = cx.bool("types_checked0")
        s.fields["types_checked"] = True   # hasattr(self, "types_checked") is irrelevant to the verdict
        return s

    def inputs(self, cx, case):
        a = super().inputs(cx, case)
        me, t = a["self"].ident, a["tree"].ident
        s0, _ = pre_ids(a)
        cx.assume(AllOkE(me, t, s0, z3.IntVal(0)))
        return a

    def sem(self, cx, a):
        me, t = a["self"].ident, a["tree"].ident
        s0, _ = pre_ids(a)
        return AllOkE(me, t, s0, NCombos(me, t, s0))

    def replay(self, obligation, model):
        from contracts import replay_constraints
        return replay_constraints.raising_script(obligation, model)

    def ensures(self, cx, a, r):
        # counting lemma for solved = #(values == 1.0) against total = len(values)
        sums = cx.ghost.get("sums", [])
        if sums:
            lemmas.sum01(cx, sums[-1])
        # AllOkE(n) <=> forall j < n. ok(j): needed to connect `all(it == 1.0 ...)` with the recursive ghost predicate
        return super().ensures(cx, a, r)
