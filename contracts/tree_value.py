"""C09: language/tree_value.py and DerivationTree.value.

View of a TreeValue:  kind in {None, str, bytes}, text s / bytes b, pending bits (a sequence of 0/1).
Spec functions (ghost):
  Flat(v)   the bit sequence:  BitsOf(utf8(s)) | BitsOf(b) | <>   followed by the pending bits
  Bytes(v)  utf8(s) | b | b""  followed by Pack(pending bits)            (defined when len(bits) % 8 == 0)
Codecs are uninterpreted functions; the ONLY facts assumed about them are the homomorphism / inverse laws below,
applied as ground instances to the terms that occur (listed as assumptions in the evidence):
  U = utf-8 encode, L = latin-1 encode (partial), Linv = latin-1 decode, Pack = 8 bits -> byte (MSB first),
  BitsOf = byte -> 8 bits, R8 = bytes rendered as '0'/'1' text, RB = bits rendered as text.
  U(a+b) = U(a)+U(b);  BitsOf(a+b) = BitsOf(a)+BitsOf(b);  len(b)%8==0 => BitsOf(Pack(b)) = b;  |BitsOf(x)| = 8|x|;
  RB(a+b) = RB(a)+RB(b);  RB(BitsOf(x)) = R8(x);  Linv(a+b) = Linv(a)+Linv(b)
  trailing_bits_to_int(bits).to_bytes(len(bits)//8) = Pack(bits)   (proved for one byte by enumeration in bounded/c09)
"""
from __future__ import annotations

import z3

from pyvc.dsl import And, Contract, Implies, Loop, Not, Or, SBool, SInt, SList, SObj, SOpaque, SStr, T, cmp, idx_term, register, to_term_int
from pyvc.ops import PyRaise, as_seq, seq_list, str_term
from pyvc.values import SExc, Unsupported

S = z3.StringSort()
BITS = z3.SeqSort(z3.IntSort())
U = z3.Function("utf8", S, S)
L = z3.Function("latin1", S, S)
Linv = z3.Function("latin1_decode", S, S)
Uinv = z3.Function("utf8_decode", S, S)
Latin1able = z3.Function("latin1_encodable", S, z3.BoolSort())
Utf8Valid = z3.Function("utf8_valid", S, z3.BoolSort())
Pack = z3.Function("pack_bits", BITS, S)
BitsOf = z3.Function("bits_of", S, BITS)
R8 = z3.Function("render_bytes_08b", S, S)
RB = z3.Function("render_bits", BITS, S)
EMPTY_BITS = z3.Empty(BITS)
EMPTY_STR = z3.StringVal("")


def parts(t):
    """children of a (nested) concatenation"""
    if z3.is_app(t) and t.decl().kind() == z3.Z3_OP_SEQ_CONCAT:
        out = []
        for c in t.children():
            out.extend(parts(c))
        return out
    return [t]


def cat(ts, empty):
    ts = [t for t in ts if not t.eq(empty)]
    if not ts:
        return empty
    if len(ts) == 1:
        return ts[0]
    return z3.Concat(*ts)


def hom(fn, t, empty_in, empty_out):
    """fn distributed over a concatenation (the assumed homomorphism law, applied to the term at hand)"""
    return cat([(empty_out if p.eq(empty_in) else fn(p)) for p in parts(t)], empty_out)


def bits_of(cx, t):
    out = []
    for p in parts(t):
        if p.eq(EMPTY_STR):
            continue
        if z3.is_app(p) and p.decl().eq(Pack):
            b = p.arg(0)
            cx.assume(Implies(z3.Length(b) % 8 == 0, BitsOf(p) == b))      # instance of BitsOf(Pack(b)) = b
        cx.assume(z3.Length(BitsOf(p)) == 8 * z3.Length(p))
        out.append(BitsOf(p))
    return cat(out, EMPTY_BITS)


def codec(cx, op, s, enc):
    t = str_term(s)
    if op == "encode":
        if enc in ("utf-8", "utf8"):
            return SStr(hom(U, t, EMPTY_STR, EMPTY_STR), "bytes")
        if enc in ("latin-1", "latin1", "iso-8859-1"):
            if not cx.branch(Latin1able(t), "latin-1 encodable"):
                raise PyRaise(SExc("UnicodeEncodeError"))
            return SStr(hom(L, t, EMPTY_STR, EMPTY_STR), "bytes")
    else:
        if enc in ("latin-1", "latin1", "iso-8859-1"):
            return SStr(hom(Linv, t, EMPTY_STR, EMPTY_STR), "str")
        if enc in ("utf-8", "utf8"):
            if not cx.branch(Utf8Valid(t), "utf-8 decodable"):
                raise PyRaise(SExc("UnicodeDecodeError"))
            return SStr(Uinv(t), "str")
    raise Unsupported(f"codec {enc}")


class BitsInt(SInt):
    """the int built from a bit list by trailing_bits_to_int (remembers the bits)"""
    __slots__ = ("from_bits",)


def int_to_bytes(cx, n, pos, kw):
    if isinstance(n, BitsInt) and pos:
        k = to_term_int(pos[0])
        b = n.from_bits
        cx.oblige(f"{cx.tag}#call_pre:to_bytes_length_is_bit_count_div_8", k * 8 == z3.Length(b), kind="call_pre")
        return SStr(Pack(b), "bytes")
    raise Unsupported("int.to_bytes of an int that does not come from trailing_bits_to_int")


def setup(cx):
    cx.ghost["codec"] = codec
    cx.ghost["int_to_bytes"] = int_to_bytes
    cx.ghost["inline_ok"] = set(INLINE)


INLINE = [
    "language/tree_value.py:_str_to_bytes", "language/tree_value.py:_bytes_to_str", "language/tree_value.py:TreeValue.is_type",
    "language/tree_value.py:TreeValue.type_", "language/tree_value.py:TreeValue.empty",
]


BitsValid = z3.Function("all_bits_are_0_or_1", BITS, z3.BoolSort())


def bits_valid(seq):
    """every element is 0 or 1 -- an uninterpreted predicate; validity of a concatenation is the conjunction over its parts"""
    ps = [p for p in parts(seq) if not p.eq(EMPTY_BITS)]
    if not ps:
        return z3.BoolVal(True)
    return And(*[BitsValid(p) for p in ps])


def tree_value(cx, name: str, kind: str, fresh: bool = False) -> SObj:
    v = SObj("TreeValue", {}, fresh=fresh, label=name)
    v.ident = cx.const(name + "_id", z3.IntSort())
    if kind == "none":
        v.fields["_value"] = None
    elif kind == "str":
        v.fields["_value"] = cx.str(name + "_text", named=True)
    else:
        v.fields["_value"] = cx.str(name + "_bytes", named=True, kind="bytes")
    bits = z3.Const(name + "_bits", BITS)
    v.fields["_trailing_bits"] = seq_list(bits, fresh=False, label=name + ".bits")
    return v


def view(v: SObj):
    """(kind, payload term or None, bits term)"""
    val = v.fields["_value"]
    tb = v.fields["_trailing_bits"]
    bits = as_seq(tb) if isinstance(tb, SList) else None
    if bits is None:
        raise Unsupported("trailing bits are not a bit sequence")
    if val is None:
        return "none", None, bits
    if isinstance(val, (SStr, str, bytes)):
        k = "bytes" if (isinstance(val, bytes) or (isinstance(val, SStr) and val.kind == "bytes")) else "str"
        return k, str_term(val), bits
    raise Unsupported(f"_value of unexpected shape {val!r}")


def as_bytes_term(kind, payload):
    if kind == "none":
        return EMPTY_STR
    if kind == "str":
        return hom(U, payload, EMPTY_STR, EMPTY_STR)
    return payload


def flat(cx, v: SObj):
    if "@flat" in v.fields:
        return v.fields["@flat"]
    kind, payload, bits = view(v)
    return cat([bits_of(cx, as_bytes_term(kind, payload)), bits], EMPTY_BITS)


def snapshot(cx, v: SObj):
    kind, payload, bits = view(v)
    return {"kind": kind, "payload": payload, "bits": bits, "flat": flat(cx, v), "bytes": as_bytes_term(kind, payload)}


@register
class TrailingBitsToInt(Contract):
    """assumed model of sum(bit << i ...): the integer whose big-endian bytes are Pack(bits) (checked for all bit
    strings up to 16 bits by enumeration in the bounded part)"""
    target = "language/tree_value.py:trailing_bits_to_int"
    trusted = True

    def fresh_result(self, cx, a):
        tb = a["trailing_bits"]
        seq = as_seq(tb)
        if seq is None:
            raise Unsupported("trailing_bits_to_int of a non-sequence")
        r = BitsInt(z3.Int(cx._name("bits_as_int")), 0, None)
        r.from_bits = seq
        return r


_ASSERT_BITS = "all((bit & 1 == bit for bit in trailing_bits))"


def _hook_bits_ok(it, fr):
    tb = fr.locals["trailing_bits"]
    seq = as_seq(tb) if isinstance(tb, SList) else None
    if seq is None:
        raise Unsupported("trailing_bits is not a sequence")
    return SBool(bits_valid(seq))


@register
class TreeValue_init(Contract):
    target = "language/tree_value.py:TreeValue.__init__"
    inline = True
    expr_hooks = {_ASSERT_BITS: _hook_bits_ok}


def _mk_cases(*dims):
    import itertools
    return tuple(itertools.product(*dims))


KINDS = ("none", "str", "bytes")


class _TV(Contract):
    properties = ("C09",)
    float_mode = "real"

    def _self(self, cx, kind):
        setup(cx)
        s = tree_value(cx, "self", kind)
        cx.assume(bits_valid(view(s)[2]))
        cx.ghost["self0"] = snapshot(cx, s)
        return s


@register
class TreeValue_reduce(_TV):
    target = "language/tree_value.py:TreeValue._reduce_trailing_bits"
    cases = _mk_cases(KINDS, ("utf-8", "latin-1"))

    def inputs(self, cx, case):
        return {"self": self._self(cx, case[0]), "str_to_bytes_encoding": case[1]}

    # call-site direction -------------------------------------------------------------------------
    def may_raise(self, cx, a):
        kind, payload, bits = view(a["self"])
        out = [("FandangoConversionError", And(z3.Length(bits) > 0, z3.Length(bits) % 8 != 0))]
        if kind == "str" and a["str_to_bytes_encoding"] != "utf-8":
            out.append(("FandangoConversionError", And(z3.Length(bits) > 0, Not(Latin1able(payload)))))
        return out

    def effects(self, cx, a):
        s = a["self"]
        kind, payload, bits = view(s)
        if not cx.branch(z3.Length(bits) > 0, "has pending bits"):
            return
        enc = a["str_to_bytes_encoding"]
        if kind == "str":
            head = hom(U if enc == "utf-8" else L, payload, EMPTY_STR, EMPTY_STR)
        elif kind == "bytes":
            head = payload
        else:
            head = EMPTY_STR
        cx.log_write(s, "_value")
        cx.log_write(s, "_trailing_bits")
        s.fields["_value"] = SStr(cat([head, Pack(bits)], EMPTY_STR), "bytes")
        s.fields["_trailing_bits"] = SList([])

    def fresh_result(self, cx, a):
        return None

    # verification direction ------------------------------------------------------------------------
    def ensures(self, cx, a, r):
        s = a["self"]
        pre = cx.ghost["self0"]
        kind, payload, bits = view(s)
        enc = a["str_to_bytes_encoding"]
        had = z3.Length(pre["bits"]) > 0
        out = [("no_pending_bits_left_if_any_were_flushed", Implies(had, z3.Length(bits) == 0))]
        if pre["kind"] == "str":
            head = hom(U if enc == "utf-8" else L, pre["payload"], EMPTY_STR, EMPTY_STR)
        else:
            head = pre["bytes"]
        if kind == "bytes":
            out.append(("value_is_head_plus_packed_bits", Implies(had, payload == cat([head, Pack(pre["bits"])], EMPTY_STR))))
        else:
            out.append(("unchanged_without_pending_bits", Not(had)))
        if enc == "utf-8":
            out.append(("bit_content_preserved", flat(cx, s) == pre["flat"]))
        return out

    def ensures_raise(self, cx, a, exc):
        pre = cx.ghost["self0"]
        bits = pre["bits"]
        ok = [And(z3.Length(bits) > 0, z3.Length(bits) % 8 != 0)]
        if pre["kind"] == "str" and a["str_to_bytes_encoding"] != "utf-8":
            ok.append(And(z3.Length(bits) > 0, Not(Latin1able(pre["payload"]))))
        return [("raises_only_when_unaligned_or_unencodable", And(z3.BoolVal(exc.cls == "FandangoConversionError"), Or(*ok)))]


@register
class TreeValue_append(_TV):
    target = "language/tree_value.py:TreeValue.append"
    cases = _mk_cases(KINDS, KINDS)

    def inputs(self, cx, case):
        s = self._self(cx, case[0])
        o = tree_value(cx, "other", case[1])
        cx.assume(bits_valid(view(o)[2]))
        cx.ghost["other0"] = snapshot(cx, o)
        cx.ghost["other_obj_fields"] = dict(o.fields)
        return {"self": s, "other": o}

    def _raise_cond(self, cx):
        s0, o0 = cx.ghost["self0"], cx.ghost["other0"]
        self_empty = And(z3.BoolVal(s0["kind"] == "none"), z3.Length(s0["bits"]) == 0)
        return And(Not(self_empty), z3.BoolVal(o0["kind"] != "none"), z3.Length(s0["bits"]) % 8 != 0)

    def ensures(self, cx, a, r):
        if cx.tag != self.target:
            return []       # at call sites the result carries its bit content (fresh_result)
        s0, o0 = cx.ghost["self0"], cx.ghost["other0"]
        if not isinstance(r, SObj):
            return [("returns_a_tree_value", z3.BoolVal(False))]
        out = [
            ("flat_is_concatenation", flat(cx, r) == cat([s0["flat"], o0["flat"]], EMPTY_BITS)),
            ("no_error_expected_on_this_path", Not(self._raise_cond(cx))),
            ("result_is_new_object", z3.BoolVal(r is not a["self"] and r is not a["other"])),
            ("receiver_keeps_its_bit_content", flat(cx, a["self"]) == s0["flat"]),
        ]
        return out

    def ensures_raise(self, cx, a, exc):
        if cx.tag != self.target:
            return []
        return [("raises_exactly_when_text_or_bytes_follow_unaligned_bits",
                 And(z3.BoolVal(exc.cls == "FandangoConversionError"), self._raise_cond(cx)))]

    def finish(self, cx, a, outcome):
        o = a["other"]
        wrote_other = any(w[0] is o for w in outcome.writes)
        return [("frame_other_not_written", z3.BoolVal(not wrote_other))]

    # call-site direction (used by DerivationTree.value) -----------------------------------------------
    def may_raise(self, cx, a):
        return [("FandangoConversionError", None)]

    def fresh_result(self, cx, a):
        r = SObj("TreeValue", {}, fresh=True, label="appended")
        r.fields["@flat"] = cat([flat(cx, a["self"]), flat(cx, a["other"])], EMPTY_BITS)
        return r


@register
class TreeValue_to_bytes(_TV):
    target = "language/tree_value.py:TreeValue.to_bytes"
    cases = _mk_cases(KINDS)

    def inputs(self, cx, case):
        return {"self": self._self(cx, case[0])}

    def ensures(self, cx, a, r):
        s0 = cx.ghost["self0"]
        want = cat([s0["bytes"], Pack(s0["bits"])], EMPTY_STR)
        empty_bits = z3.Length(s0["bits"]) == 0
        out = [("bytes_are_text_utf8_or_bytes_then_packed_bits",
                z3.If(empty_bits, str_term(r) == s0["bytes"], str_term(r) == want)),
               ("aligned", z3.Length(s0["bits"]) % 8 == 0),
               ("bit_content_unchanged", flat(cx, a["self"]) == s0["flat"])]
        return out

    def ensures_raise(self, cx, a, exc):
        s0 = cx.ghost["self0"]
        return [("raises_only_when_unaligned", And(z3.BoolVal(exc.cls == "FandangoConversionError"), z3.Length(s0["bits"]) % 8 != 0))]


@register
class TreeValue_to_string(_TV):
    target = "language/tree_value.py:TreeValue.to_string"
    cases = _mk_cases(KINDS)

    def inputs(self, cx, case):
        return {"self": self._self(cx, case[0])}

    # call-site direction (used by contracts/fuzz.py): the verified postconditions over a snapshot of the receiver
    def may_raise(self, cx, a):
        return [("FandangoConversionError", z3.Length(view(a["self"])[2]) % 8 != 0)]

    def effects(self, cx, a):
        cx.ghost["self0"] = snapshot(cx, a["self"])

    def fresh_result(self, cx, a):
        return cx.str("to_string_result")

    def ensures(self, cx, a, r):
        s0 = cx.ghost["self0"]
        empty_bits = z3.Length(s0["bits"]) == 0
        binary = cat([s0["bytes"], Pack(s0["bits"])], EMPTY_STR)       # what to_bytes() gives (text as UTF-8)
        latin = hom(Linv, binary, EMPTY_STR, EMPTY_STR)
        out = []
        if s0["kind"] == "str":
            out.append(("pure_text_is_returned_as_is", Implies(empty_bits, str_term(r) == s0["payload"])))
            out.append(("text_with_bits_is_latin1_of_the_bytes_view", Implies(Not(empty_bits), str_term(r) == latin)))
        elif s0["kind"] == "bytes":
            out.append(("binary_is_latin1_of_the_bytes_view", str_term(r) == z3.If(empty_bits, hom(Linv, s0["bytes"], EMPTY_STR, EMPTY_STR), latin)))
        else:
            out.append(("bits_only_is_latin1_of_the_bytes_view", str_term(r) == z3.If(empty_bits, EMPTY_STR, hom(Linv, Pack(s0["bits"]), EMPTY_STR, EMPTY_STR))))
        return out

    def ensures_raise(self, cx, a, exc):
        s0 = cx.ghost["self0"]
        return [("raises_only_when_unaligned", And(z3.BoolVal(exc.cls == "FandangoConversionError"), z3.Length(s0["bits"]) % 8 != 0))]

    def replay(self, obligation, model):
        from contracts import replay_tree_value
        return replay_tree_value.to_string_script(obligation, model)


_JOIN_BYTES = "''.join((f'{byte_:08b}' for byte_ in self._value))"
_JOIN_STR = "''.join((f'{byte_:08b}' for byte_ in _str_to_bytes(self._value, encoding=str_to_bytes_encoding)))"
_JOIN_BITS = "''.join((str(bit) for bit in self._trailing_bits))"


def _hook_join_bytes(it, fr):
    v = fr.locals["self"].fields["_value"]
    return SStr(hom(R8, str_term(v), EMPTY_STR, EMPTY_STR), "str")


def _hook_join_str(it, fr):
    v = fr.locals["self"].fields["_value"]
    enc = fr.locals["str_to_bytes_encoding"]
    b = codec(it.cx, "encode", v, enc)
    return SStr(hom(R8, b.term, EMPTY_STR, EMPTY_STR), "str")


def _hook_join_bits(it, fr):
    seq = as_seq(fr.locals["self"].fields["_trailing_bits"])
    return SStr(z3.If(z3.Length(seq) == 0, EMPTY_STR, RB(seq)), "str")


@register
class TreeValue_to_bits(_TV):
    target = "language/tree_value.py:TreeValue.to_bits"
    cases = _mk_cases(KINDS)
    expr_hooks = {_JOIN_BYTES: _hook_join_bytes, _JOIN_STR: _hook_join_str, _JOIN_BITS: _hook_join_bits}

    def inputs(self, cx, case):
        return {"self": self._self(cx, case[0]), "str_to_bytes_encoding": "utf-8"}

    def ensures(self, cx, a, r):
        s0 = cx.ghost["self0"]
        head = hom(R8, s0["bytes"], EMPTY_STR, EMPTY_STR)
        tail = z3.If(z3.Length(s0["bits"]) == 0, EMPTY_STR, RB(s0["bits"]))
        wrote = any(w[0] is a["self"] for w in cx.writes)
        return [("bits_are_rendered_bytes_then_rendered_pending_bits", str_term(r) == z3.Concat(head, tail)),
                ("receiver_not_written", z3.BoolVal(not wrote))]


# ------------------------------------------------------------------------------------------------ DerivationTree.value

ChildFlat = z3.Function("ChildFlat", z3.IntSort(), z3.IntSort(), BITS)    # tree, child index -> bit content of the child's value
FlatUpTo = z3.Function("FlatUpTo", z3.IntSort(), z3.IntSort(), BITS)      # tree, i -> concatenation of the first i children


@register
class Tree_value(Contract):
    """the fold over the children: the aggregate's bit content is the in-order concatenation (nesting independent:
    FlatUpTo is defined by FlatUpTo(0) = <>, FlatUpTo(i+1) = FlatUpTo(i) ++ ChildFlat(i), whatever the shape below)"""
    target = "language/tree.py:DerivationTree.value"
    properties = ("C09",)
    float_mode = "real"

    def _loop_havoc(cx, env, i):
        t = cx.ghost["pre_args"]["self"]
        agg = SObj("TreeValue", {}, fresh=True, label="aggregate")
        agg.fields["@flat"] = z3.Const(cx._name("agg_flat"), BITS)
        env["aggregate"] = agg
        it = idx_term(i)
        cx.assume(FlatUpTo(t.ident, it + 1) == z3.Concat(FlatUpTo(t.ident, it), ChildFlat(t.ident, it)))

    def _loop_inv(cx, env, i):
        t = cx.ghost["pre_args"]["self"]
        it = idx_term(i) if not isinstance(i, int) else z3.IntVal(i)
        return [("aggregate_is_concatenation_of_prefix", flat(cx, env["aggregate"]) == FlatUpTo(t.ident, it))]

    loops = {0: Loop(0, iter_text="self._children", inv=_loop_inv, havoc=_loop_havoc, modifies=("aggregate", "child"))}

    def inputs(self, cx):
        setup(cx)
        t = SObj("DerivationTree", {}, fresh=False, label="self")
        t.ident = cx.const("tree_id", z3.IntSort())
        sym = SObj("Symbol", {"is_terminal": False}, fresh=False, label="symbol")
        t.fields["symbol"] = sym
        n = cx.int("n_children", lo=0)
        kids = SList(None, length=n, fresh=False, label="children")

        def elem(j, t=t):
            c = SObj("DerivationTree", {}, fresh=False, label=f"child[{idx_term(j)}]")
            c.ident = cx.const("child", z3.IntSort())
            c.fields["@index"] = idx_term(j)
            c.fields["@parent_id"] = t.ident
            return c

        kids.elem = elem
        t.fields["_children"] = kids
        cx.assume(FlatUpTo(t.ident, z3.IntVal(0)) == EMPTY_BITS)
        from pyvc.dsl import unknown_fields
        unknown_fields(cx, t)
        return {"self": t}

    # recursive call child.value(): by this very contract
    def may_raise(self, cx, a):
        return [("FandangoConversionError", None)]

    def fresh_result(self, cx, a):
        c = a["self"]
        r = SObj("TreeValue", {}, fresh=True, label="child-value")
        if "@index" in c.fields:
            r.fields["@flat"] = ChildFlat(c.fields["@parent_id"], c.fields["@index"])
        else:
            r.fields["@flat"] = z3.Const(cx._name("value_flat"), BITS)
        return r

    def ensures(self, cx, a, r):
        t = a["self"]
        if "_children" not in t.fields:
            return []
        n = to_term_int(t.fields["_children"].length)
        structural = ("_children", "_parent", "_symbol", "_sender", "_recipient", "_size", "hash_cache", "read_only",
                      "_sources", "origin_repetitions", "_value", "_trailing_bits")
        wrote = [w for w in cx.writes if isinstance(w[0], SObj) and not w[0].fresh and w[1] in structural]
        if not isinstance(r, SObj):
            return [("returns_a_fresh_tree_value", z3.BoolVal(False))]
        return [("value_is_in_order_concatenation_of_children", flat(cx, r) == FlatUpTo(t.ident, n)),
                ("returns_a_fresh_tree_value", z3.BoolVal(bool(r.fresh))),
                ("no_structural_field_of_a_pre_existing_object_written", z3.BoolVal(not wrote))]
