"""Replay builders for the constraint contracts."""
from __future__ import annotations

FRAME = r'''#!/usr/bin/env python3
"""Replay of obligation
    {obligation}
The verifier found a path on which {cls}.fitness writes into the {which} dict handed in by its caller.
Runs the real function of the working tree with a non-empty {which}.  Exit 1 = violation reproduced."""
import os, sys
sys.path.insert(0, os.path.join(os.environ.get("VERIF_REPO", "/repo"), "src"))
from fandango.language.parse.parse import parse
from fandango.constraints.forall import ForallConstraint
from fandango.constraints.exists import ExistsConstraint
from fandango.constraints.expression import ExpressionConstraint
from fandango.language.search import RuleSearch
from fandango.language.symbols.non_terminal import NonTerminal

g, _ = parse('<start> ::= <x> <x>\n<x> ::= "1" | "2"\n', use_stdlib=False, use_cache=False)
tree = g.parse("12")
stmt = ExpressionConstraint("True")
cls = {cls}
which = "{which}"
if which == "scope":
    c = cls(stmt, NonTerminal("<x>"), RuleSearch(NonTerminal("<x>")))
    d = {{NonTerminal("<y>"): tree}}
    before = dict(d)
    c.fitness(tree, d, None)
else:
    c = cls(stmt, "v", RuleSearch(NonTerminal("<x>")))
    d = {{"w": 1}}
    before = dict(d)
    c.fitness(tree, None, d)
print("caller's", which, "before:", list(before), "after:", list(d))
if d != before:
    print("VIOLATION reproduced: the quantifier leaked its binding into the caller's dict; a sibling or enclosing")
    print("constraint evaluated next with the same dict sees a binding it never made (verdict depends on history)")
    sys.exit(1)
print("not reproduced")
'''


def frame_script(obligation: str, model: dict, cls: str):
    which = "scope" if "scope_not_written" in obligation else "locals" if "locals_not_written" in obligation else None
    if which is None:
        return None
    return FRAME.format(obligation=obligation, cls=cls, which=which)
