"""Replay builders for the constraint contracts."""
from __future__ import annotations

FRAME = r'''#!/usr/bin/env python3
"""Replay of obligation
    {obligation}
The verifier found a path on which {cls}.fitness writes into the {which} dict handed in by its caller.
Runs the real function of the working tree with a non-empty {which}.  Exit 1 = violation reproduced."""
import os, sys
sys.path.insert(0, os.path.join(os.environ.get("VERIF_REPO", "/repo"), "src"))
from fandango.language.parse.parse import parse
from fandango.constraints.forall import ForallConstraint
from fandango.constraints.exists import ExistsConstraint
from fandango.constraints.expression import ExpressionConstraint
from fandango.language.search import RuleSearch
from fandango.language.symbols.non_terminal import NonTerminal

g, _ = parse('<start> ::= <x> <x>\n<x> ::= "1" | "2"\n', use_stdlib=False, use_cache=False)
tree = g.parse("12")
stmt = ExpressionConstraint("True")
cls = {cls}
which = "{which}"
if which == "scope":
    c = cls(stmt, NonTerminal("<x>"), RuleSearch(NonTerminal("<x>")))
    d = {{NonTerminal("<y>"): tree}}
    before = dict(d)
    c.fitness(tree, d, None)
else:
    c = cls(stmt, "v", RuleSearch(NonTerminal("<x>")))
    d = {{"w": 1}}
    before = dict(d)
    c.fitness(tree, None, d)
print("caller's", which, "before:", list(before), "after:", list(d))
if d != before:
    print("VIOLATION reproduced: the quantifier leaked its binding into the caller's dict; a sibling or enclosing")
    print("constraint evaluated next with the same dict sees a binding it never made (verdict depends on history)")
    sys.exit(1)
print("not reproduced")
'''


def frame_script(obligation: str, model: dict, cls: str):
    which = "scope" if "scope_not_written" in obligation else "locals" if "locals_not_written" in obligation else None
    if which is None:
        return None
    return FRAME.format(obligation=obligation, cls=cls, which=which)


RAISING = r'''#!/usr/bin/env python3
"""Replay of obligation
    {obligation}
The verifier found a path of ComparisonConstraint.fitness on which a combination whose evaluation raises leaves no
entry in the list of per-combination values.  Runs the real code: a comparison whose left side raises for every
combination must make the constraint fail.  Exit 1 = violation reproduced."""
import os, sys
sys.path.insert(0, os.path.join(os.environ.get("VERIF_REPO", "/repo"), "src"))
from fandango.language.parse.parse import parse

g, cs = parse('<start> ::= <d> "," <d>\n<d> ::= "1" | "x"\nwhere int(<d>) == 1\n', use_stdlib=False, use_cache=False)
c = cs[0]
bad = []
for word in ("x,x", "1,x", "x,1"):
    tree = g.parse(word)
    f = c.fitness(tree)
    print(word, "-> success =", f.success, "solved/total =", f.solved, "/", f.total)
    if f.success:
        bad.append(word)
ok = c.fitness(g.parse("1,1")).success
print("1,1 -> success =", ok)
if bad:
    print("VIOLATION reproduced: the constraint int(<d>) == 1 reports success on", bad, "(int('x') raises)")
    sys.exit(1)
print("not reproduced")
'''


def raising_script(obligation: str, model: dict):
    return RAISING.format(obligation=obligation)
