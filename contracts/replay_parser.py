"""Replay builders for parser contracts."""

HASH_EQ = r'''#!/usr/bin/env python3
"""Replay of obligation
    {obligation}
Two ParseState objects that are == but hash differently (they differ only in `children`) are BOTH admitted to a
chart column, so the number of admitted states is not bounded by the number of distinct items; with an
empty-deriving symbol under a repetition the chart then grows without bound.  Exit 1 = reproduced."""
import os, subprocess, sys
SRC = os.path.join(os.environ.get("VERIF_REPO", "/repo"), "src")
sys.path.insert(0, SRC)
from fandango.language.grammar.parser.parse_state import ParseState
from fandango.language.grammar.parser.column import Column
from fandango.language.symbols.non_terminal import NonTerminal
from fandango.language.symbols.terminal import Terminal
from fandango.language.tree import DerivationTree

nt = NonTerminal("<a>")
symbols = ((NonTerminal("<b>"), frozenset()),)
a = ParseState(nt, 0, symbols, 0, [])
b = ParseState(nt, 0, symbols, 0, [DerivationTree(NonTerminal("<b>"))])
col = Column()
r1, r2 = col.add(a), col.add(b)
print("a == b:", a == b, "| hash(a) == hash(b):", hash(a) == hash(b), "| both admitted:", r1 and r2, "| column size:", len(col))
consistent = (a != b) or hash(a) == hash(b)
code = r"""
import sys; sys.path.insert(0, %r)
from fandango.language.parse.parse import parse
g, _ = parse('<start> ::= <a>*\n<a> ::= "x"?\n', use_stdlib=False, use_cache=False)
print(g.parse("xx") is not None)
""" % SRC
try:
    p = subprocess.run([sys.executable, "-c", code], capture_output=True, text=True, timeout=20)
    hang = False
    print("parse('xx') with <start> ::= <a>*; <a> ::= 'x'? returned:", p.stdout.strip()[-60:])
except subprocess.TimeoutExpired:
    hang = True
    print("parse('xx') with <start> ::= <a>*; <a> ::= 'x'? did not return within 20 s")
if not consistent or hang:
    print("VIOLATION reproduced: == without equal hash" + (" and a non-terminating parse" if hang else ""))
    sys.exit(1)
print("not reproduced")
'''


def hash_eq_script(obligation, model):
    return HASH_EQ.format(obligation=obligation)


CACHE = r'''#!/usr/bin/env python3
"""Replay of obligation
    {obligation}
Parser.parse_forest must leave only COMPLETE forests in its cache at every yield, yield one tree per forest entry on
both the hit and the miss path, and never hand out the cached object.  Exit 1 = a later parse result depends on an
earlier request."""
import os, sys
sys.path.insert(0, os.path.join(os.environ.get("VERIF_REPO", "/repo"), "src"))
from fandango.language.parse.parse import parse
SPEC = '<start> ::= <a> <a>\n<a> ::= "x" | "xx" | ""\n'

def fresh():
    g, _ = parse(SPEC, use_stdlib=False, use_cache=False)
    return g

bad = []
ref = sorted(t.to_string() + repr(t.to_tree() if hasattr(t, "to_tree") else "") for t in fresh().parse_forest("xx"))
g = fresh(); g.parse("xx")                       # first-tree request abandons the generator
got = list(g.parse_forest("xx"))
print("forest size fresh:", len(ref), "| after an earlier parse():", len(got))
if len(got) != len(ref):
    bad.append("partial forest served from the cache after parse()")
g = fresh()
n1 = len(list(g.parse_forest("xx", include_controlflow=True)))
n2 = len(list(g.parse_forest("xx", include_controlflow=True)))
print("include_controlflow=True: first request", n1, "trees, second request", n2)
if n1 != n2:
    bad.append("hit path yields a different number of trees than the miss path")
g = fresh()
first = list(g.parse_forest("xx", include_controlflow=True))
for t in first:
    t.set_children([])                           # the caller edits what it was given
again = list(g.parse_forest("xx", include_controlflow=True))
sizes = [t.size() for t in again]
print("sizes of trees served after the caller edited the earlier ones:", sizes)
if again and min(sizes) <= 1:
    bad.append("a yielded tree is the cached object: editing it changed later results")
if bad:
    print("VIOLATION reproduced:", "; ".join(bad))
    sys.exit(1)
print("not reproduced")
'''


def cache_script(obligation, model):
    return CACHE.format(obligation=obligation)
