"""Contracts for constraints/fitness.py and evolution/evaluation.py  (properties C02, C03).

Ghost vocabulary (global uninterpreted functions; nothing is assumed about them beyond what is stated):
  Sat(c, t)      constraint object c holds on tree t             (bound to `result.success` by Constraint.fitness)
  Raises(c, t)   evaluating c on t raises
  ElemId(l, j)   identity of element j of the constraint list l
  AllOk(l, t, i) forall j < i. not Raises(ElemId(l,j), t) and Sat(ElemId(l,j), t)      (recursive definition)
"""
from __future__ import annotations

import os

import z3

from pyvc.dsl import *  # noqa: F401,F403
from pyvc.dsl import (And, Contract, Implies, Loop, Not, Or, SBool, SFloat, SInt, SList, SObj, SOpaque, T, as_float,
                      feq, fge, fle, flt, fp, fpval, fsub, idx_term, int_to_fp, kconst, mk_bv, register)

TIER = os.environ.get("VERIF_TIER", "quick")
W = int(os.environ.get("PYVC_COUNT_BITS", "8" if TIER == "quick" else "10"))      # number of constraints per class < 2**W
G = int(os.environ.get("PYVC_TOTAL_BITS", "12" if TIER == "quick" else "16"))     # per-constraint `total` <= 2**G
GAP1 = 2.0 ** -(G + 1)            # slack of the running float sum once one constraint has failed
GAP2 = 2.0 ** -(G + 1 + W)        # a class fitness below 1.0 is at most 1 - GAP2

I = z3.IntSort()
B = z3.BoolSort()
NONE_ID = z3.IntVal(-7)
Sat4 = z3.Function("Sat4", I, I, I, I, B)        # constraint, tree, scope content, locals content
Raises4 = z3.Function("Raises4", I, I, I, I, B)


def Sat(c, t):
    return Sat4(c, t, NONE_ID, NONE_ID)


def Raises(c, t):
    return Raises4(c, t, NONE_ID, NONE_ID)


def _dict_id(d):
    return NONE_ID if d is None else d.ghost["ident"]


def _sn(t):
    return "bv" if z3.is_bv(t) else "int"


def ElemId(l, j):
    return z3.Function("ElemId_" + _sn(j), I, j.sort(), I)(l, j)


def AllOk(l, t, i):
    return z3.Function("AllOk_" + _sn(i), I, I, i.sort(), B)(l, t, i)


def ok_at(l, t, j):
    c = ElemId(l, j)
    return And(Not(Raises(c, t)), Sat(c, t))


def allok_base(cx, l, t, like):
    cx.assume(AllOk(l, t, kconst(like, 0)))


def allok_unfold(cx, l, t, i):
    cx.assume(AllOk(l, t, i + kconst(i, 1)) == And(AllOk(l, t, i), ok_at(l, t, i)))


def constraint_list(cx, base: str, n: SInt, cls: str = "Constraint") -> SList:
    lid = cx.const(base + "_listid", I)
    l = SList(None, length=n, fresh=False, label=base)
    l.ghost["ident"] = lid

    def elem(j, lid=lid):
        o = SObj(cls, {}, fresh=False, label=f"{base}[{idx_term(j)}]")
        o.ident = ElemId(lid, idx_term(j))
        return o

    l.elem = elem
    return l


def tree(cx, name="individual"):
    o = SObj("DerivationTree", {}, fresh=False, label=name)
    o.ident = cx.const(name + "_id", I)
    return o


# ------------------------------------------------------------------------------------------------ fitness.py

def fitness_inv(solved: SInt, total: SInt, success) -> list:
    return [
        ("solved_ge_0", T(cmp(">=", solved, 0))),
        ("solved_le_total", T(cmp("<=", solved, total))),
        ("total_ge_1", T(cmp(">=", total, 1))),
        ("success_iff_all_solved", T(success) == T(cmp("==", solved, total))),
    ]


def fitness_value_facts(f, solved: SInt, total: SInt) -> list:
    """what ConstraintFitness.fitness() guarantees about its float result"""
    full = And(cmp(">", total, 0).term, cmp("==", solved, total).term)
    return [
        ("one_iff_all_solved", feq(f, 1.0) == full),
        ("in_unit_interval", And(fge(f, 0.0), fle(f, 1.0))),
        ("below_one_has_gap", Implies(Not(feq(f, 1.0)), fle(f, 1.0 - 2.0 ** -G))),
    ]


@register
class ConstraintFitness_fitness(Contract):
    target = "constraints/fitness.py:ConstraintFitness.fitness"
    properties = ("C02", "C03")

    def inputs(self, cx):
        s = SObj("ConstraintFitness", {}, fresh=False, label="self")
        s.fields["solved"] = cx.bvint("solved", 0, 2 ** G)
        s.fields["total"] = cx.bvint("total", 0, 2 ** G)
        return {"self": s}

    def requires(self, cx, a):
        s = a["self"]
        return [("solved_le_total", cmp("<=", s.fields["solved"], s.fields["total"]).term)]

    def fresh_result(self, cx, a):
        return cx.float("fit")

    def ensures(self, cx, a, res):
        s = a["self"]
        return fitness_value_facts(as_float(res), s.fields["solved"], s.fields["total"])

    def replay(self, obligation, model):
        return None


@register
class ConstraintFitness_copy(Contract):
    """__copy__ returns a new object with the same verdict and counters (failing trees copied shallowly)"""
    target = "constraints/fitness.py:ConstraintFitness.__copy__"
    properties = ("C02", "C07", "C11")
    float_mode = "real"

    def inputs(self, cx):
        s = SObj("ConstraintFitness", {}, fresh=False, label="self")
        s.fields["solved"] = cx.int("solved")
        s.fields["total"] = cx.int("total")
        s.fields["success"] = cx.bool("success")
        s.fields["failing_trees"] = cx.opaque_list(cx.int("nft", lo=0))
        s.fields["suggestion"] = cx.opaque("Suggestion")
        return {"self": s}

    def fresh_result(self, cx, a):
        s = a["self"]
        o = SObj(s.cls, {}, fresh=True, label="copy")
        o.fields["solved"] = cx.int("c_solved")
        o.fields["total"] = cx.int("c_total")
        o.fields["success"] = cx.bool("c_success")
        o.fields["failing_trees"] = cx.opaque_list(cx.int("c_nft", lo=0), fresh=True)
        o.fields["suggestion"] = cx.opaque("Suggestion")
        return o

    def ensures(self, cx, a, r):
        s = a["self"]
        if not isinstance(r, SObj):
            return [("returns_object", z3.BoolVal(False))]
        return [
            ("fresh_object", z3.BoolVal(r is not s and r.fresh)),
            ("same_solved", cmp("==", r.fields["solved"], s.fields["solved"]).term),
            ("same_total", cmp("==", r.fields["total"], s.fields["total"]).term),
            ("same_success", T(r.fields["success"]) == T(s.fields["success"])),
            ("failing_trees_not_shared", z3.BoolVal(r.fields["failing_trees"] is not s.fields["failing_trees"])),
        ]


def new_constraint_fitness(cx, label="result") -> SObj:
    """result object of the abstract Constraint.fitness contract"""
    o = SObj("ConstraintFitness", {}, fresh=True, label=label)
    if "evolution/evaluation.py" in cx.tag:
        # environment assumption of the evaluator proofs: per-constraint totals are <= 2**G
        o.fields["solved"] = cx.bvint("r_solved", 0, 2 ** G, named=False)
        o.fields["total"] = cx.bvint("r_total", 0, 2 ** G, named=False)
    else:
        o.fields["solved"] = cx.int("r_solved")
        o.fields["total"] = cx.int("r_total")
    o.fields["success"] = cx.bool("r_success")
    o.fields["failing_trees"] = cx.opaque_list(cx.int("r_nft", lo=0), fresh=True)
    o.fields["suggestion"] = cx.opaque("Suggestion", maybe_none=z3.BoolVal(False))
    return o


@register
class Constraint_fitness(Contract):
    """abstract method: every override is verified to refine this (contracts/constraints.py)"""
    target = "constraints/constraint.py:Constraint.fitness"
    properties = ("C02", "C03", "C07")
    abstract = True

    def may_raise(self, cx, a):
        return [("Exception", Raises4(a["self"].ident, a["tree"].ident, _dict_id(a.get("scope")), _dict_id(a.get("local_variables"))))]

    def fresh_result(self, cx, a):
        return new_constraint_fitness(cx)

    def ensures(self, cx, a, r):
        out = fitness_inv(r.fields["solved"], r.fields["total"], r.fields["success"])
        out.append(("success_is_sat", T(r.fields["success"]) == Sat4(a["self"].ident, a["tree"].ident, _dict_id(a.get("scope")), _dict_id(a.get("local_variables")))))
        return out


@register
class Suggestion_rec_set(Contract):
    """assumed (not verified): touches suggestion objects only"""
    target = "constraints/failing_tree.py:ApplyAllSuggestions.rec_set_allow_repetition_full_delete"
    trusted = True

    def fresh_result(self, cx, a):
        return None


# ------------------------------------------------------------------------------------------------ evaluation.py

def evaluator(cx, h: SInt, r: SInt, s: SInt, expected=1.0) -> SObj:
    e = SObj("Evaluator", {}, fresh=False, label="self")
    e.fields["_hard_constraints"] = constraint_list(cx, "hard", h)
    e.fields["_repetition_bounds_constraints"] = constraint_list(cx, "rep", r, "RepetitionBoundsConstraint")
    e.fields["_soft_constraints"] = cx.opaque_list(s, label="soft")
    e.fields["_expected_fitness"] = expected
    e.fields["_checks_made"] = cx.int("checks_made")

    def cached(key):
        return (cx.float("cached_fitness"), cx.opaque_list(cx.int("cn", lo=0)), cx.opaque("Suggestion"))

    e.fields["_fitness_cache"] = cx.int_dict("fitness_cache", cached)
    e.fields["_solution_set"] = cx.int_set("solution_set")
    from pyvc.dsl import unknown_fields
    unknown_fields(cx, e)
    return e


class _EvalConstraintsLoop:
    @staticmethod
    def havoc(cx, env, i):
        env["fitness"] = cx.float("fitness")
        env["failing_trees"] = cx.opaque_list(cx.int("nft", lo=0), fresh=True)
        env["suggestions"] = cx.opaque_list(cx.int("nsg", lo=0), fresh=True)
        env["self"].fields["_checks_made"] = cx.int("checks_made")
        l, t = env["constraints"].ghost["ident"], env["individual"].ident
        allok_unfold(cx, l, t, idx_term(i))
        if Evaluator_evaluate_constraints_real.active():
            from pyvc.values import add_anchor
            add_anchor(cx, int_to_fp(idx_term(i)) + 1 - fp(GAP1), G + 1, "i_plus_1_minus_gap")

    @staticmethod
    def inv(cx, env, i):
        l, t = env["constraints"].ghost["ident"], env["individual"].ident
        f = as_float(env["fitness"])
        it = idx_term(i) if not isinstance(i, int) else kconst(env["constraints"].length.term, i)
        fi = int_to_fp(it)
        ok = AllOk(l, t, it)
        return [
            ("exact_while_all_ok", Implies(ok, feq(f, fi))),
            ("gap_after_a_failure", Implies(Not(ok), fle(f, fsub(fi, fpval(GAP1))))),
            ("nonneg", fge(f, 0.0)),
        ]


@register
class Evaluator_evaluate_constraints(Contract):
    target = "evolution/evaluation.py:Evaluator._evaluate_constraints"
    properties = ("C02", "C03", "C11")
    loops = {0: Loop(0, iter_text="constraints", inv=_EvalConstraintsLoop.inv, havoc=_EvalConstraintsLoop.havoc,
                     modifies=("fitness", "failing_trees", "suggestions", "self._checks_made", "constraint", "result"))}

    def inputs(self, cx):
        n = cx.bvint("n", 0, 2 ** W - 1)
        ind = tree(cx)
        e = evaluator(cx, cx.bvint("h", 0, 2 ** W - 1), cx.bvint("r", 0, 2 ** W - 1), cx.bvint("s", 0, 2 ** W - 1))
        cs = constraint_list(cx, "cs", n)
        allok_base(cx, cs.ghost["ident"], ind.ident, n.term)
        return {"self": e, "individual": ind, "constraints": cs}

    def requires(self, cx, a):
        n = a["constraints"].length
        return [("count_in_range", And(n.term >= kconst(n.term, 0), n.term < kconst(n.term, 2 ** W)))]

    def fresh_result(self, cx, a):
        sug = SObj("ApplyAllSuggestions", {"suggestions": cx.opaque_list(cx.int("nsug", lo=0))}, fresh=True)
        return (cx.float("class_fitness"), cx.opaque_list(cx.int("nfail", lo=0), fresh=True), sug)

    def effects(self, cx, a):
        a["self"].fields["_checks_made"] = cx.int("checks_made")

    def ensures(self, cx, a, res):
        l, t = a["constraints"].ghost["ident"], a["individual"].ident
        n = a["constraints"].length.term
        if cx.tag.split("@")[0] == self.target and not cx.ghost.get("call_site"):
            # ownership (C11): the failing-tree list handed out is a new list, not state shared between evaluations
            shape_ok = isinstance(res, tuple) and len(res) == 3 and isinstance(res[1], SList) and res[1].fresh
            if not shape_ok:
                return [("returns_fitness_and_a_fresh_failing_tree_list", z3.BoolVal(False))]
        f = as_float(res[0])
        allok_base(cx, l, t, n)
        ok = AllOk(l, t, n)
        return [("returns_fitness_and_a_fresh_failing_tree_list", z3.BoolVal(True)),
            ("one_iff_all_satisfied", feq(f, 1.0) == ok),
            ("in_unit_interval", And(fge(f, 0.0), fle(f, 1.0))),
            ("below_one_has_gap", Implies(Not(feq(f, 1.0)), fle(f, 1.0 - GAP2))),
        ]


@register
class Evaluator_evaluate_constraints_real(Evaluator_evaluate_constraints):
    """same function in the relaxed float model (fast); the ieee instance above is the exact one"""
    key = "evolution/evaluation.py:Evaluator._evaluate_constraints@real"
    float_mode = "real"
    anchors = (1.0 - 2.0 ** -G, 1.0, 1.0 - GAP2)

    @staticmethod
    def active():
        from pyvc.values import FloatMode
        return FloatMode.mode == "real"


@register
class Evaluator_evaluate_hard(Contract):
    target = "evolution/evaluation.py:Evaluator.evaluate_hard_constraints"
    inline = True


@register
class Evaluator_evaluate_rep(Contract):
    target = "evolution/evaluation.py:Evaluator.evaluate_repetition_bounds_constraints"
    inline = True


@register
class Evaluator_evaluate_soft(Contract):
    """assumed (not verified): soft fitness is a float in [0, 1]; relies on the external t-digest"""
    target = "evolution/evaluation.py:Evaluator.evaluate_soft_constraints"
    trusted = True

    def fresh_result(self, cx, a):
        return (cx.float("soft_fitness"), cx.opaque_list(cx.int("nsoft", lo=0), fresh=True))

    def ensures(self, cx, a, res):
        return [("soft_in_unit_interval", And(fge(res[0], 0.0), fle(res[0], 1.0)))]


@register
class Tree_get_root(Contract):
    """assumed: pure accessor returning some tree (C10 covers the tree module)"""
    target = "language/tree.py:DerivationTree.get_root"
    trusted = True
    RootOf = z3.Function("RootOf", I, I)

    def fresh_result(self, cx, a):
        o = SObj("DerivationTree", {}, fresh=False, label="root")
        o.ident = self.RootOf(a["self"].ident)
        return o


@register
class Tree_hash(Contract):
    """assumed here: hash(tree) is a function of the tree (proved for the tree module under C10)"""
    target = "language/tree.py:DerivationTree.__hash__"
    trusted = True
    TreeHash = z3.Function("TreeHash", I, I)

    def fresh_result(self, cx, a):
        return SInt(self.TreeHash(a["self"].ident))


class _EvalIndividualBase(Contract):
    target = "evolution/evaluation.py:Evaluator.evaluate_individual"

    def _mk(self, cx, soft: bool):
        h = cx.bvint("h", 0, 2 ** W - 1)
        r = cx.bvint("r", 0, 2 ** W - 1)
        s = cx.bvint("s", 0, 2 ** W - 1) if soft else 0
        if not soft:
            s = SInt(kconst(h.term, 0), 0, 0)
        e = evaluator(cx, h, r, s)
        ind = tree(cx)
        for l in (e.fields["_hard_constraints"], e.fields["_repetition_bounds_constraints"]):
            allok_base(cx, l.ghost["ident"], ind.ident, h.term)
        return {"self": e, "individual": ind}


def _sat_all(a):
    e, ind = a["self"], a["individual"]
    hl, rl = e.fields["_hard_constraints"], e.fields["_repetition_bounds_constraints"]
    H = AllOk(hl.ghost["ident"], ind.ident, hl.length.term)
    R = AllOk(rl.ghost["ident"], ind.ident, rl.length.term)
    return H, R


@register
class Evaluator_evaluate_individual(_EvalIndividualBase):
    properties = ("C02", "C03", "C11")
    cases = ("no_soft", "with_soft")

    def inputs(self, cx, case="no_soft"):
        a = self._mk(cx, soft=(case == "with_soft"))
        e = a["self"]
        # remember the pre-state of the memo tables for the postconditions
        cx.ghost["pre_cache_keys"] = e.fields["_fitness_cache"].keys
        cx.ghost["pre_solset"] = e.fields["_solution_set"].term
        cx.ghost["case"] = case
        return a

    def finish(self, cx, a, out):
        H, R = _sat_all(a)
        ind = a["individual"]
        yields = [v for k, v in out.events if k == "yield"]
        _, Hsh = __import__("pyvc.builtins", fromlist=["_hash_fns"])._hash_fns()
        key = Hsh(cx_ident_pair(cx, a))
        in_cache = z3.Select(cx.ghost["pre_cache_keys"], key)
        in_sol = z3.Select(cx.ghost["pre_solset"], key)
        yielded_ind = z3.BoolVal(len(yields) == 1 and yields[0] is ind)
        none_yielded = z3.BoolVal(len(yields) == 0)
        obl = []
        if self.float_mode == "real":
            # C02: whatever is yielded satisfies every hard constraint and every repetition bound
            return [("C02_yield_implies_all_satisfied", Implies(Not(none_yielded), And(H, R)))]
        obl = [
            ("C02_only_the_individual_is_yielded", Or(none_yielded, yielded_ind)),
            ("cached_entry_yields_nothing", Implies(in_cache, none_yielded)),
        ]
        if cx.ghost["case"] == "no_soft":
            # C03: a tree satisfying everything is accepted the first time it is seen
            obl.append(("C03_all_satisfied_implies_yield", Implies(And(H, R, Not(in_cache), Not(in_sol)), yielded_ind)))
        return obl

    def replay(self, obligation, model):
        from contracts import replay_evaluation
        return replay_evaluation.script(obligation, model)


@register
class Evaluator_evaluate_individual_real(Evaluator_evaluate_individual):
    """same function, relaxed float model: the `< 1.0 stays < 1.0` direction of C02"""
    key = "evolution/evaluation.py:Evaluator.evaluate_individual@real"
    float_mode = "real"
    properties = ("C02",)


def cx_ident_pair(cx, a):
    from pyvc.builtins import _hash_fns
    hp, _ = _hash_fns()
    ind = a["individual"]
    root = Tree_get_root.RootOf(ind.ident)
    return hp(root, hp(ind.ident, z3.IntVal(-1)))


@register
class DistanceAwareFitness_copy(Contract):
    """__copy__ of the comparison fitness keeps verdict, values and counters (the memo hit path of
    ComparisonConstraint.fitness returns copy(self.cache[...]))"""
    target = "constraints/fitness.py:DistanceAwareConstraintFitness.__copy__"
    properties = ("C02", "C07", "C11")
    float_mode = "real"

    def inputs(self, cx):
        from pyvc.lists import term_list
        s = SObj("DistanceAwareConstraintFitness", {}, fresh=False, label="self")
        n = cx.int("n_values", lo=0)
        s.fields["values"] = term_list(cx, "values", n, "float", fresh=False)
        s.fields["solved"] = cx.int("solved")
        s.fields["total"] = cx.int("total")
        s.fields["success"] = cx.bool("success")
        s.fields["failing_trees"] = cx.opaque_list(cx.int("nft", lo=0))
        s.fields["suggestion"] = cx.opaque("Suggestion")
        return {"self": s}

    def ensures(self, cx, a, r):
        s = a["self"]
        if not isinstance(r, SObj):
            return [("returns_object", z3.BoolVal(False))]
        nv = r.fields["values"]
        from pyvc.ops import list_len
        from pyvc.dsl import to_term_int
        return [
            ("fresh_object", z3.BoolVal(r is not s and r.fresh)),
            ("same_success", T(r.fields["success"]) == T(s.fields["success"])),
            ("same_number_of_values", to_term_int(list_len(nv)) == to_term_int(list_len(s.fields["values"]))),
            ("values_not_shared", z3.BoolVal(nv is not s.fields["values"])),
        ]


@register
class DistanceAwareFitness_fitness(Contract):
    """the override used by comparison constraints refines what callers assume about ConstraintFitness.fitness():
    with values in {0.0, 1.0} (what _evaluate_comparison returns: verified in contracts/constraints.py), solved = number of
    ones and total = number of values (how __init__ sets them), the mean is 1.0 exactly when all values are 1.0, lies in
    [0, 1] and is at most 1 - 2^-G otherwise (total <= 2^G)"""
    target = "constraints/fitness.py:DistanceAwareConstraintFitness.fitness"
    properties = ("C02", "C03")
    float_mode = "real"
    anchors = (1.0 - 2.0 ** -G, 1.0, 0.0)

    def inputs(self, cx):
        from pyvc.lists import term_list
        s = SObj("DistanceAwareConstraintFitness", {}, fresh=False, label="self")
        n = cx.int("n_values", lo=0, hi=2 ** G)
        vals = term_list(cx, "values", n, "float", fresh=False)
        s.fields["values"] = vals
        cx.ghost["vals"] = vals
        cx.ghost["n"] = n
        from pyvc import lemmas

        def on_sum(cx_, rec):
            cx_.ghost["count_fn"] = lemmas.float_sum01(cx_, rec)

        cx.ghost["on_sum"] = on_sum
        return {"self": s}

    def requires(self, cx, a):
        vals = cx.ghost["vals"]
        fn = vals.ghost["elem_term"][1]
        j = z3.Int("vj")
        n = cx.ghost["n"].term
        return [("values_are_zero_or_one", z3.ForAll([j], Implies(And(j >= 0, j < n), Or(fn(j) == 0, fn(j) == 1))))]

    def ensures(self, cx, a, r):
        from pyvc import lemmas
        sums = cx.ghost.get("sums", [])
        n = cx.ghost["n"].term
        f = as_float(r)
        if not sums:
            # no values: the method returns 0
            return [("empty_gives_zero", And(n == 0, feq(f, 0.0)))]
        C = cx.ghost["count_fn"]
        solved, total = C(n), n          # what DistanceAwareConstraintFitness.__init__ stores in solved / total
        full = And(total > 0, solved == total)
        return [
            ("one_iff_all_values_are_one", feq(f, 1.0) == full),
            ("in_unit_interval", And(fge(f, 0.0), fle(f, 1.0))),
            ("below_one_has_gap", Implies(Not(feq(f, 1.0)), fle(f, 1.0 - 2.0 ** -G))),
        ]
