"""Replay builders for the TreeValue contracts."""

TO_STRING = r'''#!/usr/bin/env python3
"""Replay of obligation
    {obligation}
str() of a value that holds text followed by a byte-aligned run of bits must be the Latin-1 decoding of bytes()
(where text is UTF-8 encoded).  Witness: text with a non-ASCII character + 8 bits.  Exit 1 = reproduced."""
import os, sys
sys.path.insert(0, os.path.join(os.environ.get("VERIF_REPO", "/repo"), "src"))
from fandango.language.tree_value import TreeValue
bad = []
for text in ("é", "€", "a"):
    bits = [0, 1, 0, 0, 0, 0, 0, 1]
    b = bytes(TreeValue(text, trailing_bits=list(bits)))
    want = b.decode("latin-1")
    try:
        got = str(TreeValue(text, trailing_bits=list(bits)))
    except Exception as e:
        got = f"<raises {{type(e).__name__}}>"
    print(repr(text), "+ 8 bits: bytes =", b, "| latin-1 of bytes =", repr(want), "| str =", repr(got))
    if got != want:
        bad.append(text)
if bad:
    print("VIOLATION reproduced: str() and bytes() disagree for", bad)
    sys.exit(1)
print("not reproduced")
'''


def to_string_script(obligation, model):
    return TO_STRING.format(obligation=obligation)
