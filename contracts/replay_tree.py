"""Replay builders for the tree contracts."""

SLICE = r'''#!/usr/bin/env python3
"""Replay of obligation
    {obligation}
A read-only accessor (slicing a tree) must not write any field of the tree it is applied to.  Exit 1 = reproduced."""
import os, sys
sys.path.insert(0, os.path.join(os.environ.get("VERIF_REPO", "/repo"), "src"))
from fandango.language.tree import DerivationTree
from fandango.language.symbols.non_terminal import NonTerminal
from fandango.language.symbols.terminal import Terminal

kids = [DerivationTree(NonTerminal("<a>"), [DerivationTree(Terminal("x"))]) for _ in range(3)]
t = DerivationTree(NonTerminal("<start>"), kids)
h0, s0 = hash(t), t.size()
view = t[0:2]
bad = [i for i, c in enumerate(t.children) if c.parent is not t]
print("children whose parent link no longer points to the tree after t[0:2]:", bad)
# consequence: an edit below such a child no longer invalidates the tree's cached hash / size
kids[0].add_child(DerivationTree(Terminal("y")))
fresh = DerivationTree(NonTerminal("<start>"), [c.deepcopy(copy_parent=False) for c in t.children])
stale = hash(t) != hash(fresh) or t.size() != fresh.size()
print("tree reports size", t.size(), "recomputed", fresh.size(), "| hash stale:", hash(t) != hash(fresh))
if bad or stale:
    print("VIOLATION reproduced: slicing re-parented the sliced children; later edits leave stale size/hash")
    sys.exit(1)
print("not reproduced")
'''


def slice_script(obligation, model):
    return SLICE.format(obligation=obligation)
