"""C20, receive-buffer lemmas only (the run loop, threads, sockets and timeouts are out of this family's reach).

The receive buffer of FandangoIO is a list of (sender, receiver, fragment) triples; here it is three parallel sequences.
  add_receive        appends the characters (bytes) of the message in order, one fragment each, tagged (sender, receiver);
                     the entries already in the buffer are untouched
  clear_by_party     keeps exactly the entries that are not (from `party_name` and at an index <= to_idx); the kept entries
                     are the original triples (relative order is that of the source list by construction of a filter)
  _find_next_fragment returns the first index >= start_idx whose sender is the requested one (and its fragment), or (-1, None)
`with self.receive_lock:` is treated as transparent: these are sequential lemmas; nothing is claimed about interleavings.
"""
from __future__ import annotations

import z3

from pyvc.dsl import And, Contract, ForAll, Implies, Loop, Not, Or, SBool, SInt, SList, SObj, SStr, T, cmp, idx_term, register, to_term_int
from pyvc.ops import str_term

SS = z3.SeqSort(z3.StringSort())
I = z3.IntSort()
Explode = z3.Function("ExplodePrefix", z3.StringSort(), I, SS)     # message, i -> the first i one-character fragments
Repeat = z3.Function("RepeatUnit", z3.StringSort(), I, SS)          # s, i -> [s] * i


def triple_list(cx, name, frag_kind="str", fresh=False):
    seqs = [z3.Const(f"{name}_senders", SS), z3.Const(f"{name}_receivers", SS), z3.Const(f"{name}_fragments", SS)]
    l = SList(None, length=SInt(z3.Length(seqs[0]), 0, None), fresh=fresh, label=name)
    l.ghost["tuple_seqs"] = seqs
    cx.assume(And(z3.Length(seqs[1]) == z3.Length(seqs[0]), z3.Length(seqs[2]) == z3.Length(seqs[0])))

    def elem(j, l=l):
        s = l.ghost["tuple_seqs"]
        jt = to_term_int(j)
        return (SStr(s[0][jt]), SStr(s[1][jt]), SStr(s[2][jt], frag_kind))

    l.elem = elem
    return l


def io_obj(cx, frag_kind="str"):
    io = SObj("FandangoIO", {}, fresh=False, label="self")
    io.ident = cx.const("io_id", I)
    io.fields["receive"] = triple_list(cx, "receive", frag_kind)
    io.fields["receive_lock"] = cx.opaque("Lock")
    return io


# ------------------------------------------------------------------------------------------------ add_receive

def _ar_havoc(cx, env, i):
    l = env["self"].fields["receive"]
    l.ghost["tuple_seqs"] = [z3.Const(cx._name(n), SS) for n in ("senders", "receivers", "fragments")]
    l.length = SInt(z3.Length(l.ghost["tuple_seqs"][0]), 0, None)
    msg = str_term(env["message"])
    it = idx_term(i)
    # recursive definitions of the ghost sequences, instance at the loop index
    cx.assume(Explode(msg, it + 1) == z3.Concat(Explode(msg, it), z3.Unit(z3.SubString(msg, it, 1))))
    for who in ("sender", "receiver"):
        w = str_term(env[who])
        cx.assume(Repeat(w, it + 1) == z3.Concat(Repeat(w, it), z3.Unit(w)))


def _ar_inv(cx, env, i):
    l = env["self"].fields["receive"]
    s = l.ghost["tuple_seqs"]
    s0 = cx.ghost["receive0"]
    it = idx_term(i) if not isinstance(i, int) else z3.IntVal(i)
    msg = str_term(env["message"])
    return [
        ("senders_are_old_plus_i_tags", s[0] == z3.Concat(s0[0], Repeat(str_term(env["sender"]), it))),
        ("receivers_are_old_plus_i_tags", s[1] == z3.Concat(s0[1], Repeat(str_term(env["receiver"]), it))),
        ("fragments_are_old_plus_first_i_characters", s[2] == z3.Concat(s0[2], Explode(msg, it))),
        ("i_fragments_so_far", z3.Length(Explode(msg, it)) == it),
    ]


@register
class IO_add_receive(Contract):
    target = "io/__init__.py:FandangoIO.add_receive"
    properties = ("C20",)
    float_mode = "real"
    cases = ("str", "bytes")
    loops = {
        0: Loop(0, iter_text="message", inv=_ar_inv, havoc=_ar_havoc, modifies=("self.receive", "fragment_int")),
        1: Loop(1, iter_text="message", inv=_ar_inv, havoc=_ar_havoc, modifies=("self.receive", "fragment_str")),
    }

    def inputs(self, cx, case):
        io = io_obj(cx, case)
        msg = cx.str("message", named=True, kind=case)
        sender, receiver = cx.str("sender", named=True), cx.str("receiver", named=True)
        cx.ghost["receive0"] = list(io.fields["receive"].ghost["tuple_seqs"])
        for w in (sender, receiver):
            cx.assume(Repeat(w.term, z3.IntVal(0)) == z3.Empty(SS))
        cx.assume(Explode(msg.term, z3.IntVal(0)) == z3.Empty(SS))
        if case == "bytes":
            # a bytes object is a sequence of code points < 256 (type invariant of the input)
            k = z3.Int("bk")
            cx.assume(ForAll([k], Implies(And(k >= 0, k < z3.Length(msg.term)), And(z3.StrToCode(z3.SubString(msg.term, k, 1)) >= 0, z3.StrToCode(z3.SubString(msg.term, k, 1)) <= 255))))
        return {"self": io, "sender": sender, "receiver": receiver, "message": msg}

    def ensures(self, cx, a, r):
        l = a["self"].fields["receive"]
        s = l.ghost["tuple_seqs"]
        s0 = cx.ghost["receive0"]
        msg = a["message"].term
        n = z3.Length(msg)
        return [
            ("one_fragment_per_character", z3.Length(s[2]) == z3.Length(s0[2]) + n),
            ("fragments_in_order", s[2] == z3.Concat(s0[2], Explode(msg, n))),
            ("all_tagged_with_sender", s[0] == z3.Concat(s0[0], Repeat(a["sender"].term, n))),
            ("all_tagged_with_receiver", s[1] == z3.Concat(s0[1], Repeat(a["receiver"].term, n))),
        ]


# ------------------------------------------------------------------------------------------------ clear_by_party

@register
class IO_clear_by_party(Contract):
    target = "io/__init__.py:FandangoIO.clear_by_party"
    properties = ("C20",)
    float_mode = "real"

    def inputs(self, cx):
        io = io_obj(cx)
        cx.ghost["receive0"] = io.fields["receive"]
        return {"self": io, "party_name": cx.str("party_name", named=True), "to_idx": cx.int("to_idx", named=True)}

    def ensures(self, cx, a, r):
        new = a["self"].fields["receive"]
        if not isinstance(new, SList) or "filter_of" not in new.ghost:
            return [("buffer_is_a_filter_of_the_old_buffer", z3.BoolVal(False))]
        f = new.ghost["filter_of"]
        j = f["index"]
        old = cx.ghost["receive0"]
        senders = old.ghost["tuple_seqs"][0]
        spec_keep = Not(And(senders[j] == a["party_name"].term, j <= to_term_int(a["to_idx"])))
        elt, at = f["elt"], f["elem_at_index"]
        src = f["src"]
        if "enumerate_of" in src.ghost:          # for idx, (sender, receiver, msg) in enumerate(self.receive)
            src = src.ghost["enumerate_of"]
            at = at[1] if isinstance(at, tuple) and len(at) == 2 else at
        same_triple = isinstance(elt, tuple) and len(elt) == 3 and all(isinstance(x, SStr) and isinstance(y, SStr) for x, y in zip(elt, at))
        eq = And(*[x.term == y.term for x, y in zip(elt, at)]) if same_triple else z3.BoolVal(False)
        n = z3.Length(senders)
        return [
            ("filters_the_old_buffer", z3.BoolVal(src is old)),
            ("keeps_exactly_the_entries_not_from_the_party_up_to_the_index", ForAll([j], Implies(And(j >= 0, j < n), f["keep"] == spec_keep))),
            ("kept_entries_are_unchanged", ForAll([j], Implies(And(j >= 0, j < n), eq))),
        ]


# ------------------------------------------------------------------------------------------------ _find_next_fragment

def _fn_inv(cx, env, i):
    msgs = env["messages"]
    senders = msgs.ghost["tuple_seqs"][0]
    start = to_term_int(env["start_idx"])
    it = idx_term(i) if not isinstance(i, int) else z3.IntVal(i)
    k = z3.Int(cx._name("k"))
    return [("no_match_before", ForAll([k], Implies(And(k >= start, k < start + it), senders[k] != str_term(env["role_sender"]))))]


@register
class IO_find_next_fragment(Contract):
    target = "io/packetparser.py:_find_next_fragment"
    properties = ("C20",)
    float_mode = "real"
    loops = {0: Loop(0, iter_text=None, inv=_fn_inv, havoc=lambda cx, env, i: None,
                     modifies=("idx", "sender", "recipient", "msg_fragment"))}

    def inputs(self, cx):
        msgs = triple_list(cx, "messages")
        return {"role_sender": cx.str("role_sender", named=True), "messages": msgs, "start_idx": cx.int("start_idx", lo=0, named=True)}

    def ensures(self, cx, a, r):
        senders, frags = a["messages"].ghost["tuple_seqs"][0], a["messages"].ghost["tuple_seqs"][2]
        n = z3.Length(senders)
        start = to_term_int(a["start_idx"])
        role = a["role_sender"].term
        if not (isinstance(r, tuple) and len(r) == 2):
            return [("returns_index_and_fragment", z3.BoolVal(False))]
        idx, frag = r
        k = z3.Int(cx._name("k"))
        it = to_term_int(idx)
        none_before = ForAll([k], Implies(And(k >= start, k < it), senders[k] != role))
        if frag is None:
            return [("minus_one_iff_no_fragment_of_the_sender_from_start", And(it == -1, ForAll([k], Implies(And(k >= start, k < n), senders[k] != role))))]
        return [("first_index_from_start_with_that_sender", And(it >= start, it < n, senders[it] == role, none_before)),
                ("returns_the_fragment_at_that_index", str_term(frag) == frags[it])]
