"""C01 / C16, grammar-fuzzing core: every `fuzz()` of language/grammar/nodes/*.py appends a derivation of its node.

Ghost vocabulary (uninterpreted; the clauses below are the DEFINITION of "derivation" as an inductive predicate; only the
introduction rules are used, each instantiated at the terms a proof needs):

  Derives(n, w)          the sequence w of tree nodes (their identities) spells out one expansion of grammar node n
  Sym(t), Kids(t)        symbol identity and children sequence of tree node t (Kids as of the end of the call)
  NodeAt(L, i)           identity of element i of the node list L
  CatUpTo(L, i, w)       w = w_0 ++ ... ++ w_{i-1} with Derives(NodeAt(L, j), w_j)
       CatUpTo(L, 0, [])                 CatUpTo(L, i, w) and Derives(NodeAt(L, i), w')  =>  CatUpTo(L, i+1, w ++ w')
       Derives(c, w)  <=  CatUpTo(nodes(c), len(nodes(c)), w)                                      (Concatenation c)
  Derives(a, w)  <=  Derives(NodeAt(alternatives(a), i), w) for some 0 <= i < len                  (Alternative a)
  RepUpTo(n, k, w)       w is k consecutive derivations of n
       RepUpTo(n, 0, [])                 RepUpTo(n, k, w) and Derives(n, w')  =>  RepUpTo(n, k+1, w ++ w')
       Derives(r, w)  <=  RepUpTo(body(r), k, w) and min(r) <= k <= max(r)                          (Repetition r, incl. * + ?)
  Derives(t, [leaf])  <=  Sym(leaf) = symbol(t) and Kids(leaf) = []                                (TerminalNode, literal)
  Derives(t, [leaf])  <=  Sym(leaf) = TerminalOf(v) and Matches(symbol(t), v) and Kids(leaf) = []  (TerminalNode, regex)
  Derives(n, [c])     <=  Sym(c) = symbol(n) and Derives(Rule(g, symbol(n)), Kids(c))              (NonTerminalNode)

Every fuzz() is verified against the abstract contract of Node.fuzz:
      children(parent) after  ==  children(parent) before ++ w     with   Derives(self, w)
under the precondition that the Gmutator probabilities of the node's settings are 0 (their default; with a positive
probability the code deliberately produces non-derivations).  Callees (`node.fuzz(...)` on a sub-node, `grammar[...]`)
enter through the same abstract contract, so the proof is by structural induction on the call depth (partial
correctness: termination of the recursion is not claimed).
"""
from __future__ import annotations

import z3

from pyvc.ctx import Unsupported
from pyvc.dsl import And, Contract, ForAll, Implies, Loop, Not, Or, SBool, SInt, SList, SObj, SOpaque, T, cmp, idx_term, register, to_term_int

import contracts.tree as tree_contracts  # noqa: F401  (call-site contracts of add_child / set_children)

I = z3.IntSort()
B = z3.BoolSort()
IS = z3.SeqSort(I)
EMPTY = z3.Empty(IS)

Derives = z3.Function("Derives", I, IS, B)
Sym = z3.Function("Sym", I, I)
KidsOf = z3.Function("KidsOf", I, IS)
NodeAt = z3.Function("NodeAt", I, I, I)
CatUpTo = z3.Function("CatUpTo", I, I, IS, B)
RepUpTo = z3.Function("RepUpTo", I, I, IS, B)
Rule = z3.Function("Rule", I, I, I)

NODES = "language/grammar/nodes"
GMUTATOR_KEYS = ("alternatives_should_concatenate", "plus_should_return_nothing", "option_should_return_multiple",
                 "terminal_should_repeat", "invert_regex", "non_terminal_use_other_rule")


def kids_list(cx, seq, label="children", added=()) -> SList:
    """list of tree nodes backed by a z3 Seq(Int) of their identities; `added` = the objects that entered through add_child"""
    l = SList(None, length=SInt(z3.Length(seq), 0, None), fresh=False, label=label)
    l.ghost["seq"] = seq
    l.ghost["added"] = list(added)

    def elem(j, seq=seq):
        o = SObj("DerivationTree", {}, fresh=False, label=f"{label}[{idx_term(j)}]")
        o.ident = seq[to_term_int(j)]
        o.fields["origin_repetitions"] = cx.opaque_list(cx.int("n_origin", lo=0))
        return o

    l.elem = elem
    l.ghost["seq_make"] = lambda sq, l=l: kids_list(cx, sq, label + "'", l.ghost.get("added", ()))
    return l


def parent_tree(cx, name="parent") -> SObj:
    t = SObj("DerivationTree", {}, fresh=False, label=name)
    t.ident = cx.const(name + "_id", I)
    seq0 = z3.Const(name + "_children0", IS)
    t.fields["_children"] = kids_list(cx, seq0)
    t.fields["_size"] = cx.int(name + "_size", lo=1)
    t.fields["hash_cache"] = None
    t.fields["_parent"] = None
    t.fields["@invalidated"] = False
    cx.ghost["kids0"] = seq0
    cx.ghost["inline_ok"] = set(tree_contracts.INLINE_OK)
    return t


def kids_seq(t: SObj):
    l = t.fields.get("_children")
    if isinstance(l, SList) and "seq" in l.ghost:
        return l.ghost["seq"]
    if isinstance(l, SList) and l.concrete and all(isinstance(x, SObj) and x.ident is not None for x in l.items):
        sq = EMPTY
        for x in l.items:
            sq = z3.Concat(sq, z3.Unit(x.ident)) if not sq.eq(EMPTY) else z3.Unit(x.ident)
        return sq
    return None


def settings_obj(cx) -> SOpaque:
    """NodeSettings whose Gmutator probabilities are 0 / False (the default)"""
    s = cx.opaque("NodeSettings")

    def get(interp, key, *rest):
        if isinstance(key, str) and key in GMUTATOR_KEYS:
            return False if key == "non_terminal_use_other_rule" else 0.0
        return cx.opaque("setting")

    s.attrs["methods"] = {"get": get}
    return s


def grammar_node(cx, cls: str, name: str, ident=None) -> SObj:
    n = SObj(cls, {}, fresh=False, label=name)
    n.ident = ident if ident is not None else cx.const(name + "_id", I)
    n.fields["distance_to_completion"] = cx.float(name + "_dtc")
    n.fields["_settings"] = settings_obj(cx)
    n.fields["_grammar_settings"] = cx.opaque("settings_list")
    return n


def node_list(cx, base: str, n: SInt) -> SList:
    lid = cx.const(base + "_listid", I)
    l = SList(None, length=n, fresh=False, label=base)
    l.ghost["ident"] = lid
    dtc = cx.func(base + "_dtc", I, z3.RealSort())

    def elem(j, lid=lid):
        o = SObj("Node", {}, fresh=False, label=f"{base}[{idx_term(j)}]")
        o.ident = NodeAt(lid, idx_term(j))
        from pyvc.values import SFloat
        o.fields["distance_to_completion"] = SFloat(dtc(idx_term(j)))
        o.fields["@eq_unknown"] = True          # a Node of unknown subclass: == is NonTerminalNode/TerminalNode.__eq__ or identity
        return o

    l.elem = elem
    return l


def same_obj(x, y):
    """z3 Bool: x and y denote the same object (by identity term where both have one)"""
    if x is y:
        return z3.BoolVal(True)
    ix, iy = getattr(x, "ident", None), getattr(y, "ident", None)
    if isinstance(x, SObj) and isinstance(y, SObj) and ix is not None and iy is not None and not (x.fresh or y.fresh):
        return ix == iy
    return z3.BoolVal(False)


def last_added(cx, parent: SObj, w):
    """the object whose add_child produced the last child, or None when nothing was added through add_child; raises
    Unsupported when the children changed in a way the contract cannot read"""
    kids = parent.fields.get("_children")
    added = kids.ghost.get("added") if isinstance(kids, SList) else None
    if added:
        return added[-1]         # that it IS the appended child is an obligation of its own (w[0] == its identity)
    if kids_seq(parent) is not None and not kids_seq(parent).eq(cx.ghost["kids0"]):
        raise Unsupported("the parent's children changed without add_child; the contract cannot name the new child")
    return None


def appended(cx, parent: SObj):
    """(name, formula) pairs: the children now are the old ones followed by a word w; returns (formulas, w)"""
    now = kids_seq(parent)
    k0 = cx.ghost["kids0"]
    if now is None:
        # the engine lost track of the children (not a property matter): undecided, never a violation
        raise Unsupported("the parent's children are no longer a sequence of identities the contract can read")
    w = z3.SubString(now, z3.Length(k0), z3.Length(now) - z3.Length(k0))
    return [("earlier_children_untouched", z3.PrefixOf(k0, now))], w


# ------------------------------------------------------------------------------------------------ Node.fuzz (abstract)

@register
class Node_fuzz(Contract):
    """abstract contract of Node.fuzz: appends a derivation of the node to parent's children"""
    target = f"{NODES}/node.py:Node.fuzz"
    properties = ("C01", "C16")
    float_mode = "real"
    float_abstract = True
    abstract = True

    def may_raise(self, cx, a):
        return [("FandangoValueError", None)]

    def effects(self, cx, a):
        parent, node = a["parent"], a["self"]
        seq = kids_seq(parent)
        if seq is None:
            from pyvc.ctx import Unsupported
            raise Unsupported("Node.fuzz on a parent whose children are not a sequence of identities")
        w = z3.Const(cx._name("w"), IS)
        cx.assume(Derives(node.ident, w))
        cx.log_write(parent, "_children")
        old = parent.fields.get("_children")
        parent.fields["_children"] = kids_list(cx, z3.Concat(seq, w), added=old.ghost.get("added", ()) if isinstance(old, SList) else ())
        parent.fields["_size"] = cx.int("size_after_fuzz", lo=1)
        parent.fields["hash_cache"] = None
        cx.ghost.setdefault("fuzz_words", []).append((node, w))

    def fresh_result(self, cx, a):
        return None


# ------------------------------------------------------------------------------------------------ Concatenation.fuzz

def _cat_havoc(cx, env, i):
    parent = env["parent"]
    w = z3.Const(cx._name("w_sofar"), IS)
    cx.ghost["cat_w"] = w
    parent.fields["_children"] = kids_list(cx, z3.Concat(cx.ghost["kids0"], w))
    parent.fields["_size"] = cx.int("size_sofar", lo=1)
    env["max_nodes"] = cx.int("max_nodes_sofar")
    env["prev_parent_size"] = cx.int("prev_size_sofar")


def _cat_inv(cx, env, i):
    parent = env["parent"]
    seq = kids_seq(parent)
    lid = env["self"].fields["nodes"].ghost["ident"]
    it = idx_term(i) if not isinstance(i, int) else z3.IntVal(i)
    if seq is None:
        raise Unsupported("the parent's children are no longer a sequence of identities the contract can read")
    k0 = cx.ghost["kids0"]
    w = z3.SubString(seq, z3.Length(k0), z3.Length(seq) - z3.Length(k0))
    return [("earlier_children_untouched", z3.PrefixOf(k0, seq)),
            ("appended_so_far_derives_the_first_i_nodes", CatUpTo(lid, it, w))]


def _dist_havoc(cx, env, i):
    env["reserved_distance"] = cx.float("reserved_distance_sofar")


@register
class Concatenation_fuzz(Contract):
    target = f"{NODES}/concatenation.py:Concatenation.fuzz"
    properties = ("C01",)
    float_mode = "real"
    float_abstract = True      # distance_to_completion / node budgets only steer the choice of expansions
    loops = {
        0: Loop(0, iter_text="self.nodes", inv=_cat_inv, havoc=_cat_havoc,
                modifies=("node", "max_nodes", "prev_parent_size", "reserved_distance", "dist_node", "parent._children", "parent._size", "parent.hash_cache")),
        # the inner loop only computes the node budget handed to the callee (no effect on what is derived)
        1: Loop(1, iter_text="self.nodes", inv=lambda cx, env, i: [], havoc=_dist_havoc, modifies=("reserved_distance", "dist_node")),
    }
    loops_by_text = {}

    def inputs(self, cx):
        s = grammar_node(cx, "Concatenation", "self")
        s.fields["nodes"] = node_list(cx, "nodes", cx.int("n_nodes", lo=0))
        lid = s.fields["nodes"].ghost["ident"]
        # definition of CatUpTo / Derives for a concatenation (introduction rules, all instances)
        cx.assume(CatUpTo(lid, 0, EMPTY))
        i, w, w2 = z3.Int("def_i"), z3.Const("def_w", IS), z3.Const("def_w2", IS)
        cx.assume(ForAll([i, w, w2], Implies(And(i >= 0, CatUpTo(lid, i, w), Derives(NodeAt(lid, i), w2)), CatUpTo(lid, i + 1, z3.Concat(w, w2))),
                         patterns=[z3.MultiPattern(CatUpTo(lid, i, w), Derives(NodeAt(lid, i), w2))]))
        n = to_term_int(s.fields["nodes"].length)
        cx.assume(ForAll([w], Implies(CatUpTo(lid, n, w), Derives(s.ident, w)), patterns=[CatUpTo(lid, n, w)]))
        return {"self": s, "parent": parent_tree(cx), "grammar": cx.opaque("Grammar"), "max_nodes": cx.int("max_nodes"), "in_message": cx.bool("in_message")}

    def ensures(self, cx, a, r):
        fs, w = appended(cx, a["parent"])
        return fs + [("appended_children_derive_the_concatenation", Derives(a["self"].ident, w))]


# ------------------------------------------------------------------------------------------------ Alternative.fuzz

@register
class Alternative_fuzz(Contract):
    target = f"{NODES}/alternative.py:Alternative.fuzz"
    properties = ("C01",)
    float_mode = "real"
    float_abstract = True

    def inputs(self, cx):
        s = grammar_node(cx, "Alternative", "self")
        s.fields["alternatives"] = node_list(cx, "alternatives", cx.int("n_alternatives", lo=0))
        lid = s.fields["alternatives"].ghost["ident"]
        n = to_term_int(s.fields["alternatives"].length)
        i, w = z3.Int("def_i"), z3.Const("def_w", IS)
        # definition: a word derived by one of the listed alternatives is derived by the alternative node
        cx.assume(ForAll([i, w], Implies(And(i >= 0, i < n, Derives(NodeAt(lid, i), w)), Derives(s.ident, w)), patterns=[Derives(NodeAt(lid, i), w)]))
        cx.ghost["inline_ok_extra"] = True
        a = {"self": s, "parent": parent_tree(cx), "grammar": cx.opaque("Grammar"), "max_nodes": cx.int("max_nodes"), "in_message": cx.bool("in_message")}
        cx.ghost["inline_ok"].add(f"{NODES}/node.py:Node.settings")
        return a

    def ensures(self, cx, a, r):
        fs, w = appended(cx, a["parent"])
        return fs + [("appended_children_derive_one_alternative", Derives(a["self"].ident, w))]


# ------------------------------------------------------------------------------------------------ Repetition.fuzz (and * + ?)

def rep_definitions(cx, s: SObj, body: SObj, lo, hi):
    """RepUpTo for the body of repetition `s`, and Derives(s, w) <= RepUpTo(body, k, w) with lo <= k <= hi"""
    b = body.ident
    cx.assume(RepUpTo(b, 0, EMPTY))
    k, w, w2 = z3.Int("def_k"), z3.Const("def_w", IS), z3.Const("def_w2", IS)
    cx.assume(ForAll([k, w, w2], Implies(And(k >= 0, RepUpTo(b, k, w), Derives(b, w2)), RepUpTo(b, k + 1, z3.Concat(w, w2))),
                     patterns=[z3.MultiPattern(RepUpTo(b, k, w), Derives(b, w2))]))
    cx.assume(ForAll([k, w], Implies(And(RepUpTo(b, k, w), k >= lo, k <= hi), Derives(s.ident, w)), patterns=[RepUpTo(b, k, w)]))


def _rep_havoc(cx, env, i):
    parent = env["parent"]
    w = z3.Const(cx._name("w_sofar"), IS)
    parent.fields["_children"] = kids_list(cx, z3.Concat(cx.ghost["kids0"], w))
    parent.fields["_size"] = cx.int("size_sofar", lo=1)
    env["max_nodes"] = cx.int("max_nodes_sofar")
    env["prev_parent_size"] = cx.int("prev_size_sofar")
    env["prev_children_len"] = SInt(z3.Length(kids_seq(parent)), 0, None)
    env["reserved_max_nodes"] = cx.float("reserved_sofar")


def _rep_inv(cx, env, i):
    parent = env["parent"]
    seq = kids_seq(parent)
    body = env["self"].fields["node"]
    it = idx_term(i) if not isinstance(i, int) else z3.IntVal(i)
    if seq is None:
        raise Unsupported("the parent's children are no longer a sequence of identities the contract can read")
    k0 = cx.ghost["kids0"]
    w = z3.SubString(seq, z3.Length(k0), z3.Length(seq) - z3.Length(k0))
    return [("earlier_children_untouched", z3.PrefixOf(k0, seq)),
            ("appended_so_far_is_i_derivations_of_the_body", RepUpTo(body.ident, it, w)),
            ("prev_children_len_is_current_length", to_term_int(env["prev_children_len"]) == z3.Length(seq))]


def _tag_havoc(cx, env, i):
    pass


class _RepetitionBase(Contract):
    properties = ("C01",)
    float_mode = "real"
    float_abstract = True
    cls = "Repetition"
    lo_hi = None       # fixed bounds of the subclass, or None: symbolic min / _max
    cases = ("bounded", "open")        # `{n,m}` / `{n,}`: without an upper bound the cap is the module global MAX_REPETITIONS

    def mk_self(self, cx, case="bounded"):
        s = grammar_node(cx, self.cls, "self")
        body = SObj("Node", {}, fresh=False, label="self.node")
        body.ident = cx.const("body_id", I)
        body.fields["distance_to_completion"] = cx.float("body_dtc")
        body.fields["@eq_unknown"] = True
        s.fields["node"] = body
        s.fields["id"] = cx.str("rep_id", named=True)
        s.fields["iteration"] = cx.int("iteration", lo=0)
        s.fields["bounds_constraint"] = None
        if self.lo_hi is None:
            s.fields["min"] = cx.int("rep_min", lo=0)
            cap = cx.int("rep_max", lo=1)
            cx.assume(to_term_int(cap) >= to_term_int(s.fields["min"]))       # checked by Repetition.__init__
            if case == "open":
                s.fields["_max"] = None
                cx.ghost.setdefault("module_attrs", {})["nodes.MAX_REPETITIONS"] = lambda cx_, cap=cap: cap
            else:
                s.fields["_max"] = cap
            lo, hi = to_term_int(s.fields["min"]), to_term_int(cap)
        else:
            lo, hi = self.lo_hi
            s.fields["min"] = lo
            s.fields["_max"] = hi
            lo, hi = z3.IntVal(lo), z3.IntVal(hi)
        rep_definitions(cx, s, body, lo, hi)
        return s

    def inputs(self, cx, case="bounded"):
        s = self.mk_self(cx, case)
        a = {"self": s, "parent": parent_tree(cx), "grammar": cx.opaque("Grammar"), "max_nodes": cx.int("max_nodes"), "in_message": cx.bool("in_message"),
             "override_current_iteration": None, "override_starting_repetition": 0, "override_iterations_to_perform": None}
        cx.ghost["inline_ok"].add(f"{NODES}/node.py:Node.settings")
        cx.ghost["inline_ok"].add(f"{NODES}/repetition.py:Repetition.max")
        return a

    def requires(self, cx, a):
        # the override parameters (used by the repetition repair to fuzz single iterations) are outside this contract
        return [("no_iteration_overrides", z3.BoolVal(a.get("override_current_iteration") is None and a.get("override_iterations_to_perform") is None
                                                      and a.get("override_starting_repetition") == 0))]

    # call-site direction (super().fuzz(...) of * + ?): the verified postcondition
    def may_raise(self, cx, a):
        return [("FandangoValueError", None)]

    def effects(self, cx, a):
        Node_fuzz().effects(cx, a)

    def fresh_result(self, cx, a):
        return None

    def ensures(self, cx, a, r):
        if cx.ghost.get("call_site"):
            return []
        fs, w = appended(cx, a["parent"])
        return fs + [("appended_children_are_min_to_max_derivations_of_the_body", Derives(a["self"].ident, w))]


@register
class Repetition_fuzz(_RepetitionBase):
    target = f"{NODES}/repetition.py:Repetition.fuzz"
    loops = {
        0: Loop(0, iter_text="range(rep_goal)", inv=_rep_inv, havoc=_rep_havoc,
                modifies=("rep", "current_rep", "max_nodes", "prev_parent_size", "prev_children_len", "reserved_max_nodes", "child",
                          "parent._children", "parent._size", "parent.hash_cache")),
        # tagging the children appended by this iteration with (id, iteration, rep): writes only their origin_repetitions
        1: Loop(1, iter_text="parent.children[prev_children_len:]", inv=lambda cx, env, i: [], havoc=_tag_havoc, modifies=("child",)),
    }


@register
class Plus_fuzz(_RepetitionBase):
    """`+`: either nothing is done (Gmutator, probability 0) or Repetition.fuzz with min 1 and no upper bound"""
    target = f"{NODES}/repetition.py:Plus.fuzz"
    cls = "Plus"
    cases = ("open",)

    def mk_self(self, cx, case="open"):
        s = super().mk_self(cx, "open")
        cx.assume(to_term_int(s.fields["min"]) == 1)          # Plus.__init__: min_=1
        return s


@register
class Option_fuzz(_RepetitionBase):
    """`?`: Repetition.fuzz with min 0, max 1 (the Gmutator branch that repeats at least twice has probability 0)"""
    target = f"{NODES}/repetition.py:Option.fuzz"
    cls = "Option"
    cases = ("bounded",)

    def mk_self(self, cx, case="bounded"):
        s = super().mk_self(cx, "bounded")
        cx.assume(And(to_term_int(s.fields["min"]) == 0, to_term_int(s.fields["_max"]) == 1))      # Option.__init__: min_=0, max_=1
        return s


# ------------------------------------------------------------------------------------------------ TerminalNode.fuzz

import contracts.tree_value as tv  # noqa: E402  (TreeValue model: payload + trailing bits; verified to_string contract; codecs)
from pyvc.ops import str_term  # noqa: E402
from pyvc.values import SStr  # noqa: E402

Matches = z3.Function("RegexMatches", z3.StringSort(), z3.StringSort(), B)       # (pattern text, candidate text)


def terminal_symbol(cx, case: str) -> SObj:
    """literal: any Terminal;  regex_str / regex_bytes: a regex Terminal whose TreeValue is pure text / pure bytes"""
    sym = SObj("Terminal", {}, fresh=False, label="self.symbol")
    sym.ident = cx.const("symbol_id", I)
    sym.fields["_is_regex"] = case != "literal"
    sym.fields["@hash"] = SInt(sym.ident)
    if case != "literal":
        val = tv.tree_value(cx, "pattern", "str" if case == "regex_str" else "bytes")
        cx.assume(z3.Length(tv.view(val)[2]) == 0)          # a literal written in a spec carries no trailing bits
        val.fields["_trailing_bits"] = SList([])
        sym.fields["_value"] = val
    return sym


def _exrex_getone(cx):
    """trusted: exrex.getone(p) returns some text that matches p"""
    def getone(interp, pattern, *rest, **kw):
        s = cx.str("generated", named=True)
        cx.assume(Matches(str_term(pattern), s.term))
        cx.ghost.setdefault("exrex", []).append((pattern, s))
        return s
    return SOpaque("function", attrs={"callable": getone})


@register
class TerminalNode_fuzz(Contract):
    """literal: one leaf carrying the terminal's own symbol;  regex: one leaf Terminal(v) where v is a text matching the
    pattern (str regex) or the Latin-1 encoding of a text matching the Latin-1 decoding of the pattern (bytes regex) --
    the same reading of bytes patterns as Terminal.check, which decodes both sides with Latin-1"""
    target = f"{NODES}/terminal.py:TerminalNode.fuzz"
    properties = ("C01",)
    float_mode = "real"
    float_abstract = True
    cases = ("literal", "regex_str", "regex_bytes")

    def inputs(self, cx, case):
        tv.setup(cx)
        inl = set(cx.ghost["inline_ok"])
        s = grammar_node(cx, "TerminalNode", "self")
        s.fields["symbol"] = terminal_symbol(cx, case)
        a = {"self": s, "parent": parent_tree(cx), "grammar": cx.opaque("Grammar"), "max_nodes": cx.int("max_nodes"), "in_message": cx.bool("in_message")}
        cx.ghost["inline_ok"] |= inl | {f"{NODES}/node.py:Node.settings", "language/symbols/symbol.py:Symbol.is_regex", "language/symbols/symbol.py:Symbol.is_type",
                                        "language/symbols/symbol.py:Symbol.value", "language/tree_value.py:TreeValue.__str__"}
        cx.ghost.setdefault("module_attrs", {})["exrex.getone"] = _exrex_getone
        cx.ghost["case"] = case
        return a

    def ensures(self, cx, a, r):
        fs, w = appended(cx, a["parent"])
        sym = a["self"].fields["symbol"]
        case = cx.ghost["case"]
        out = fs + [("exactly_one_leaf_appended", z3.Length(w) == 1)]
        new = last_added(cx, a["parent"], w)
        if new is None:
            return out           # nothing was appended: `exactly_one_leaf_appended` fails
        out.append(("appended_leaf_is_the_new_tree", w[0] == new.ident))
        out.append(("leaf_has_no_children", z3.BoolVal(_no_children(new))))
        leaf_sym = new.fields.get("_symbol")
        if case == "literal":
            out.append(("leaf_carries_the_terminal_symbol", same_obj(leaf_sym, sym)))
            return out
        gen = cx.ghost.get("exrex", [])
        if not (isinstance(leaf_sym, SObj) and leaf_sym.cls == "Terminal" and isinstance(leaf_sym.fields.get("_value"), SObj) and len(gen) == 1):
            raise Unsupported("regex terminal: the leaf is not Terminal(<one text generated by exrex.getone>) in a form the contract can read")
        pattern, text = gen[0]
        kind, payload, bits = tv.view(leaf_sym.fields["_value"])
        p0 = tv.view(sym.fields["_value"])[1]
        out.append(("leaf_value_has_no_trailing_bits", z3.Length(bits) == 0))
        if case == "regex_str":
            out.append(("generated_from_the_pattern_itself", str_term(pattern) == p0))
            out.append(("leaf_value_is_the_generated_text", z3.BoolVal(kind == "str") if kind != "str" else payload == text.term))
        else:
            out.append(("generated_from_the_latin1_decoding_of_the_pattern", str_term(pattern) == tv.hom(tv.Linv, p0, tv.EMPTY_STR, tv.EMPTY_STR)))
            out.append(("leaf_value_is_the_latin1_encoding_of_the_generated_text",
                        z3.BoolVal(False) if kind != "bytes" else payload == tv.hom(tv.L, text.term, tv.EMPTY_STR, tv.EMPTY_STR)))
        return out


def _no_children(t: SObj) -> bool:
    kids = t.fields.get("_children")
    return isinstance(kids, SList) and kids.concrete and not kids.items


# ------------------------------------------------------------------------------------------------ NonTerminalNode.fuzz

InGrammar = z3.Function("InGrammar", I, I, B)
UsesGenerator = z3.Function("UsesGenerator", I, I, B)
NTNode = z3.Function("NTNodeOf", I, I)              # identity of NonTerminalNode(symbol)
DepAt = z3.Function("GeneratorDependencyAt", I, I, I)   # (symbol, j) -> j-th dependency symbol in the iteration order of the call
Generated = z3.Function("Generated", I, I, IS, I)   # grammar.generate(symbol, parameters): identity of the returned tree
GRAMMAR = "language/grammar/grammar.py"


def grammar_obj(cx) -> SObj:
    g = SObj("Grammar", {}, fresh=False, label="grammar")
    g.ident = cx.const("grammar_id", I)
    return g


def nonterminal_symbol(cx, name="self.symbol", ident=None) -> SObj:
    s = SObj("NonTerminal", {}, fresh=False, label=name)
    s.ident = ident if ident is not None else cx.const("symbol_id", I)
    s.fields["@hash"] = SInt(s.ident)
    return s


@register
class Grammar_contains(Contract):
    """assumed: `symbol in grammar` is a function of grammar and symbol"""
    target = f"{GRAMMAR}:Grammar.__contains__"
    trusted = True

    def fresh_result(self, cx, a):
        return SBool(InGrammar(a["self"].ident, a["item"].ident))


@register
class Grammar_getitem(Contract):
    """assumed: grammar[symbol] is the rule node of that symbol (KeyError for unknown symbols)"""
    target = f"{GRAMMAR}:Grammar.__getitem__"
    trusted = True

    def may_raise(self, cx, a):
        return [("KeyError", Not(InGrammar(a["self"].ident, a["item"].ident)))]

    def fresh_result(self, cx, a):
        n = SObj("Node", {}, fresh=False, label="grammar[symbol]")
        n.ident = Rule(a["self"].ident, a["item"].ident)
        n.fields["@eq_unknown"] = True
        return n


@register
class Grammar_is_use_generator(Contract):
    """assumed: a pure function of grammar and the tree's symbol and position (the tree here is a fresh, parentless dummy)"""
    target = f"{GRAMMAR}:Grammar.is_use_generator"
    trusted = True

    def fresh_result(self, cx, a):
        t = a["tree"]
        sym = t.fields.get("_symbol") if isinstance(t, SObj) else None
        if sym is None or getattr(sym, "ident", None) is None:
            return cx.bool("is_use_generator")          # a tree the contract knows nothing about: any answer
        return SBool(UsesGenerator(a["self"].ident, sym.ident))


@register
class Grammar_generator_dependencies(Contract):
    """assumed: the dependencies of a generator are a collection of nonterminal symbols determined by grammar and symbol;
    DepAt(symbol, j) names the j-th one in the iteration order of this call"""
    target = f"{GRAMMAR}:Grammar.generator_dependencies"
    trusted = True

    def fresh_result(self, cx, a):
        sym = a["symbol"]
        n = cx.int("n_dependencies", lo=0)
        l = SList(None, length=n, fresh=True, label="dependencies", kind="set")
        l.elem = lambda j, sym=sym: nonterminal_symbol(cx, f"dependency[{idx_term(j)}]", DepAt(sym.ident, idx_term(j)))
        cx.ghost["dependencies"] = l
        return l


@register
class NonTerminalNode_new(Contract):
    """NonTerminalNode(symbol, settings): assumed to build the node of that symbol with the grammar's settings (Gmutator
    probabilities 0, like every node of the grammar)"""
    target = f"{NODES}/non_terminal.py:NonTerminalNode.__new__"
    trusted = True

    def fresh_result(self, cx, a):
        pos = a.get("args") or ()
        sym = pos[0] if pos else a.get("kwargs").concrete.get("symbol")
        n = grammar_node(cx, "NonTerminalNode", "NonTerminalNode(symbol)", ident=NTNode(sym.ident))
        n.fresh = True
        n.fields["symbol"] = sym
        n.fields["sender"] = None
        n.fields["recipient"] = None
        return n


@register
class Grammar_generate(Contract):
    """assumed (C04 territory: the generator's output is parsed with the grammar): returns a new tree for `symbol` that is
    a function of grammar, symbol and the parameter trees"""
    target = f"{GRAMMAR}:Grammar.generate"
    trusted = True

    def may_raise(self, cx, a):
        return [("FandangoParseError", None), ("TypeError", None)]

    def fresh_result(self, cx, a):
        from pyvc.lists import heap_list
        params = a["sources"]
        pseq = params.ghost.get("seq") if isinstance(params, SList) else None
        if pseq is None:
            pseq = kids_seq(SObj("tmp", {"_children": params})) if isinstance(params, SList) else None
        if pseq is None:
            from pyvc.ctx import Unsupported
            raise Unsupported("grammar.generate with parameters that are not a sequence of trees")
        t = SObj("DerivationTree", {}, fresh=True, label="generated")
        t.ident = Generated(a["self"].ident, a["symbol"].ident, pseq)
        t.fields["_symbol"] = a["symbol"]
        t.fields["_children"] = heap_list(cx, "generated_children", cx.int("n_generated_children", lo=0), "DerivationTree", {"read_only": "bool"})
        t.fields["_sources"] = cx.opaque_list(cx.int("n_generated_sources", lo=0))
        t.fields["_sender"] = None
        t.fields["_recipient"] = None
        t.fields["_parent"] = None
        t.fields["_size"] = cx.int("generated_size", lo=1)
        t.fields["hash_cache"] = None
        t.fields["read_only"] = False
        t.fields["@invalidated"] = False
        cx.ghost["generated"] = (t, pseq)
        return t


@register
class Tree_set_all_read_only(Contract):
    """assumed: sets the flag on the receiver (and, recursively, on its children and sources); writes nothing else"""
    target = "language/tree.py:DerivationTree.set_all_read_only"
    trusted = True

    def effects(self, cx, a):
        a["self"].fields["read_only"] = a["read_only"]

    def fresh_result(self, cx, a):
        return None


@register
class NonTerminalNode_fuzz(Contract):
    """plain rule: one new child c with symbol(c) = the node's symbol whose children derive the rule of that symbol.
    generator rule (C16): the appended child IS the tree returned by grammar.generate(symbol, parameters), where the
    parameters are the trees fuzzed for the generator's dependencies, in iteration order; its children are marked read-only."""
    target = f"{NODES}/non_terminal.py:NonTerminalNode.fuzz"
    properties = ("C01", "C16")
    float_mode = "real"
    float_abstract = True
    cases = ("plain", "generator")
    loops = {
        0: Loop(0, iter_text="dependencies", inv=lambda cx, env, i: _dep_inv(cx, env, i), havoc=lambda cx, env, i: _dep_havoc(cx, env, i),
                modifies=("nt", "dummy_current_tree._children", "dummy_current_tree._size", "dummy_current_tree.hash_cache")),
        # detaching the parameter trees from the dummy node: writes only their parent links
        1: Loop(1, iter_text="parameters", inv=lambda cx, env, i: [], havoc=lambda cx, env, i: None, modifies=("p",)),
        2: Loop(2, iter_text="generated.children", inv=lambda cx, env, i: _ro_inv(cx, env, i), havoc=lambda cx, env, i: _ro_havoc(cx, env, i),
                modifies=("child", "generated._children")),
    }

    def inputs(self, cx, case):
        s = grammar_node(cx, "NonTerminalNode", "self")
        s.fields["symbol"] = nonterminal_symbol(cx)
        s.fields["sender"] = cx.opaque("str", base="node_sender", maybe_none=cx.bool("node_sender_none").term)
        s.fields["recipient"] = cx.opaque("str", base="node_recipient", maybe_none=cx.bool("node_recipient_none").term)
        g = grammar_obj(cx)
        cx.assume(UsesGenerator(g.ident, s.fields["symbol"].ident) == z3.BoolVal(case != "plain"))
        a = {"self": s, "parent": parent_tree(cx), "grammar": g, "max_nodes": cx.int("max_nodes"), "in_message": cx.bool("in_message")}
        cx.ghost["inline_ok"] |= {f"{NODES}/node.py:Node.settings"}
        cx.ghost["case"] = case
        return a

    # call-site direction (the recursive calls for generator dependencies)
    def may_raise(self, cx, a):
        return [("FandangoValueError", None)]

    def effects(self, cx, a):
        Node_fuzz().effects(cx, a)
        node, w = cx.ghost["fuzz_words"][-1]
        cx.assume(z3.Length(w) == 1)

    def fresh_result(self, cx, a):
        return None

    def ensures_raise(self, cx, a, exc):
        if cx.ghost.get("call_site"):
            return []
        return []

    def ensures(self, cx, a, r):
        if cx.ghost.get("call_site"):
            return []
        fs, w = appended(cx, a["parent"])
        sym = a["self"].fields["symbol"]
        g = a["grammar"]
        out = fs + [("exactly_one_child_appended", z3.Length(w) == 1)]
        new = last_added(cx, a["parent"], w)
        if new is None:
            return out           # nothing was appended: `exactly_one_child_appended` fails
        out.append(("appended_child_is_the_new_tree", w[0] == new.ident))
        if cx.ghost["case"] == "plain":
            out.append(("child_carries_the_nonterminal", same_obj(new.fields.get("_symbol"), sym)))
            ks = kids_seq(new)
            if ks is None:
                raise Unsupported("the new child's children are not a sequence of identities the contract can read")
            out.append(("children_of_the_child_derive_the_rule_of_the_symbol", Derives(Rule(g.ident, sym.ident), ks)))
            out.append(("symbol_is_defined_in_the_grammar", InGrammar(g.ident, sym.ident)))
            return out
        # generator rule (C16)
        gen = cx.ghost.get("generated")
        if gen is None:
            raise Unsupported("generator rule: Grammar.generate was not called; the contract cannot read where the child comes from")
        out.append(("child_is_the_tree_returned_by_the_generator", z3.BoolVal(new is gen[0])))
        if new is not gen[0]:
            return out
        t, params = gen
        deps = cx.ghost.get("dependencies")
        if deps is None:
            raise Unsupported("generator rule: Grammar.generator_dependencies was not called; the contract cannot relate parameters to dependencies")
        n = to_term_int(deps.length)
        j = z3.Int(cx._name("pj"))
        out.append(("one_parameter_tree_per_dependency", z3.Length(params) == n))
        out.append(("parameter_j_is_a_derivation_of_dependency_j",
                    ForAll([j], Implies(And(j >= 0, j < n), Derives(NTNode(DepAt(sym.ident, j)), z3.Unit(params[j]))))))
        kids = t.fields.get("_children")
        if isinstance(kids, SList) and "arrays" in kids.ghost:
            ro = kids.ghost["arrays"]["read_only"][1]
            out.append(("generated_children_are_read_only", ForAll([j], Implies(And(j >= 0, j < to_term_int(kids.length)), ro[j]))))
        else:
            raise Unsupported("the generated tree's children are not the heap list the contract of Grammar.generate returns")
        out.append(("generated_tree_carries_the_parties_of_the_node",
                    z3.BoolVal(t.fields.get("_sender") is a["self"].fields["sender"] and t.fields.get("_recipient") is a["self"].fields["recipient"])))
        return out


def _dep_havoc(cx, env, i):
    d = env["dummy_current_tree"]
    w = z3.Const(cx._name("params_sofar"), IS)
    d.fields["_children"] = kids_list(cx, w, "dummy.children")
    d.fields["_size"] = cx.int("dummy_size_sofar", lo=1)
    d.fields["hash_cache"] = None


def _dep_inv(cx, env, i):
    d = env["dummy_current_tree"]
    seq = kids_seq(d)
    sym = env["self"].fields["symbol"]
    it = idx_term(i) if not isinstance(i, int) else z3.IntVal(i)
    if seq is None:
        raise Unsupported("the dummy node's children are no longer a sequence of identities the contract can read")
    j = z3.Int(cx._name("dj"))
    return [("one_parameter_per_dependency_so_far", z3.Length(seq) == it),
            ("parameter_j_is_a_derivation_of_dependency_j", ForAll([j], Implies(And(j >= 0, j < it), Derives(NTNode(DepAt(sym.ident, j)), z3.Unit(seq[j])))))]


def _ro_havoc(cx, env, i):
    kids = env["generated"].fields["_children"]
    kids.ghost["arrays"]["read_only"] = ("bool", z3.Array(cx._name("read_only_sofar"), I, B))


def _ro_inv(cx, env, i):
    kids = env["generated"].fields["_children"]
    if not (isinstance(kids, SList) and "arrays" in kids.ghost):
        raise Unsupported("the generated tree's children are not the heap list the contract of Grammar.generate returns")
    ro = kids.ghost["arrays"]["read_only"][1]
    it = idx_term(i) if not isinstance(i, int) else z3.IntVal(i)
    j = z3.Int(cx._name("rj"))
    return [("first_i_children_are_read_only", ForAll([j], Implies(And(j >= 0, j < it), ro[j])))]


# ------------------------------------------------------------------------------------------------ Grammar.fuzz

@register
class Grammar_fuzz(Contract):
    """the tree returned for `start` is the one child appended by NonTerminalNode(start).fuzz: a derivation of the start
    symbol (by the contract above: it carries `start` and its children derive the rule of `start`), detached from its
    temporary parent"""
    target = f"{GRAMMAR}:Grammar.fuzz"
    properties = ("C01",)
    float_mode = "real"
    float_abstract = True
    cases = ("new_root", "prefix_node")

    def inputs(self, cx, case):
        g = grammar_obj(cx)
        g.fields["_grammar_settings"] = cx.opaque("settings_list")
        start = nonterminal_symbol(cx, "start")
        a = {"self": g, "start": start, "max_nodes": cx.int("max_nodes"), "prefix_node": None if case == "new_root" else parent_tree(cx, "prefix_node")}
        if case == "new_root":
            cx.ghost["inline_ok"] = set(tree_contracts.INLINE_OK)
            cx.ghost["kids0"] = EMPTY
        cx.ghost["case"] = case
        return a

    # call-site direction: a new detached tree for the start symbol
    def may_raise(self, cx, a):
        return [("FandangoValueError", None)]

    def fresh_result(self, cx, a):
        start = a["start"]
        return tree_contracts.plain_tree(cx, "fuzzed", fresh=True, symbol_obj=start if isinstance(start, SObj) else None)

    def ensures(self, cx, a, r):
        if cx.ghost.get("call_site"):
            return []
        words = cx.ghost.get("fuzz_words", [])
        if not (isinstance(r, SObj) and r.cls == "DerivationTree" and len(words) == 1):
            raise Unsupported("Grammar.fuzz: the result is not read off one fuzz() call of a start node in a form the contract can read")
        out = []
        node, w = words[0]
        out.append(("start_node_is_the_node_of_the_start_symbol", node.ident == NTNode(a["start"].ident)))
        out.append(("result_is_the_appended_derivation", And(z3.Length(w) == 1, r.ident == w[0])))
        out.append(("result_is_detached", z3.BoolVal(r.fields.get("_parent") is None)))
        return out


# ------------------------------------------------------------------------------------------------ Grammar.generate (C16)

GenSources = z3.Function("GeneratorArguments", I, I, IS, IS)      # (grammar, symbol, parameters) -> the argument trees actually used
GenValue = z3.Function("GeneratorValue", I, I, IS, I)             # identity of the value the generator expression returned
ParseOf = z3.Function("ParseOf", I, I, I, I)                      # (grammar, value, start symbol) -> identity of the parse tree
ParseFails = z3.Function("ParseFails", I, I, I, B)


@register
class Grammar_generate_string(Contract):
    """assumed: evaluates the generator expression of `symbol` on the given parameter trees; returns (argument trees used, value)"""
    target = f"{GRAMMAR}:Grammar.generate_string"
    trusted = True

    def may_raise(self, cx, a):
        return [("FandangoValueError", None), ("ValueError", None), ("Exception", None)]

    def fresh_result(self, cx, a):
        g, sym = a["self"], a["symbol"]
        params = a["sources"]
        pseq = kids_seq(SObj("tmp", {"_children": params})) if isinstance(params, SList) else EMPTY
        if pseq is None:
            raise Unsupported("generate_string with parameters that are not a sequence of trees")
        used = kids_list(cx, GenSources(g.ident, sym.ident, pseq), "generator_arguments")
        kind = cx.ghost.get("value_kind", "text")
        val = SOpaque("generator_value", ident=GenValue(g.ident, sym.ident, pseq))
        names = {"text": ("str",), "tuple": ("tuple",), "other": ()}[kind]
        val.attrs["isinstance"] = lambda n, names=names: n in names
        cx.ghost["generator_value"] = val
        cx.ghost["generator_arguments"] = used
        return (used, val)


@register
class Grammar_parse(Contract):
    """assumed (C04): parse returns None or a tree for the start symbol, as a function of grammar, input and start symbol"""
    target = f"{GRAMMAR}:Grammar.parse"
    trusted = True

    def fresh_result(self, cx, a):
        g, word, start = a["self"], a["word"], a["start"]
        if isinstance(start, str):          # the default "<start>" / a symbol given by name
            import zlib
            start = nonterminal_symbol(cx, f"NonTerminal({start!r})", z3.IntVal(zlib.crc32(start.encode()) + 10 ** 6))
        wid = word.ident if getattr(word, "ident", None) is not None else cx.const("parsed_word", I)
        cx.ghost.setdefault("parse_calls", []).append((word, start))
        if cx.branch(ParseFails(g.ident, wid, start.ident), "parse-finds-no-tree"):
            cx.ghost["parse_result"] = None
            return None
        t = tree_contracts.plain_tree(cx, "parsed", fresh=True, symbol_obj=start)
        cx.assume(t.ident == ParseOf(g.ident, wid, start.ident))
        cx.ghost["parse_result"] = t
        return t


@register
class Tree_from_tree(Contract):
    """assumed: builds a tree from a (symbol, children) tuple (deprecated generator return shape)"""
    target = "language/tree.py:DerivationTree.from_tree"
    trusted = True

    def fresh_result(self, cx, a):
        return tree_contracts.plain_tree(cx, "from_tuple", fresh=True)


@register
class Tree_str(Contract):
    """assumed: str(tree) is a function of the tree"""
    target = "language/tree.py:DerivationTree.__str__"
    trusted = True

    def fresh_result(self, cx, a):
        s = SOpaque("str", ident=z3.Function("StrOfTree", I, I)(a["self"].ident))
        s.attrs["isinstance"] = lambda n: n == "str"
        return s


@register
class Grammar_generate_verified(Contract):
    """C16: the tree returned for a generator rule is the parse, under the symbol, of the value the generator expression
    returned; a value of the wrong type raises TypeError and a value that does not parse raises FandangoParseError --
    nothing else is ever put in its place; the tree's sources are copies of the argument trees used."""
    target = f"{GRAMMAR}:Grammar.generate"
    key = f"{GRAMMAR}:Grammar.generate@verified"
    properties = ("C16",)
    float_mode = "real"
    cases = ("text", "tuple", "other")

    def inputs(self, cx, case):
        g = grammar_obj(cx)
        g.fields["generators"] = cx.opaque("generators")
        cx.ghost["value_kind"] = case
        cx.ghost["case"] = case
        cx.ghost["inline_ok"] = set(tree_contracts.INLINE_OK)
        return {"self": g, "symbol": nonterminal_symbol(cx, "symbol"), "sources": kids_list(cx, z3.Const("parameters", IS), "parameters")}

    def ensures(self, cx, a, r):
        case = cx.ghost["case"]
        pr = cx.ghost.get("parse_result")
        calls = cx.ghost.get("parse_calls", [])
        out = [("a_value_of_another_type_never_yields_a_tree", z3.BoolVal(case != "other")),
               ("returns_the_parse_of_the_generated_value", z3.BoolVal(pr is not None and r is pr)),
               ("parsed_exactly_once_under_the_generator_symbol", z3.BoolVal(len(calls) == 1 and calls[0][1] is a["symbol"]))]
        if calls and case == "text":
            out.append(("the_parsed_input_is_the_generated_value", z3.BoolVal(calls[0][0] is cx.ghost.get("generator_value"))))
        if isinstance(r, SObj):
            srcs = r.fields.get("_sources")
            used = cx.ghost.get("generator_arguments")
            if isinstance(srcs, SList) and "seq" in srcs.ghost and "rec_cls" not in srcs.ghost:
                # a list of pre-existing trees (e.g. the argument trees themselves): readable, and not copies
                return out + [("sources_are_deep_copies_of_the_argument_trees", z3.BoolVal(False))]
            ok = isinstance(srcs, SList) and used is not None and srcs.ghost.get("rec_cls") == "DerivationTree"
            if not ok:
                raise Unsupported("the sources of the result are not a comprehension over the argument trees the contract can read")
            out.append(("one_source_per_argument_tree", to_term_int(srcs.length) == z3.Length(used.ghost["seq"])))
            copies = cx.ghost.get("deepcopies", [])
            src_ident = copies[0][0].ident if len(copies) == 1 else None       # identity of the generic element that was copied
            from_used = src_ident is not None and z3.is_app(src_ident) and src_ident.num_args() == 2 and z3.eq(src_ident.arg(0), used.ghost["seq"])
            out.append(("sources_are_deep_copies_of_the_argument_trees", z3.BoolVal(bool(from_used))))
            # the copy recorded as a source keeps what the argument tree itself was computed from (its own sources) and its text
            # (its children): a nested generated field stays traceable to its argument values
            how = cx.ghost.get("deepcopy_args", [])
            if len(how) != 1:
                raise Unsupported("the arguments of the copy recorded as a source cannot be read")
            full = all(how[0].get(k) in (True, "absent") for k in ("copy_children", "copy_params"))
            out.append(("recorded_arguments_keep_their_own_sources_and_children", z3.BoolVal(bool(full))))
        return out

    def ensures_raise(self, cx, a, exc):
        case = cx.ghost["case"]
        if exc.cls == "TypeError":
            return [("type_error_only_for_a_value_of_another_type", z3.BoolVal(case == "other"))]
        if exc.cls == "FandangoParseError":
            return [("parse_error_only_when_the_value_does_not_parse", z3.BoolVal("parse_result" in cx.ghost and cx.ghost["parse_result"] is None))]
        return []


# ------------------------------------------------------------------------------------------------ replace_multiple, generator-defined node (C16)

ReplacedOf = tree_contracts.ReplacedOf                   # identity of the tree the recursive call returns for a given node
TreeEq = tree_contracts.Tree_eq.TreeEq


def _membership_list(cx, label):
    l = cx.opaque_list(cx.int("n_" + label, lo=0), label=label)
    l.ghost["contains"] = lambda x: cx.bool("in_" + label)
    return l


def _ancestor(cx):
    """some ancestor of the receiver (or None): only membership tests and the step to its own parent are performed on it"""
    up = cx.opaque("DerivationTree", base="grand_ancestor", maybe_none=cx.bool("grand_ancestor_is_none").term)
    a = cx.opaque("DerivationTree", base="ancestor", maybe_none=cx.bool("ancestor_is_none").term)
    a.attrs.update({"sources": _membership_list(cx, "ancestor_sources"), "children": _membership_list(cx, "ancestor_children"), "parent": up})
    return a


def _gen_sources_havoc(cx, env, i):
    env["sources"] = cx.opaque_list(i, fresh=True, label="new_sources")
    env["regen_children"] = cx.bool("regen_children")


def _changed_upto(cx, lst, it):
    """exists j < it: the recursive result for element j differs (==) from element j"""
    idf = lst.ghost["id_fn"]
    j = z3.Int(cx._name("cj"))
    return z3.Exists([j], And(j >= 0, j < it, Not(TreeEq(ReplacedOf(idf(j)), idf(j)))))


def _gen_sources_inv(cx, env, i):
    l = env["sources"]
    n = l.length if not l.concrete else len(l.items)
    it = idx_term(i) if not isinstance(i, int) else z3.IntVal(i)
    return [("sources_has_one_entry_per_visited_node", T(cmp("==", n, i))),
            ("regen_children_iff_a_visited_argument_changed", T(env["regen_children"]) == _changed_upto(cx, env["self"].fields["_sources"], it))]


def _gen_children_havoc(cx, env, i):
    env["new_children"] = cx.opaque_list(i, fresh=True, label="new_children")
    env["regen_params"] = cx.bool("regen_params")


def _gen_children_inv(cx, env, i):
    l = env["new_children"]
    n = l.length if not l.concrete else len(l.items)
    it = idx_term(i) if not isinstance(i, int) else z3.IntVal(i)
    return [("new_children_has_one_entry_per_visited_node", T(cmp("==", n, i))),
            ("regen_params_iff_a_visited_child_changed", T(env["regen_params"]) == _changed_upto(cx, env["self"].fields["_children"], it))]


def _walk_havoc(cx, env, i):
    env["self_is_generator_child"] = cx.bool("self_is_generator_child")
    env["current"] = cx.opaque("DerivationTree", base="current")
    env["current_parent"] = _ancestor(cx)


@register
class Grammar_derive_generator_output(Contract):
    """assumed: re-runs the generator of the tree's symbol on the tree's recorded sources (= Grammar.generate(...).children)"""
    target = f"{GRAMMAR}:Grammar.derive_generator_output"
    trusted = True

    def may_raise(self, cx, a):
        return [("FandangoParseError", None), ("Exception", None)]

    def fresh_result(self, cx, a):
        from pyvc.lists import heap_list
        l = heap_list(cx, "regenerated_children", cx.int("n_regenerated", lo=0), "DerivationTree", tree_contracts.CHILD_FIELDS, fresh=True)
        cx.ghost["regenerated"] = (a["tree"], a["tree"].fields.get("_sources"), l)
        return l


@register
class Grammar_derive_generator_output_verified(Contract):
    """C16: re-running the generator of a generated node returns the children of the tree Grammar.generate produced for the
    node's own symbol from the node's recorded sources -- and nothing else: when generate raises (a value that does not fit the
    rule), no list is returned in its place"""
    target = f"{GRAMMAR}:Grammar.derive_generator_output"
    key = f"{GRAMMAR}:Grammar.derive_generator_output@verified"
    properties = ("C16",)
    float_mode = "real"

    def inputs(self, cx):
        g = grammar_obj(cx)
        t = parent_tree(cx, "tree")
        sym = nonterminal_symbol(cx, "tree.symbol")
        sym.fields["is_non_terminal"] = True
        sym.fields["is_terminal"] = False
        t.fields["_symbol"] = sym
        t.fields["_sources"] = kids_list(cx, z3.Const("recorded_sources", IS), "sources")
        cx.ghost["inline_ok"] = set(tree_contracts.INLINE_OK) | {"language/tree.py:DerivationTree.nonterminal"}
        return {"self": g, "tree": t}

    def ensures(self, cx, a, r):
        gen = cx.ghost.get("generated")
        if gen is None:
            return [("a_list_is_returned_only_for_a_tree_the_generator_produced", z3.BoolVal(False))]
        made, pseq = gen
        t = a["tree"]
        return [("returns_the_children_of_the_generated_tree", z3.BoolVal(r is made.fields.get("_children"))),
                ("generated_under_the_nodes_own_symbol", z3.BoolVal(made.fields.get("_symbol") is t.fields["_symbol"])),
                ("generated_from_the_recorded_sources", pseq == t.fields["_sources"].ghost["seq"])]

    def ensures_raise(self, cx, a, exc):
        # whatever generate raises travels on (FandangoParseError for a value that does not fit the rule; TypeError for a
        # value of another type): nothing is required of the exceptional exits
        return []


@register
class Grammar_derive_sources(Contract):
    """assumed: recomputes the argument trees of a generator-defined tree from its current children"""
    target = f"{GRAMMAR}:Grammar.derive_sources"
    trusted = True

    def may_raise(self, cx, a):
        return [("FandangoValueError", None)]

    def fresh_result(self, cx, a):
        from pyvc.lists import heap_list
        l = heap_list(cx, "derived_sources", cx.int("n_derived_sources", lo=0), "DerivationTree", tree_contracts.CHILD_FIELDS, fresh=True)
        cx.ghost["rederived_sources"] = (a["tree"], l)
        return l


@register
class Tree_replace_multiple_generator(tree_contracts.Tree_replace_multiple):
    """a node whose symbol is defined by a generator and that is not itself replaced:
      * if (and only if) one of its recorded argument trees changed, its children are the output of re-running the generator on
        the NEW argument trees (unless the node sits below another generator's output, where nothing is regenerated);
      * else, if one of its children changed, its sources are re-derived from the new children;
      * otherwise children and sources are the recursively rebuilt ones."""
    key = f"{tree_contracts.REL}:DerivationTree.replace_multiple@generator"
    properties = ("C16",)
    loops = dict(tree_contracts.Tree_replace_multiple.loops)
    loops[2] = Loop(2, iter_text="enumerate(self._sources)", inv=_gen_sources_inv, havoc=_gen_sources_havoc,
                    modifies=("sources", "regen_children", "i", "param", "new_param"))
    loops[3] = Loop(3, iter_text="enumerate(self._children)", inv=_gen_children_inv, havoc=_gen_children_havoc,
                    modifies=("new_children", "regen_params", "i", "child", "new_child"))
    loops[4] = Loop(4, iter_text="current_parent is not None", inv=lambda cx, env, i: [], havoc=_walk_havoc,
                    modifies=("self_is_generator_child", "current", "current_parent"))

    def inputs(self, cx):
        a = self._base_inputs(cx, generator=True)
        s = a["self"]
        # the node itself is not replaced at this path (that branch is the subject of the base contract)
        cx.assume(Not(z3.Select(cx.ghost["p2r_keys0"], cx.ghost["cur_path"].ident)))
        s.fields["_parent"] = _ancestor(cx)          # the parent (or None): only walked upwards by the generator-child test
        return a

    def ensures(self, cx, a, r):
        if cx.ghost.get("call_site"):
            return []
        s = a["self"]
        if not isinstance(r, SObj):
            raise Unsupported("replace_multiple does not return a tree object the contract can read")
        n_src = to_term_int(s.fields["_sources"].length)
        n_kids = to_term_int(s.fields["_children"].length)
        arg_changed = _changed_upto(cx, s.fields["_sources"], n_src)
        child_changed = _changed_upto(cx, s.fields["_children"], n_kids)
        regen = cx.ghost.get("regenerated")
        reder = cx.ghost.get("rederived_sources")
        kids = r.fields.get("_children")
        srcs = r.fields.get("_sources")
        below_generator = cx.ghost.get("walk_says_generator_child")
        out = [("result_is_a_new_node_with_the_receivers_symbol", z3.BoolVal(r.fresh and r is not s and r.fields.get("_symbol") is s.fields["_symbol"]))]
        reran = regen is not None and regen[0] is r and kids is regen[2]
        cleared = isinstance(srcs, SList) and srcs.concrete and not srcs.items
        out.append(("generator_is_rerun_only_when_an_argument_changed", Implies(z3.BoolVal(reran), arg_changed)))
        out.append(("an_argument_change_reruns_the_generator_or_the_node_is_below_generator_output",
                    Implies(arg_changed, z3.BoolVal(reran or cleared))))
        if reran:
            out.append(("generator_is_rerun_on_the_new_argument_trees",
                        z3.BoolVal(isinstance(regen[1], SList) and regen[1].fresh and regen[1].label == "new_sources")))
        out.append(("sources_rederived_only_when_a_child_changed_and_no_argument_did",
                    Implies(z3.BoolVal(reder is not None), And(child_changed, Not(arg_changed)))))
        out.append(("a_child_change_without_argument_change_rederives_the_sources",
                    Implies(And(child_changed, Not(arg_changed)), z3.BoolVal(reder is not None and reder[0] is r and srcs is reder[1]))))
        return out


# ------------------------------------------------------------------------------------------------ IterativeParser._collapse (C04 side lemma)

Helper = z3.Function("IsHelperSymbol", I, B)            # the symbol is an internal helper nonterminal (<__...>)
Clean = z3.Function("NoHelperSymbolAtOrBelow", I, B)    # tree node: neither it nor any descendant carries a helper symbol
CleanSeq = z3.Function("AllClean", IS, B)               # every tree of the sequence is Clean
PARSER = "language/grammar/parser/iterative_parser.py"


def _collapse_defs(cx):
    """definition of AllClean over sequences (introduction rules) and of Clean for a new node"""
    w, w2 = z3.Const("cl_w", IS), z3.Const("cl_w2", IS)
    cx.assume(CleanSeq(EMPTY))
    cx.assume(ForAll([w, w2], Implies(And(CleanSeq(w), CleanSeq(w2)), CleanSeq(z3.Concat(w, w2))), patterns=[CleanSeq(z3.Concat(w, w2))]))


def _col_havoc(cx, env, i):
    w = z3.Const(cx._name("reduced_sofar"), IS)
    env["reduced"] = kids_list(cx, w, "reduced")
    env["reduced"].fresh = True


def _col_inv(cx, env, i):
    l = env["reduced"]
    seq = l.ghost.get("seq") if isinstance(l, SList) else (EMPTY if isinstance(l, SList) and l.concrete and not l.items else None)
    if isinstance(l, SList) and l.concrete and not l.items:
        seq = EMPTY
    if seq is None:
        raise Unsupported("`reduced` is not a sequence of trees the contract can read")
    return [("everything_collected_so_far_is_free_of_helper_symbols", CleanSeq(seq))]


@register
class Parser_collapse_rec(Contract):
    """C04 side lemma: the trees returned by _collapse contain no internal helper symbol (<__...>): a helper node is replaced
    by its collapsed children, every other node is rebuilt over its collapsed children"""
    target = f"{PARSER}:IterativeParser._collapse"
    properties = ("C04",)
    float_mode = "real"
    cases = ("nonterminal", "terminal")
    loops = {0: Loop(0, iter_text="tree.children", inv=_col_inv, havoc=_col_havoc, modifies=("reduced", "child", "rec_reduced"))}

    def inputs(self, cx, case):
        cx.ghost["inline_ok"] = set(tree_contracts.INLINE_OK) | {"language/symbols/symbol.py:Symbol.value", "language/tree_value.py:TreeValue.__str__",
                                                                 "language/tree.py:DerivationTree.__init__", "language/tree.py:DerivationTree.sources@setter",
                                                                 "language/tree.py:DerivationTree.read_only"}
        tv.setup(cx)
        cx.ghost["inline_ok"] |= set(tree_contracts.INLINE_OK) | {"language/symbols/symbol.py:Symbol.value", "language/tree_value.py:TreeValue.__str__",
                                                                  "language/tree.py:DerivationTree.__init__", "language/tree.py:DerivationTree.sources@setter",
                                                                  "language/tree.py:DerivationTree.read_only"}
        _collapse_defs(cx)
        t = SObj("DerivationTree", {}, fresh=False, label="tree")
        t.ident = cx.const("tree_id", I)
        sym = SObj("NonTerminal" if case == "nonterminal" else "Terminal", {}, fresh=False, label="tree.symbol")
        sym.ident = cx.const("symbol_id", I)
        sym.fields["@hash"] = SInt(sym.ident)
        name = tv.tree_value(cx, "symbol_name", "str")
        name.fields["_trailing_bits"] = SList([])
        sym.fields["_value"] = name
        cx.ghost["name_text"] = name.fields["_value"].term
        cx.assume(Helper(sym.ident) == z3.PrefixOf(z3.StringVal("<__"), cx.ghost["name_text"]))      # definition of "helper symbol" for nonterminals
        t.fields["_symbol"] = sym
        t.fields["_children"] = kids_list(cx, z3.Const("tree_children", IS), "tree.children")
        t.fields["_sources"] = cx.opaque_list(cx.int("n_sources", lo=0))
        t.fields["read_only"] = cx.bool("read_only")
        t.fields["_sender"] = None
        t.fields["_recipient"] = None
        t.fields["origin_repetitions"] = cx.opaque_list(cx.int("n_origin", lo=0))
        p = SObj("IterativeParser", {}, fresh=False, label="self")
        p.ident = cx.const("parser_id", I)
        cx.ghost["case"] = case
        return {"self": p, "tree": t}

    # call-site direction (recursion): a sequence of clean trees
    def fresh_result(self, cx, a):
        w = z3.Const(cx._name("collapsed"), IS)
        cx.assume(CleanSeq(w))
        l = kids_list(cx, w, "collapsed")
        l.fresh = True
        return l

    def ensures(self, cx, a, r):
        if cx.ghost.get("call_site"):
            return []
        t = a["tree"]
        sym = t.fields["_symbol"]
        if not isinstance(r, SList):
            raise Unsupported("_collapse does not return a list the contract can read")
        if "seq" in r.ghost:
            # the collapsed children are handed up: only for a helper nonterminal
            return [("children_are_handed_up_only_for_a_helper_symbol", And(z3.BoolVal(cx.ghost["case"] == "nonterminal"), Helper(sym.ident))),
                    ("result_is_free_of_helper_symbols", CleanSeq(r.ghost["seq"]))]
        if not (r.concrete and len(r.items) == 1 and isinstance(r.items[0], SObj)):
            raise Unsupported("_collapse returns neither the collected list nor a one-element list display")
        new = r.items[0]
        kids = kids_seq(new)
        if kids is None:
            raise Unsupported("the rebuilt node's children are not a sequence the contract can read")
        keeps_symbol = same_obj(new.fields.get("_symbol"), sym) if not new.fields.get("_symbol") is sym else z3.BoolVal(True)
        not_helper = Not(Helper(sym.ident)) if cx.ghost["case"] == "nonterminal" else z3.BoolVal(True)
        return [("a_rebuilt_node_keeps_the_symbol", keeps_symbol),
                ("a_rebuilt_node_is_not_a_helper", not_helper),
                ("its_children_are_free_of_helper_symbols", CleanSeq(kids))]
