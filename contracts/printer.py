"""C15 (printer half): format_as_spec of the grammar nodes, by ghost *binding level*.

The reader's grammar (language/FandangoParser.g4, trusted):
    alternative: concatenation ('|' concatenation)*      concatenation: operator+
    operator: symbol | symbol '*' | symbol '+' | symbol '?' | symbol '{' ... '}'
    symbol: <nonterminal> | string | NUMBER | '(' alternative ')'
So every printed fragment has a level  ATOM (symbol) < POSTFIX (operator) < SEQ (concatenation) < ALT (alternative), and
a postfix operator re-reads as "repeat THIS operand" only if the operand was printed at level ATOM.
Contracts: each format_as_spec returns its text together with its level (ghost attribute of the string value);
  TerminalNode / NonTerminalNode -> ATOM;  Alternative -> "(" ... ")" = ATOM;  Concatenation -> SEQ (level of the member if
  there is exactly one);  Star/Plus/Option/Repetition -> operand at level ATOM followed by the operator = POSTFIX, and an
  open upper bound is printed open (the reader must not see the cap currently in force).
"""
from __future__ import annotations

import z3

from pyvc.dsl import And, Contract, Implies, Not, Or, SBool, SInt, SList, SObj, SOpaque, SStr, T, cmp, register, to_term_int
from pyvc.ops import str_term

ATOM, POSTFIX, SEQ, ALT = 0, 1, 2, 3
REL = "language/grammar/nodes"
I = z3.IntSort()
LevelOfNode = z3.Function("LevelOfPrintedNode", I, I)       # ghost: level at which node prints (for abstract members)


class Printed(SStr):
    """a printed fragment: text + binding level"""
    __slots__ = ("level",)

    def __init__(self, term, level):
        super().__init__(term, "str")
        self.level = level


def level_of(v):
    if isinstance(v, Printed):
        return v.level
    return None


def mk_node(cx, cls: str, name: str) -> SObj:
    n = SObj(cls, {}, fresh=False, label=name)
    n.ident = cx.const(name + "_id", I)
    if cls in ("TerminalNode", "NonTerminalNode"):
        n.fields["symbol"] = cx.opaque("Symbol", base=name + "_symbol")
        n.fields["sender"] = None
        n.fields["recipient"] = None
    elif cls == "Alternative":
        n.fields["alternatives"] = cx.opaque_list(cx.int(name + "_n_alts", lo=1))
    elif cls == "Concatenation":
        n.fields["nodes"] = cx.opaque_list(cx.int(name + "_n_nodes", lo=1))
    elif cls in ("Repetition", "Star", "Plus", "Option"):
        n.fields["node"] = None
        n.fields["min"] = cx.int(name + "_min", lo=0)
        n.fields["_max"] = None
        # the contracts cover repetitions with literal bounds; a computed repetition `{expr}` prints its expression (covered by the
        # bounded round trip: specs computed_bound / computed_rep*)
        n.fields["bounds_constraint"] = None
    return n


class _NodePrinter(Contract):
    """call-site contract shared by all node printers: text + level"""
    properties = ("C15",)
    float_mode = "real"
    level = ATOM

    def fresh_result(self, cx, a):
        return Printed(cx.str("printed").term, self.level_for(cx, a))

    def level_for(self, cx, a):
        return self.level


@register
class Terminal_print(_NodePrinter):
    """assumed: a terminal symbol prints as one literal token (its quoting is the subject of the bounded half)"""
    target = f"{REL}/terminal.py:TerminalNode.format_as_spec"
    trusted = True
    level = ATOM


@register
class NonTerminal_print(_NodePrinter):
    target = f"{REL}/non_terminal.py:NonTerminalNode.format_as_spec"
    cases = ("plain", "sender", "sender_recipient")
    level = ATOM

    def inputs(self, cx, case):
        n = mk_node(cx, "NonTerminalNode", "self")
        sym = SObj("NonTerminal", {}, fresh=False, label="symbol")
        sym.ident = cx.const("sym", I)
        n.fields["symbol"] = sym
        body = cx.str("name", named=True)
        cx.ghost["name_body"] = body
        sym.fields["@spec"] = SStr(z3.Concat(z3.StringVal("<"), body.term, z3.StringVal(">")))
        if case != "plain":
            n.fields["sender"] = cx.str("sender", named=True)
        if case == "sender_recipient":
            n.fields["recipient"] = cx.str("recipient", named=True)
        return {"self": n}

    def ensures(self, cx, a, r):
        if cx.ghost.get("call_site"):
            return []
        n = a["self"]
        body = cx.ghost["name_body"].term
        parts = [z3.StringVal("<")]
        if n.fields["sender"] is not None:
            parts += [str_term(n.fields["sender"]), z3.StringVal(":")]
        if n.fields["recipient"] is not None:
            parts += [str_term(n.fields["recipient"]), z3.StringVal(":")]
        parts += [body, z3.StringVal(">")]
        return [("prints_annotated_nonterminal", str_term(r) == z3.Concat(*parts))]


@register
class Symbol_print(Contract):
    """assumed: NonTerminal.format_as_spec returns '<name>'"""
    target = "language/symbols/non_terminal.py:NonTerminal.format_as_spec"
    trusted = True

    def fresh_result(self, cx, a):
        return a["self"].fields["@spec"]


_JOIN_ALT = "' | '.join(map(lambda x: x.format_as_spec(), self.alternatives))"
_JOIN_CAT = "' '.join(map(lambda x: x.format_as_spec(), self.nodes))"


def _hook_join_alt(it, fr):
    return SStr(it.cx.str("alternatives_text").term)


def _hook_join_cat(it, fr):
    s = fr.locals["self"]
    out = Printed(it.cx.str("members_text").term, SEQ)
    return out


@register
class Alternative_print(_NodePrinter):
    target = f"{REL}/alternative.py:Alternative.format_as_spec"
    level = ATOM
    expr_hooks = {_JOIN_ALT: _hook_join_alt}

    def inputs(self, cx):
        return {"self": mk_node(cx, "Alternative", "self")}

    def ensures(self, cx, a, r):
        if cx.ghost.get("call_site"):
            return []
        t = str_term(r)
        return [("alternative_is_parenthesised", And(z3.PrefixOf(z3.StringVal("("), t), z3.SuffixOf(z3.StringVal(")"), t), z3.Length(t) >= 2))]


@register
class Concatenation_print(_NodePrinter):
    """a sequence prints its members separated by blanks: level SEQ (callers must not treat it as a single symbol)"""
    target = f"{REL}/concatenation.py:Concatenation.format_as_spec"
    trusted = True
    level = SEQ


class _Postfix(Contract):
    properties = ("C15",)
    float_mode = "real"
    suffix = ""
    OPERANDS = ("TerminalNode", "NonTerminalNode", "Alternative", "Concatenation", "Star", "Plus", "Option", "Repetition")
    cases = OPERANDS

    def mk_self(self, cx, cls, operand_cls):
        s = mk_node(cx, cls, "self")
        s.fields["node"] = mk_node(cx, operand_cls, "operand")
        return s

    def operand_text(self, cx):
        return cx.ghost["operand_text"]

    def check_operand(self, cx, r, suffix_term):
        """the printed text must be <operand at level ATOM> + suffix"""
        t = str_term(r)
        op = cx.ghost.get("operand_printed")
        if op is None:
            return [("operand_printed_once", z3.BoolVal(False))]
        ot = op.term
        grouped = z3.Concat(z3.StringVal("("), ot, z3.StringVal(")"))
        atom = op.level == ATOM
        # either the operand already is a single symbol and is printed as it is, or it is grouped
        shape = Or(t == z3.Concat(grouped, suffix_term), And(z3.BoolVal(atom), t == z3.Concat(ot, suffix_term)))
        return [("operand_is_a_single_symbol", shape)]


def _operand_contract_hook(cls):
    """the operand's printer, recorded so that the postcondition can refer to what it returned"""
    return None


def _record_operand(cx, printed):
    cx.ghost["operand_printed"] = printed


# the operand printers used by the postfix proofs: results are recorded
for _cls, _lvl, _file in (("TerminalNode", ATOM, "terminal"), ("NonTerminalNode", ATOM, "non_terminal"), ("Alternative", ATOM, "alternative"),
                          ("Concatenation", SEQ, "concatenation"), ("Star", POSTFIX, "repetition"), ("Plus", POSTFIX, "repetition"),
                          ("Option", POSTFIX, "repetition"), ("Repetition", POSTFIX, "repetition")):
    pass


class _Recording:
    """mixin for the call-site direction of every node printer: remember what was returned for operand nodes"""

    def fresh_result(self, cx, a):
        p = Printed(cx.str("printed").term, self.level)
        if getattr(a["self"], "label", "") == "operand":
            cx.ghost["operand_printed"] = p
        return p


Terminal_print.fresh_result = _Recording.fresh_result
NonTerminal_print.fresh_result = _Recording.fresh_result
Alternative_print.fresh_result = _Recording.fresh_result
Concatenation_print.fresh_result = _Recording.fresh_result


class _PostfixPrinter(_Postfix):
    cls = "Star"
    level = POSTFIX

    def inputs(self, cx, case):
        cx.ghost["inline_ok"] = {f"{REL}/repetition.py:Repetition._operand_as_spec", f"{REL}/repetition.py:Repetition.max",
                                 f"{REL}/repetition.py:Repetition.internal_max"}
        return {"self": self.mk_self(cx, self.cls, case)}

    def fresh_result(self, cx, a):
        p = Printed(cx.str("printed").term, POSTFIX)
        if getattr(a["self"], "label", "") == "operand":
            cx.ghost["operand_printed"] = p
        return p

    def ensures(self, cx, a, r):
        if cx.ghost.get("call_site"):
            return []
        return self.check_operand(cx, r, z3.StringVal(self.suffix))


@register
class Star_print(_PostfixPrinter):
    target = f"{REL}/repetition.py:Star.format_as_spec"
    cls = "Star"
    suffix = "*"


@register
class Plus_print(_PostfixPrinter):
    target = f"{REL}/repetition.py:Plus.format_as_spec"
    cls = "Plus"
    suffix = "+"


@register
class Option_print(_PostfixPrinter):
    target = f"{REL}/repetition.py:Option.format_as_spec"
    cls = "Option"
    suffix = "?"


@register
class Repetition_print(_PostfixPrinter):
    target = f"{REL}/repetition.py:Repetition.format_as_spec"
    cls = "Repetition"
    cases = tuple((o, b) for o in _Postfix.OPERANDS for b in ("closed", "open"))

    def inputs(self, cx, case):
        operand, bound = case
        a = super().inputs(cx, operand)
        s = a["self"]
        if bound == "closed":
            s.fields["_max"] = cx.int("max", lo=0)
        else:
            s.fields["_max"] = None
            cap = cx.int("cap_in_force", lo=0)
            s.fields["@cap"] = cap
            cx.ghost["module_attrs"] = {"nodes.MAX_REPETITIONS": lambda cx_, cap=cap: cap}
        cx.ghost["bound_case"] = bound
        return a

    def ensures(self, cx, a, r):
        if cx.ghost.get("call_site"):
            return []
        s = a["self"]
        t = str_term(r)
        lo = to_term_int(s.fields["min"])
        mn = z3.IntToStr(lo)
        op = cx.ghost.get("operand_printed")
        if op is None:
            return [("operand_printed_once", z3.BoolVal(False))]
        # every postfix form that DENOTES the node's bounds is admissible (the obligation is about meaning, not about style):
        #   {n,}  and  * for n = 0,  + for n = 1          (open upper bound)
        #   {n,m},  {n} for n = m,  ? for (0, 1),  {,m} for n = 0     (closed)
        lit = z3.StringVal
        if cx.ghost["bound_case"] == "open":
            forms = [(z3.BoolVal(True), z3.Concat(lit("{"), mn, lit(",}"))), (lo == 0, lit("*")), (lo == 1, lit("+"))]
            name = "open_bound_stays_open_and_operand_is_a_single_symbol"
        else:
            hi = to_term_int(s.fields["_max"])
            mx = z3.IntToStr(hi)
            forms = [(z3.BoolVal(True), z3.Concat(lit("{"), mn, lit(","), mx, lit("}"))), (lo == hi, z3.Concat(lit("{"), mn, lit("}"))),
                     (And(lo == 0, hi == 1), lit("?")), (lo == 0, z3.Concat(lit("{,"), mx, lit("}")))]
            name = "printed_bounds_denote_min_and_max_and_operand_is_a_single_symbol"
        shapes = []
        for cond, suf in forms:
            shapes.append(And(cond, t == z3.Concat(lit("("), op.term, lit(")"), suf)))
            if op.level == ATOM:
                shapes.append(And(cond, t == z3.Concat(op.term, suf)))
        return [(name, Or(*shapes))]

    def replay(self, obligation, model):
        from contracts import replay_printer
        return replay_printer.script(obligation)


Star_print.replay = Repetition_print.replay
Plus_print.replay = Repetition_print.replay
Option_print.replay = Repetition_print.replay
