"""C06: termination of the Earley work-list rests on the chart admitting each item once.

Column.add admits a state iff `state not in self.unique` (a Python set: hash first, then ==).  The variant of the
work-list loop  |finite key space of column k| - |unique_k|  decreases on every admitted state only if set membership
identifies states with equal keys, i.e. only if  a == b  implies  hash(a) == hash(b)  (otherwise two ==-equal states
land in different buckets and are both admitted, and the number of admitted states is no longer bounded by the key
space).  The obligation below runs the REAL ParseState.__eq__ and ParseState.__hash__ on two symbolic states.
"""
from __future__ import annotations

import z3

from pyvc.dsl import And, Contract, Implies, Not, SBool, SInt, SList, SObj, SOpaque, T, register, to_term_int
from pyvc.ops import truth

I = z3.IntSort()


def parse_state(cx, name: str) -> SObj:
    s = SObj("ParseState", {}, fresh=False, label=name)
    s.ident = cx.const(name + "_id", I)
    nt = SObj("NonTerminal", {}, fresh=False, label=name + ".nt")
    nt.ident = cx.const(name + "_nt", I)
    nt.fields["@hash"] = SInt(nt.ident)
    s.fields["_nonterminal"] = nt
    s.fields["_position"] = cx.int(name + "_position", lo=0)
    sy = cx.opaque("tuple", base=name + "_symbols")
    sy.attrs["eq"] = lambda other, sy=sy: SBool(sy.ident == other.ident)   # immutable tuple: equal content, same token
    s.fields["_symbols"] = sy
    s.fields["_dot"] = cx.int(name + "_dot", lo=0)
    ch = cx.opaque_list(cx.int(name + "_nchildren", lo=0), label=name + ".children")
    ch.ghost["ident"] = cx.const(name + "_children_content", I)
    s.fields["children"] = ch
    s.fields["is_incomplete"] = cx.bool(name + "_incomplete")
    s.fields["incomplete_idx"] = cx.int(name + "_incidx", lo=0)
    s.fields["_hash"] = None
    return s


@register
class NonTerminal_eq(Contract):
    """assumed: NonTerminal equality is equality of the symbol names (symbols/symbol.py), modelled as identity of the
    name token"""
    target = "language/symbols/symbol.py:Symbol.__eq__"
    trusted = True

    def fresh_result(self, cx, a):
        o = a["other"]
        return SBool(a["self"].ident == o.ident) if hasattr(o, "ident") and o.ident is not None else False


@register
class ParseState_hash_eq(Contract):
    target = "language/grammar/parser/parse_state.py:ParseState.__eq__"
    properties = ("C06",)
    float_mode = "real"

    def inputs(self, cx):
        return {"a": parse_state(cx, "a"), "b": parse_state(cx, "b")}

    def script(self, cx, it, a):
        sa, sb = a["a"], a["b"]
        rel = "language/grammar/parser/parse_state.py"
        cx.ghost["inline_ok"] = {f"{rel}:ParseState.__eq__", f"{rel}:ParseState.__hash__", f"{rel}:ParseState.nonterminal",
                                 f"{rel}:ParseState.position", f"{rel}:ParseState.symbols"}
        eq = it.call_repo(f"{rel}:ParseState.__eq__!", [sb], {}, self_obj=sa) if False else it.call_repo_inline(f"{rel}:ParseState.__eq__", [sb], {}, self_obj=sa)
        ha = it.call_repo_inline(f"{rel}:ParseState.__hash__", [], {}, self_obj=sa)
        hb = it.call_repo_inline(f"{rel}:ParseState.__hash__", [], {}, self_obj=sb)
        e = truth(cx, eq)
        e = z3.BoolVal(e) if isinstance(e, bool) else e
        return [("hash_eq_consistent", Implies(e, to_term_int(ha) == to_term_int(hb)))]

    def replay(self, obligation, model):
        from contracts import replay_parser
        return replay_parser.hash_eq_script(obligation, model)
