#!/usr/bin/env python3
"""Deliberate property-breaking edits of the fuzz() family on a scratch copy: every one must fail a named obligation
(development self-test of contracts/fuzz.py; the scratch copy lives under /tmp and is removed)."""
import os, shutil, subprocess, sys

ROOT = os.path.dirname(os.path.dirname(os.path.abspath(__file__)))
N = "src/fandango/language/grammar/nodes/"
MUTANTS = [
    ("cat_skips_first_node", N + "concatenation.py", "for node in self.nodes:\n            if node.distance", "for node in self.nodes[1:]:\n            if node.distance", "Concatenation.fuzz"),
    ("cat_fuzzes_node_twice", N + "concatenation.py", "                node.fuzz(parent, grammar, 0, in_message)\n", "                node.fuzz(parent, grammar, 0, in_message)\n                node.fuzz(parent, grammar, 0, in_message)\n", "Concatenation.fuzz"),
    ("rep_breaks_one_early", N + "repetition.py", "if rep >= self.min and override_iterations_to_perform is None:", "if rep >= self.min - 1 and override_iterations_to_perform is None:", "Repetition.fuzz"),
    ("rep_goal_above_max", N + "repetition.py", "rep_goal = random.randint(self.min, self.max)", "rep_goal = random.randint(self.min, self.max + 1)", "Repetition.fuzz"),
    ("rep_goal_below_min", N + "repetition.py", "rep_goal = random.randint(self.min, self.max)", "rep_goal = random.randint(0, self.max)", "Repetition.fuzz"),
    ("alt_fuzzes_two_alternatives", N + "alternative.py", "        random.choice(in_range_nodes).fuzz(parent, grammar, max_nodes, in_message)\n",
     "        random.choice(in_range_nodes).fuzz(parent, grammar, max_nodes, in_message)\n        random.choice(in_range_nodes).fuzz(parent, grammar, max_nodes, in_message)\n", "Alternative.fuzz"),
    ("nt_keeps_dummy", N + "non_terminal.py", "            return\n        parent.set_children(parent.children[:-1])\n", "            return\n", "NonTerminalNode.fuzz"),
    ("nt_generator_reversed_params", N + "non_terminal.py", "generated = grammar.generate(self.symbol, parameters)", "generated = grammar.generate(self.symbol, parameters[:-1])", "NonTerminalNode.fuzz"),
    ("nt_generator_children_not_protected", N + "non_terminal.py", "            for child in generated.children:\n                child.set_all_read_only(True)\n", "", "NonTerminalNode.fuzz"),
    ("nt_wrong_rule", N + "non_terminal.py", "grammar[self.symbol].fuzz(current_tree, grammar, max_nodes - 1, in_message)", "grammar[self.symbol].fuzz(parent, grammar, max_nodes - 1, in_message)", "NonTerminalNode.fuzz"),
    ("terminal_repeats", N + "terminal.py", "        repetitions = 1\n", "        repetitions = 2\n", "TerminalNode.fuzz"),
    ("terminal_utf8", N + "terminal.py", 'instance = get_one(pattern).encode("latin-1")', 'instance = get_one(pattern).encode("utf-8")', "TerminalNode.fuzz"),
    ("grammar_returns_first_child", "src/fandango/language/grammar/grammar.py", "        root = root.children[fuzzed_idx]\n", "        root = root.children[0]\n", "Grammar.fuzz"),
    ("plus_starts_at_one", N + "repetition.py", "                in_message,\n                override_current_iteration,\n                override_starting_repetition,\n                override_iterations_to_perform,\n            )\n\n    def accept(\n        self,\n        visitor: \"fandango.language.grammar.node_visitors.node_visitor.NodeVisitor[fandango.language.grammar.node_visitors.node_visitor.AggregateType, fandango.language.grammar.node_visitors.node_visitor.ResultType]\",\n    ) -> Any:  # should be ResultType, beartype falls on its face\n        return visitor.visitPlus(self)",
     "                in_message,\n                override_current_iteration,\n                override_starting_repetition,\n                1,\n            )\n\n    def accept(\n        self,\n        visitor: \"fandango.language.grammar.node_visitors.node_visitor.NodeVisitor[fandango.language.grammar.node_visitors.node_visitor.AggregateType, fandango.language.grammar.node_visitors.node_visitor.ResultType]\",\n    ) -> Any:  # should be ResultType, beartype falls on its face\n        return visitor.visitPlus(self)", "Plus.fuzz"),
]

S = "src/fandango/language/search.py"
# (name, file, (anchor, anchor, ..., old), new, function): `old` is replaced at its first occurrence after the anchors
MUTANTS += [
    ("attr_find_uses_find", S, ("class AttributeSearch", "def find(", "self.attribute.find_direct(t,"), "self.attribute.find(t,", "AttributeSearch.find"),
    ("attr_find_direct_bases_by_find", S, ("class AttributeSearch", "def find_direct(", "self.base.find_direct(tree,"), "self.base.find(tree,", "AttributeSearch.find_direct"),
    ("descendant_drops_scope", S, ("class DescendantAttributeSearch", "def find(", "self.attribute.find(t, scope=scope,"), "self.attribute.find(t,", "DescendantAttributeSearch.find"),
    ("descendant_first_tree_only", S, ("class DescendantAttributeSearch", "def find(", "                )\n"), "                )\n                break\n", "DescendantAttributeSearch.find"),
    ("descendant_prepends", S, ("class DescendantAttributeSearch", "def find_direct(", "                targets.extend(\n                    self.attribute.find(t, scope=scope, population=population)\n                )"),
     "                targets = self.attribute.find(t, scope=scope, population=population) + targets", "DescendantAttributeSearch.find_direct"),
]


MUTANTS += [
    ("find_by_origin_skips_terminals", "src/fandango/language/tree.py", "                for child in [*self._children, *self._sources]\n            ],\n            [],\n        )\n        for o_node_id",
     "                for child in [*self._children, *self._sources]\n                if child.symbol.is_non_terminal\n            ],\n            [],\n        )\n        for o_node_id", "DerivationTree.find_by_origin"),
    ("find_by_origin_children_only", "src/fandango/language/tree.py", "                child.find_by_origin(node_id)\n                for child in [*self._children, *self._sources]\n",
     "                child.find_by_origin(node_id)\n                for child in self._children\n", "DerivationTree.find_by_origin"),
]

G = "src/fandango/language/grammar/grammar.py"
MUTANTS += [
    ("generate_replaces_unparsable_value", G, "        if tree is None:\n            raise FandangoParseError(\n                f\"Could not parse {string!r} (generated by {self.generators[symbol]}) into {symbol.format_as_spec()}\"\n            )\n",
     "        if tree is None:\n            tree = self.fuzz(symbol)\n", "Grammar.generate"),
    ("generate_shares_sources", G, "        tree.sources = [p.deepcopy(copy_parent=False) for p in sources]", "        tree.sources = list(sources)", "Grammar.generate"),
    ("generate_sources_without_their_own_sources", G, "        tree.sources = [p.deepcopy(copy_parent=False) for p in sources]", "        tree.sources = [p.deepcopy(copy_params=False, copy_parent=False) for p in sources]", "Grammar.generate"),
    ("derive_output_swallows_parse_error", G, "        generated = self.generate(tree.nonterminal, tree.sources)\n        return generated.children",
     "        try:\n            generated = self.generate(tree.nonterminal, tree.sources)\n        except FandangoParseError:\n            return tree.children\n        return generated.children", "Grammar.derive_generator_output"),
    ("derive_output_of_children_not_sources", G, "        generated = self.generate(tree.nonterminal, tree.sources)\n        return generated.children",
     "        generated = self.generate(tree.nonterminal, tree.children)\n        return generated.children", "Grammar.derive_generator_output"),
    ("generate_parses_under_start", G, "        tree = self.parse(string, symbol)\n        if tree is None:\n            raise FandangoParseError", "        tree = self.parse(string)\n        if tree is None:\n            raise FandangoParseError", "Grammar.generate"),
    ("generate_accepts_lists", G, "        if not (isinstance(string, (str, bytes, int, tuple))):", "        if string is None:", "Grammar.generate"),
]

TR = "src/fandango/language/tree.py"
MUTANTS += [
    ("replace_regen_flag_overwritten", TR, "            if new_param != param:\n                regen_children = True\n", "            regen_children = new_param != param\n", "replace_multiple"),
    ("replace_never_reruns_generator", TR, "                new_tree.set_children(grammar.derive_generator_output(new_tree))\n", "                pass\n", "replace_multiple"),
    ("replace_reruns_on_identity", TR, "            if new_param != param:\n", "            if new_param is not param:\n", "replace_multiple"),
    ("replace_swapped_branches", TR, "        elif regen_params:\n            new_tree.sources = grammar.derive_sources(new_tree)", "        elif regen_params:\n            new_tree.set_children(grammar.derive_generator_output(new_tree))", "replace_multiple"),
]

IP = "src/fandango/language/grammar/parser/iterative_parser.py"
MUTANTS += [
    ("collapse_keeps_helpers", IP, ("def _collapse(", "            if str(tree.symbol.value()).startswith(\"<__\"):\n                return reduced\n"), "            pass\n", "IterativeParser._collapse"),
    ("collapse_skips_recursion", IP, ("def _collapse(", "            rec_reduced = self._collapse(child)\n            reduced.extend(rec_reduced)"), "            reduced.append(child)", "IterativeParser._collapse"),
    ("collapse_wrong_prefix", IP, ("def _collapse(", 'startswith("<__")'), 'startswith("<___")', "IterativeParser._collapse"),
]

CN = "src/fandango/constraints/"
MUTANTS += [
    ("fitness_off_by_one_total", CN + "fitness.py", ("class ConstraintFitness", "            return self.solved / self.total\n"), "            return self.solved / (self.total + 1)\n", "ConstraintFitness.fitness"),
    ("conjunction_success_any", CN + "conjunction.py", "        overall = all(fitness.success for fitness in fitness_values)", "        overall = any(fitness.success for fitness in fitness_values)", "ConjunctionConstraint.fitness"),
    ("conjunction_lazy_continues_on_success", CN + "conjunction.py", "                if not fitness.success:\n                    break", "                if fitness.success:\n                    break", "ConjunctionConstraint.fitness"),
    ("conjunction_caches_under_tree_only", CN + "conjunction.py", "        tree_hash = self.get_hash(tree, scope, local_variables)", "        tree_hash = self.get_hash(tree)", "ConjunctionConstraint.fitness"),
    ("get_hash_without_scope", CN + "base.py", "                tuple((scope or {}).items()),\n", "", "GeneticBase.get_hash"),
    ("tree_value_to_bytes_latin1", "src/fandango/language/tree_value.py", ("def to_bytes(", "encoding=str_to_bytes_encoding"), 'encoding="latin-1"', "TreeValue.to_bytes"),
    ("add_child_no_invalidate", "src/fandango/language/tree.py", ("def add_child(", "        self.invalidate_hash()\n"), "        pass\n", "DerivationTree.add_child"),
    ("set_children_keeps_old_parent", "src/fandango/language/tree.py", ("def set_children(", "            child._parent = self\n"), "            pass\n", "DerivationTree.set_children"),
    ("parse_forest_yields_cached_object", "src/fandango/language/grammar/parser/parser.py", ("def parse_forest(", "deepcopy("), "(lambda x: x)(", "Parser.parse_forest"),
    ("star_printer_ungrouped", N + "repetition.py", ("class Star", "        return self._operand_as_spec() + \"*\""), "        return self.node.format_as_spec() + \"*\"", "Star.format_as_spec"),
    ("buffer_clear_wrong_side", "src/fandango/io/__init__.py", ("def clear_by_party(", "idx <= to_idx"), "idx < to_idx", "FandangoIO.clear_by_party"),
]

# harmless edits: must NOT fail an obligation (verified or undecided are both acceptable, an alarm is not)
EQUIVALENT = [
    ("eq_terminal_named_leaf", N + "terminal.py", "                parent.add_child(DerivationTree(self.symbol))\n", "                leaf = DerivationTree(self.symbol)\n                parent.add_child(leaf)\n", "TerminalNode.fuzz"),
    ("eq_nt_concat_instead_of_add_child", N + "non_terminal.py", "        parent.add_child(current_tree)\n        grammar[self.symbol]", "        parent.set_children(parent.children + [current_tree])\n        grammar[self.symbol]", "NonTerminalNode.fuzz"),
    ("eq_cat_renamed_local", N + "concatenation.py", ("def fuzz(",), None, "Concatenation.fuzz"),
    ("eq_rep_while_loop_tagging", N + "repetition.py", "            for child in parent.children[prev_children_len:]:\n                child.origin_repetitions.insert(\n                    0, (self.id, current_iteration, current_rep)\n                )\n",
     "            for k in range(prev_children_len, len(parent.children)):\n                parent.children[k].origin_repetitions.insert(\n                    0, (self.id, current_iteration, current_rep)\n                )\n", "Repetition.fuzz"),
    ("eq_attr_plus_equals", S, ("class AttributeSearch", "def find(", "                targets.extend(\n                    self.attribute.find_direct(t, scope=scope, population=population)\n                )"),
     "                targets = targets + self.attribute.find_direct(t, scope=scope, population=population)", "AttributeSearch.find"),
    ("eq_grammar_fuzz_named_node", "src/fandango/language/grammar/grammar.py", "        NonTerminalNode(start, self._grammar_settings).fuzz(\n            root, self, max_nodes=max_nodes\n        )\n",
     "        start_node = NonTerminalNode(start, self._grammar_settings)\n        start_node.fuzz(root, self, max_nodes=max_nodes)\n", "Grammar.fuzz"),
]


def apply(text, old, new):
    if new is None:          # special: rename a local everywhere in the file
        return text.replace("prev_parent_size", "size_before")
    if isinstance(old, str):
        return text.replace(old, new) if text.count(old) == 1 else None
    pos = 0
    for anchor in old[:-1]:
        pos = text.find(anchor, pos)
        if pos < 0:
            return None
    k = text.find(old[-1], pos)
    if k < 0:
        return None
    return text[:k] + new + text[k + len(old[-1]):]


DRIVER = r'''
import sys
sys.path.insert(0, %r)
from pyvc import run
run.CONTRACT_MODULES = ["contracts.evaluation", "contracts.constraints", "contracts.parser_cache", "contracts.tree_value", "contracts.tree", "contracts.printer", "contracts.io_buffer", "contracts.fuzz", "contracts.search"]
sys.exit(run.main(["--only", %r]))
'''


def main():
    scratch = f"/tmp/mutants_{os.getpid()}"
    results = []
    for name, rel, old, new, only in MUTANTS + EQUIVALENT:
        shutil.rmtree(scratch, ignore_errors=True)
        os.makedirs(scratch)
        shutil.copytree("/repo/src", scratch + "/src")
        p = os.path.join(scratch, rel)
        text = open(p).read()
        mutated = apply(text, old, new)
        if mutated is None:
            results.append((name, "PATTERN-NOT-FOUND"))
            continue
        open(p, "w").write(mutated)
        env = dict(os.environ, VERIF_REPO=scratch, PYTHONPATH=f"{ROOT}:{scratch}/src")
        r = subprocess.run([os.path.join(ROOT, ".venv/bin/python"), "-c", DRIVER % (ROOT, only)], capture_output=True, text=True, env=env)
        bad = [l for l in r.stdout.splitlines() if l.startswith("BAD")]
        und = [l for l in r.stdout.splitlines() if l.startswith("==") and ": ok" not in l]
        verdict = "KILLED " + bad[0].split()[1].split("#", 1)[1] if bad else ("undecided " + und[0][:160] if und else "SURVIVED")
        results.append((name, verdict))
    shutil.rmtree(scratch, ignore_errors=True)
    bad = 0
    for n, v in results:
        want_alarm = not n.startswith("eq_")
        okay = v.startswith("KILLED") if want_alarm else not v.startswith("KILLED")
        bad += not okay
        print(f"{n:40s} {'' if okay else '!!! '}{v if not (v == 'SURVIVED' and not want_alarm) else 'verified (no alarm)'}")
    return 1 if bad else 0


if __name__ == "__main__":
    sys.exit(main())
