#!/usr/bin/env python3
"""Writes obligations.baseline.json from the evidence files of the last quick run.

The ledger lists, per property, the names of the proof obligations the committed contracts generate on the current tree.
`./check` compares every run with it: an obligation of the ledger that is not generated any more (a branch that became
unreachable, a case that vanished, a contract that silently stopped applying) makes the run *undecided* (exit 2) -- a check
that proves fewer things than it used to must not keep reporting success.  Re-generate after every change of the contracts:
    tools/run_all.sh quick && tools/gen_ledger.py
"""
import glob
import json
import os

ROOT = os.path.dirname(os.path.dirname(os.path.abspath(__file__)))


def main():
    ledger = {}
    for f in sorted(glob.glob(os.path.join(ROOT, "evidence", "*.json"))):
        e = json.load(open(f))
        if e.get("tier") != "quick":
            print(f"skipping {os.path.basename(f)}: last run was tier {e.get('tier')}")
            continue
        names = [o["name"] for o in e["coverage"].get("obligation_list", [])]
        if names:
            ledger[e["property_id"]] = {"quick": sorted(names)}
    with open(os.path.join(ROOT, "obligations.baseline.json"), "w") as out:
        json.dump(ledger, out, indent=0, sort_keys=True)
    print({k: len(v["quick"]) for k, v in ledger.items()})


if __name__ == "__main__":
    main()
