#!/verif/.venv/bin/python
"""Stability audit of the verification conditions (development tool, not a registered check).

Every VC of the given properties is solved by z3 under several seeds and by cvc5, each with a short budget.  A VC whose
verdict is not reproduced by every stage is *unstable*: under machine load such a query is the one that flips to
`unknown`.  Output: one line per unstable VC with the per-stage verdicts and times.

  tools/stability.py C02 C07 ...        (default: every property with contracts)
"""
import importlib
import multiprocessing as mp
import os
import sys

ROOT = os.path.dirname(os.path.dirname(os.path.abspath(__file__)))
sys.path.insert(0, ROOT)
sys.path.insert(0, os.path.join(os.environ.get("VERIF_REPO", "/repo"), "src"))

from pyvc import smt  # noqa: E402
from pyvc.check import explore_all  # noqa: E402
from pyvc.contract import REGISTRY  # noqa: E402
from pyvc.plan import PLAN  # noqa: E402
from pyvc.source import SourceIndex  # noqa: E402

SEEDS = (0, 7, 23, 101)
BUDGET = float(os.environ.get("STABILITY_BUDGET", "20"))


def audit(vc):
    row = []
    for seed in SEEDS:
        st, dt, _, _ = smt._run_z3(vc.smt2, BUDGET, seed)
        row.append((f"z3/{seed}", st, round(dt, 2)))
    st, dt = smt._run_cvc5(vc.smt2, BUDGET, "fp" in vc.smt2.lower() and "FloatingPoint" in vc.smt2)[:2]
    row.append(("cvc5", st, round(dt, 2)))
    return vc.name, vc.expect, row


def main():
    pids = sys.argv[1:] or [p for p, v in PLAN.items() if v.get("contracts")]
    vcs, seen = [], set()
    for pid in pids:
        plan = PLAN[pid]
        for m in plan.get("contracts", []):
            importlib.import_module(m)
        todo = [c for c in REGISTRY.values() if pid in c.properties and not (c.trusted or c.abstract or c.inline)]
        for c, rep in zip(todo, explore_all(SourceIndex(), todo)):
            for v in rep.vcs:
                if (v.name, v.smt2) not in seen:
                    seen.add((v.name, v.smt2))
                    vcs.append(v)
        if plan.get("lemmas"):
            from pyvc.lemmas import lemma_vcs
            for v in lemma_vcs():
                if (v.name, v.smt2) not in seen:
                    seen.add((v.name, v.smt2))
                    vcs.append(v)
    print(f"{len(vcs)} VCs, seeds {SEEDS}, budget {BUDGET} s per stage")
    with mp.get_context("fork").Pool(os.cpu_count() or 4) as pool:
        rows = pool.map(audit, vcs, chunksize=1)
    unstable = 0
    for name, expect, row in rows:
        verdicts = {st for _, st, _ in row}
        z3_ok = sum(1 for be, st, _ in row if be.startswith("z3") and st == expect)
        slow = max(dt for _, _, dt in row)
        if len(verdicts) > 1 or slow > BUDGET / 2:
            unstable += 1
            print(("UNSTABLE " if z3_ok < len(SEEDS) else "slow     ") + name + "  expect=" + expect + "  " + "  ".join(f"{be}:{st}:{dt}" for be, st, dt in row))
    print(f"{unstable} of {len(vcs)} VCs are seed- or solver-dependent")


if __name__ == "__main__":
    main()
