#!/verif/.venv/bin/python
"""CPython cross-check of the symbolic executor (self-test of the engine, not a property check).

Small Python functions that exercise the semantics the contracts rely on are executed
  (1) natively by CPython on concrete arguments, and
  (2) by pyvc on SYMBOLIC arguments that are pinned to the same values by assumptions (so the symbolic code paths run,
      not the concrete shortcuts),
and the verification condition "the engine's result equals CPython's result" (or "raises the same exception class") must be
discharged for every feasible path.  A snippet the engine does not support counts as skipped, never as agreement.
Exit 0: every supported snippet agrees; exit 1: a disagreement (an unsound or wrong encoding).
"""
import os
import shutil
import sys
import textwrap

ROOT = os.path.dirname(os.path.dirname(os.path.abspath(__file__)))
SCRATCH = f"/tmp/pyvc_crosscheck_{os.getpid()}"

SNIPPETS = r'''
def floordiv_mod(a, b):
    return (a // b, a % b)

def chained(a, b, c):
    return a < b <= c

def bool_ops_value(a, b):
    return (a or b, a and b, not a)

def ternary(a, b):
    return a - b if a > b else b - a

def while_sum(n):
    s = 0
    i = 0
    while i < n:
        s += i
        i += 1
    return s

def for_break_else(n):
    out = -1
    for i in range(5):
        if i == n:
            out = i
            break
    else:
        out = 99
    return out

def try_except(a, b):
    try:
        r = a // b
    except ZeroDivisionError:
        r = -1
    finally:
        a = 0
    return r

def raises_value_error(a):
    if a < 0:
        raise ValueError("neg")
    return a

def str_ops(s, t):
    return (len(s), s + t, s.startswith(t), t in s, s == t)

def str_slices(s, i):
    return (s[:i], s[i:], s[1:-1])

def list_ops(a, b):
    l = [a, b]
    l.append(a + b)
    return (len(l), l[0], l[-1])

def list_slice(a, b, c):
    l = [a, b, c, a]
    return (l[1:], l[:-1], l[1:3])

def tuple_unpack(a, b):
    x, y = b, a
    return x - y

def min_max_abs(a, b):
    return (min(a, b), max(a, b), abs(a - b))

def int_of_bool(a, b):
    return int(a < b) + int(a == b)

def is_none(a, flag):
    x = None if flag else a
    if x is None:
        return -1
    return x

def dict_ops(a, b):
    d = {"x": a}
    d["y"] = b
    return (d["x"] + d["y"], "x" in d, len(d))

def aug_assign(a, b):
    a += b
    a *= 2
    a -= 1
    return a

def nested_if(a, b):
    if a > 0:
        if b > 0:
            return 1
        return 2
    elif a == 0:
        return 3
    return 4

def comprehension_sum(n):
    return sum(i * i for i in range(n))

def all_any(a, b, c):
    l = [a, b, c]
    return (all(x > 0 for x in l), any(x > 0 for x in l))

def float_ops(x, y):
    return (x + y, x * y, x / y, x < y)

def float_compare_one(h, total):
    return (h / total) == 1.0

def negative_index_str(s):
    return s[-1]

def seq_of_calls(a):
    def inner(v):
        return v + 1
    return inner(inner(a))

def lambda_call(a, b):
    f = lambda v, w=b: v * w
    return f(a)

def string_compare_ne(s, t):
    return s != t

def power_small(a):
    return a * a * a

def enumerate_loop(a, b):
    total = 0
    for i, v in enumerate([a, b, a]):
        total += i * v
    return total

def zip_loop(a, b):
    out = 0
    for x, y in zip([a, b], [b, a]):
        out += x - y
    return out

def seq_slices(l, i):
    return (l[:i], l[i:], l[:-1], len(l[1:]), l[0], l[-1], l[1:3])

def seq_concat(a, b):
    c = [*a, *b]
    return (len(c), c[0], c[-1], c[:2], a + b)

def seq_append(l, a):
    l.append(a)
    l.append(a + 1)
    return (l, len(l), l[-1], l[0])

def seq_extend(a, b):
    a.extend(b)
    a.extend([7])
    return (a, len(a), a[-1])

def seq_compare(a, b):
    return (a == b, len(a) == len(b), a[:1] == b[:1])

def seq_index_error(l, i):
    return l[i]

def str_more(s, t):
    return (s.endswith(t), s + t + s, len(s + t), s[0:2] == t, (s, t) == (t, s))

def not_in_and_in(a, b, c):
    l = [a, b]
    return (c in l, c not in l, (c in l) == (c == a or c == b))

def list_mutation(a, b):
    l = [a]
    l.extend([b, a])
    l.insert(0, b)
    x = l.pop()
    return (l, x, len(l))

def try_finally_return(a):
    x = 0
    try:
        if a > 0:
            return a
        x = 1
    finally:
        x += 10
    return x

def nested_try(a, b):
    try:
        try:
            if b == 0:
                raise KeyError("k")
            r = a // 1
        except ValueError:
            r = -2
    except KeyError:
        r = -3
    return r

def assert_stmt(a):
    assert a > 0, "positive"
    return a

def isinstance_checks(a, s):
    return (isinstance(a, int), isinstance(s, str), isinstance(a, str), isinstance(s, (int, str)))

def compare_tuples(a, b):
    return ((a, b) == (b, a), (a, b) != (a, b))

def bool_of_values(a, s):
    return (bool(a), bool(s), not s, a and s)

def int_bit_ops(a):
    return (a & 1, a & 1 == a)

def default_args(a, b=3, *, c=4):
    return a + b * c

def closure_counter(a):
    total = a
    def add(v):
        return total + v
    return add(1) + add(2)

def while_break(a):
    i = 0
    while True:
        i += 1
        if i >= 3:
            break
    return i + a

def unpack_nested(a, b):
    (x, y), z = (a, b), a + b
    return x * y - z

def float_sum_three(x):
    return x / 3 * 3 == x

def float_accumulate(x):
    t = 0.0
    t += x
    t += x
    t /= 2
    return t == x

class Base:
    SCALE = 3

    def __init__(self, v):
        self.v = v
        self._hidden = v + 1

    @property
    def hidden(self):
        return self._hidden

    def bump(self, d=1):
        self.v += d
        return self.v

    def describe(self):
        return self.v * self.SCALE

    @staticmethod
    def twice(x):
        return 2 * x


class Derived(Base):
    SCALE = 5

    def __init__(self, v, w):
        super().__init__(v)
        self.w = w

    def bump(self, d=1):
        r = super().bump(d)
        return r + self.w


def objects_basic(a, b):
    o = Base(a)
    o.bump()
    o.bump(b)
    return (o.v, o.hidden, o.describe(), Base.twice(a), o.twice(b))

def objects_inheritance(a, b):
    d = Derived(a, b)
    r = d.bump(2)
    return (r, d.v, d.describe(), isinstance(d, Base), d.hidden)

def objects_alias(a):
    o = Base(a)
    p = o
    p.v = a + 5
    q = Base(a)
    return (o.v, o is p, o is q, o.v == q.v)

def fstring(a, s):
    return f"{s}-{a}" == s + "-" + str(a)

def attr_aug_assign(a):
    o = Base(a)
    o.v *= 2
    o.v -= 1
    return o.v

def getattr_default(a):
    o = Base(a)
    return (getattr(o, "v", -1), getattr(o, "missing", -1), hasattr(o, "v"), hasattr(o, "nope"))

def early_continue(a):
    out = 0
    for i in range(4):
        if i == a:
            continue
        out += i
    return out
'''

CASES = {
    "floordiv_mod": [(7, 2), (-7, 2), (7, -2), (-7, -2), (0, 3)],
    "chained": [(1, 2, 2), (2, 2, 1), (3, 1, 5)],
    "bool_ops_value": [(0, 5), (3, 0), (0, 0), (2, 7)],
    "ternary": [(5, 3), (3, 5), (4, 4)],
    "while_sum": [(0,), (4,)],
    "for_break_else": [(2,), (7,)],
    "try_except": [(7, 2), (7, 0)],
    "raises_value_error": [(3,), (-1,)],
    "str_ops": [("hello", "he"), ("ab", "abc"), ("", ""), ("xyz", "z")],
    "str_slices": [("hello", 2), ("ab", 5), ("abc", 0)],
    "list_ops": [(1, 2), (-3, 3)],
    "list_slice": [(1, 2, 3)],
    "tuple_unpack": [(1, 5)],
    "min_max_abs": [(3, 9), (9, 3), (-2, -2)],
    "int_of_bool": [(1, 2), (2, 2), (3, 2)],
    "is_none": [(4, True), (4, False)],
    "dict_ops": [(1, 2)],
    "aug_assign": [(3, 4), (-1, 0)],
    "nested_if": [(1, 1), (1, -1), (0, 5), (-2, 5)],
    "comprehension_sum": [(4,), (0,)],
    "all_any": [(1, 2, 3), (0, -1, 2), (0, 0, 0)],
    "float_ops": [(0.5, 0.25), (1.0, 3.0), (-2.5, 0.1)],
    "float_compare_one": [(49.0, 49.0), (1.0, 3.0)],
    "negative_index_str": [("abc",)],
    "seq_of_calls": [(5,)],
    "lambda_call": [(3, 4)],
    "string_compare_ne": [("a", "a"), ("a", "b")],
    "power_small": [(3,), (-2,)],
    "enumerate_loop": [(2, 5)],
    "zip_loop": [(2, 5)],
    "early_continue": [(2,), (9,)],
    "objects_basic": [(1, 2), (-3, 0)],
    "objects_inheritance": [(1, 2)],
    "objects_alias": [(4,)],
    "fstring": [(3, "x")],
    "attr_aug_assign": [(4,)],
    "getattr_default": [(7,)],
    "str_more": [("ab", "b"), ("ab", "ab"), ("", "x")],
    "not_in_and_in": [(1, 2, 2), (1, 2, 3)],
    "list_mutation": [(1, 2)],
    "try_finally_return": [(5,), (-5,)],
    "nested_try": [(4, 0), (4, 1)],
    "assert_stmt": [(2,), (0,)],
    "isinstance_checks": [(1, "s")],
    "compare_tuples": [(1, 1), (1, 2)],
    "bool_of_values": [(0, ""), (2, "x"), (0, "x")],
    "int_bit_ops": [(0,), (1,), (2,), (3,)],
    "default_args": [(1,)],
    "closure_counter": [(10,)],
    "while_break": [(4,)],
    "unpack_nested": [(2, 3)],
    "float_sum_three": [(1.0,), (0.1,), (49.0,)],
    "float_accumulate": [(0.1,), (1e308,)],
    "seq_slices": [([5, 6, 7, 8], 2), ([5, 6, 7], 0), ([5, 6, 7], 9), ([4], -1)],
    "seq_concat": [([1, 2], [3]), ([1], [2, 3, 4])],
    "seq_append": [([1, 2], 5), ([], 0)],
    "seq_extend": [([1], [2, 3]), ([], [4])],
    "seq_compare": [([1, 2], [1, 2]), ([1, 2], [1, 3]), ([1], [1, 2])],
    "seq_index_error": [([1, 2], 1), ([1, 2], 2), ([1, 2], -1)],
}


def main():
    shutil.rmtree(SCRATCH, ignore_errors=True)
    os.makedirs(os.path.join(SCRATCH, "src", "fandango"))
    open(os.path.join(SCRATCH, "src", "fandango", "xcheck.py"), "w").write(textwrap.dedent(SNIPPETS))
    os.environ["VERIF_REPO"] = SCRATCH
    sys.path.insert(0, ROOT)
    import z3
    from pyvc.contract import Contract
    from pyvc.smt import solve_all
    from pyvc.source import SourceIndex
    from pyvc.values import SBool, SFloat, SInt, SList, SStr
    from pyvc.verify import verify_function
    from pyvc.ops import str_term, to_term_int
    from pyvc.values import fpval

    native_ns = {}
    exec(textwrap.dedent(SNIPPETS), native_ns)

    def conc_seq(v):
        t = z3.Empty(z3.SeqSort(z3.IntSort()))
        for x in v:
            t = z3.Concat(t, z3.Unit(z3.IntVal(x))) if len(v) > 1 else z3.Unit(z3.IntVal(x))
        if len(v) > 1:
            t = z3.Concat(*[z3.Unit(z3.IntVal(x)) for x in v])
        return t

    def equal(engine, native):
        """z3 Bool: the engine's value denotes the native value"""
        if isinstance(native, tuple):
            if not isinstance(engine, tuple) or len(engine) != len(native):
                return z3.BoolVal(False)
            return z3.And(*[equal(e, n) for e, n in zip(engine, native)]) if native else z3.BoolVal(True)
        if isinstance(native, list):
            if isinstance(engine, SList) and "seq" in engine.ghost:
                return engine.ghost["seq"] == conc_seq(native)
            if isinstance(engine, SList) and engine.concrete:
                if len(engine.items) != len(native):
                    return z3.BoolVal(False)
                return z3.And(*[equal(e, n) for e, n in zip(engine.items, native)]) if native else z3.BoolVal(True)
            return z3.BoolVal(False)
        if isinstance(native, bool):
            if isinstance(engine, bool):
                return z3.BoolVal(engine == native)
            if isinstance(engine, SBool):
                return engine.term == z3.BoolVal(native)
            return z3.BoolVal(False)
        if isinstance(native, int):
            if isinstance(engine, bool):
                return z3.BoolVal(False)
            if isinstance(engine, int):
                return z3.BoolVal(engine == native)
            if isinstance(engine, SInt):
                return to_term_int(engine) == native
            return z3.BoolVal(False)
        if isinstance(native, float):
            if isinstance(engine, float):
                return z3.BoolVal(engine == native)
            if isinstance(engine, SFloat):
                return z3.fpEQ(engine.term, fpval(native))
            return z3.BoolVal(False)
        if isinstance(native, str):
            if isinstance(engine, str):
                return z3.BoolVal(engine == native)
            if isinstance(engine, SStr):
                return str_term(engine) == z3.StringVal(native)
            return z3.BoolVal(False)
        if native is None:
            return z3.BoolVal(engine is None)
        return z3.BoolVal(False)

    def contract_for(fname, args):
        try:
            import copy as _copy
            want, exc = native_ns[fname](*_copy.deepcopy(args)), None
        except Exception as e:          # noqa: BLE001
            want, exc = None, type(e).__name__

        class C(Contract):
            target = f"xcheck.py:{fname}"
            key = f"xcheck.py:{fname}{args!r}"
            float_mode = "ieee"

            def inputs(self, cx):
                import ast as _ast
                mod = _ast.parse(textwrap.dedent(SNIPPETS))
                fn = [n for n in mod.body if isinstance(n, _ast.FunctionDef) and n.name == fname][0]
                # methods of the snippet module's classes are executed, not summarised
                cx.ghost["inline_ok"] = {f"xcheck.py:{c.name}.{m.name}" for c in mod.body if isinstance(c, _ast.ClassDef)
                                         for m in c.body if isinstance(m, _ast.FunctionDef)}
                out = {}
                for p, v in zip(fn.args.args, args):
                    if isinstance(v, bool):
                        s = cx.bool(p.arg)
                        cx.assume(s.term == z3.BoolVal(v))
                    elif isinstance(v, int):
                        s = cx.int(p.arg)
                        cx.assume(to_term_int(s) == v)
                    elif isinstance(v, float):
                        s = cx.float(p.arg)
                        cx.assume(z3.fpEQ(s.term, fpval(v)))
                    elif isinstance(v, str):
                        s = cx.str(p.arg, named=True)
                        cx.assume(s.term == z3.StringVal(v))
                    elif isinstance(v, list):
                        from pyvc.ops import seq_list
                        sq = z3.Const(p.arg + "_seq", z3.SeqSort(z3.IntSort()))
                        cx.assume(sq == conc_seq(v))
                        s = seq_list(sq, fresh=False, label=p.arg)
                    else:
                        raise AssertionError(v)
                    out[p.arg] = s
                return out

            def ensures(self, cx, a, r):
                if exc is not None:
                    return [("cpython_raises_here", z3.BoolVal(False))]
                # soundness: CPython's result is among the results the engine allows on this path (expect sat)
                cx.oblige(f"{self.key}#sound", equal(r, want), kind="cover", expect="sat")
                # precision: it is the only one
                return [("same_result_as_cpython", equal(r, want))]

            def ensures_raise(self, cx, a, e):
                same = exc is not None and e.cls == exc
                cx.oblige(f"{self.key}#sound", z3.BoolVal(same), kind="cover", expect="sat")
                return [("same_exception_as_cpython", z3.BoolVal(same))]

        return C(), want, exc

    index = SourceIndex(os.path.join(SCRATCH, "src", "fandango"))
    agree, skipped, bad, imprecise = 0, [], [], []
    for fname, arglists in CASES.items():
        for args in arglists:
            c, want, exc = contract_for(fname, args)
            rep = verify_function(index, c, {})
            if rep.status != "ok":
                skipped.append((fname, args, rep.status, rep.message[:100]))
                continue
            vcs = [v for v in rep.vcs if not v.name.endswith("#cover:requires")]
            res = solve_all(vcs, 30, jobs=1)
            sound = [r for r in res if r.name.endswith("#sound")]
            posts = [r for r in res if not r.name.endswith("#sound")]
            if not sound:
                bad.append((fname, args, "no obligation generated"))
            elif not any(r.ok for r in sound):
                bad.append((fname, args, f"UNSOUND: CPython gives {want if exc is None else exc}, which no path of the engine allows"))
            elif all(r.ok for r in posts):
                agree += 1
            else:
                imprecise.append((fname, args, f"CPython gives {want if exc is None else exc}; the engine allows it but also other results (over-approximation)"))
    shutil.rmtree(SCRATCH, ignore_errors=True)
    print(f"cross-check: {agree} (function, arguments) cases agree exactly with CPython, {len(imprecise)} over-approximated (sound), "
          f"{len(skipped)} not supported by the engine, {len(bad)} DISAGREE")
    for s in imprecise:
        print("  over-approximated", s)
    for s in skipped:
        print("  skipped", s)
    for b in bad:
        print("  DISAGREE", b)
    return 1 if bad else 0


if __name__ == "__main__":
    sys.exit(main())
