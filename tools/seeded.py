#!/usr/bin/env python3
"""Confirm a seeded change and run the checks against it.

  tools/seeded.py confirm <src_dir> <name>      # scratch worktree: demo passes clean, fails with patch, suite's stable_pass still passes
  tools/seeded.py check <name> [pid ...]        # scratch worktree with the patch, ./check <pid> with VERIF_REPO pointing at it
Everything happens in worktrees under /tmp that are removed afterwards; /repo itself is not touched.
"""
import json, os, shutil, subprocess, sys, time, xml.etree.ElementTree as ET

VERIF = os.path.dirname(os.path.dirname(os.path.abspath(__file__)))


def sh(cmd, **kw):
    return subprocess.run(cmd, shell=True, capture_output=True, text=True, **kw)


def worktree(tag):
    wt = f"/tmp/wtc_{tag}_{os.getpid()}"
    sh(f"git -C /repo worktree remove --force {wt}")
    r = sh(f"git -C /repo worktree add -q --detach {wt} HEAD")
    assert r.returncode == 0, r.stderr
    return wt


def drop(wt):
    sh(f"git -C /repo worktree remove --force {wt}")
    shutil.rmtree(wt, ignore_errors=True)


def run_demo(wt, demo):
    env = dict(os.environ, PYTHONPATH=f"{wt}/src")
    env.pop("FANDANGO_RAISE_ALL_EXCEPTIONS", None)
    text = open(demo).read()
    # demos were written against the agent's own worktree path
    import re
    text = re.sub(r"/tmp/wt_C\d+", wt, text)
    tmp = f"{wt}/_demo.py"
    open(tmp, "w").write(text)
    try:
        p = subprocess.run(["/venv/bin/python", tmp], capture_output=True, text=True, timeout=600, env=env, cwd=wt)
        rc, out = p.returncode, (p.stdout + p.stderr)[-1500:]
    except subprocess.TimeoutExpired:
        rc, out = 124, "timeout"
    os.unlink(tmp)
    return rc, out


def suite(wt):
    xml = f"/tmp/seeded_junit_{os.getpid()}.xml"
    sh(f"cd {wt} && PYTHONPATH={wt}/src /venv/bin/python -m pytest -q -p no:cacheprovider --timeout=900 --continue-on-collection-errors --junitxml={xml}", timeout=3000)
    base = set(json.load(open("/root/.vp/BASELINE.json"))["stable_pass"])
    passed = set()
    for tc in ET.parse(xml).getroot().iter("testcase"):
        if not any(ch.tag in ("failure", "error", "skipped") for ch in tc):
            passed.add(f"{tc.get('classname')}::{tc.get('name')}")
    os.unlink(xml)
    missing = sorted(base - passed)
    # timing-sensitive protocol tests flake under load: re-run the missing ones alone once
    still = []
    for m in missing:
        cls, name = m.split("::")
        path = cls.replace(".", "/")
        parts = path.split("/")
        # classname may include the TestCase class
        cand = [("/".join(parts) + ".py", None), ("/".join(parts[:-1]) + ".py", parts[-1])]
        ok = False
        for f, k in cand:
            if os.path.exists(os.path.join(wt, f)):
                sel = f"{f}::{k}::{name}" if k else f"{f}::{name}"
                for _attempt in range(3):     # timing-sensitive protocol tests flake under machine load
                    r = sh(f"cd {wt} && PYTHONPATH={wt}/src /venv/bin/python -m pytest -q -p no:cacheprovider -p no:xdist -o addopts='' '{sel}'", timeout=900)
                    ok = r.returncode == 0
                    if ok:
                        break
                break
        if not ok:
            still.append(m)
    return len(passed), missing, still


def confirm(src, name):
    dst = os.path.join(VERIF, "seeded", name)
    meta = json.load(open(os.path.join(src, "meta.json")))
    wt = worktree(name)
    try:
        rc_clean, out_clean = run_demo(wt, os.path.join(src, "demo.py"))
        r = sh(f"git -C {wt} apply {src}/patch.diff")
        if r.returncode != 0:
            print("PATCH DOES NOT APPLY", r.stderr[:300]); return 1
        r = sh(f"cd {wt} && PYTHONPATH={wt}/src /venv/bin/python -c 'import fandango, fandango.evolution.algorithm, fandango.cli'")
        imports = r.returncode == 0
        rc_patch, out_patch = run_demo(wt, os.path.join(src, "demo.py"))
        npass, missing, still = suite(wt)
    finally:
        drop(wt)
    ok = rc_clean == 0 and rc_patch != 0 and imports and not still
    print(f"{name}: demo clean rc={rc_clean}, with patch rc={rc_patch}, imports={imports}, suite passed={npass} baseline-missing={missing} after-rerun={still} -> {'CONFIRMED' if ok else 'REJECTED'}")
    if not ok:
        print(out_clean[-400:], "\n---\n", out_patch[-400:])
        return 1
    os.makedirs(dst, exist_ok=True)
    shutil.copy(os.path.join(src, "patch.diff"), dst)
    shutil.copy(os.path.join(src, "demo.py"), dst)
    meta["confirmed_by_me"] = {
        "demo_on_clean_tree_rc": rc_clean, "demo_with_patch_rc": rc_patch, "imports_ok": imports,
        "suite_passed": npass, "baseline_tests_missing_in_full_run": missing, "still_failing_when_rerun_alone": still,
        "repo_head": sh("git -C /repo rev-parse --short HEAD").stdout.strip(),
        "how": "scratch worktree of /repo HEAD under /tmp; demo.py run with PYTHONPATH=<worktree>/src before and after `git apply patch.diff`; full suite with the patch compared with BASELINE.json stable_pass (tests missing in the loaded full run re-run alone)",
    }
    json.dump(meta, open(os.path.join(dst, "meta.json"), "w"), indent=1)
    return 0


def check(name, pids):
    d = os.path.join(VERIF, "seeded", name)
    meta = json.load(open(os.path.join(d, "meta.json")))
    pids = pids or [meta["property"]]
    wt = worktree("chk_" + name)
    res = {}
    try:
        r = sh(f"git -C {wt} apply {d}/patch.diff")
        assert r.returncode == 0, r.stderr
        for pid in pids:
            t0 = time.time()
            env = dict(os.environ, VERIF_REPO=wt)
            p = subprocess.run([os.path.join(VERIF, "check"), pid], capture_output=True, text=True, env=env, timeout=3600)
            lines = [l for l in p.stdout.splitlines() if l.startswith(("VIOLATION", "UNDECIDED", "KNOWN-FINDING", "CHECKER-ERROR", "["))]
            res[pid] = {"exit": p.returncode, "lines": lines[:8], "s": round(time.time() - t0, 1)}
            print(name, pid, "exit", p.returncode, *lines[:6], sep="\n   ")
    finally:
        drop(wt)
    meta.setdefault("checks_run", {}).update(res)
    json.dump(meta, open(os.path.join(d, "meta.json"), "w"), indent=1)
    return 0


if __name__ == "__main__":
    if sys.argv[1] == "confirm":
        sys.exit(confirm(sys.argv[2], sys.argv[3]))
    sys.exit(check(sys.argv[2], sys.argv[3:]))
