#!/usr/bin/env python3
"""Deliberate property-breaking edits of the fuzz() family on a scratch copy: every one must fail a named obligation
(development self-test of contracts/fuzz.py; the scratch copy lives under /tmp and is removed)."""
import os, shutil, subprocess, sys

ROOT = os.path.dirname(os.path.dirname(os.path.abspath(__file__)))
N = "src/fandango/language/grammar/nodes/"
MUTANTS = [
    ("cat_skips_first_node", N + "concatenation.py", "for node in self.nodes:\n            if node.distance", "for node in self.nodes[1:]:\n            if node.distance", "Concatenation.fuzz"),
    ("cat_fuzzes_node_twice", N + "concatenation.py", "                node.fuzz(parent, grammar, 0, in_message)\n", "                node.fuzz(parent, grammar, 0, in_message)\n                node.fuzz(parent, grammar, 0, in_message)\n", "Concatenation.fuzz"),
    ("rep_breaks_one_early", N + "repetition.py", "if rep >= self.min and override_iterations_to_perform is None:", "if rep >= self.min - 1 and override_iterations_to_perform is None:", "Repetition.fuzz"),
    ("rep_goal_above_max", N + "repetition.py", "rep_goal = random.randint(self.min, self.max)", "rep_goal = random.randint(self.min, self.max + 1)", "Repetition.fuzz"),
    ("rep_goal_below_min", N + "repetition.py", "rep_goal = random.randint(self.min, self.max)", "rep_goal = random.randint(0, self.max)", "Repetition.fuzz"),
    ("alt_fuzzes_two_alternatives", N + "alternative.py", "        random.choice(in_range_nodes).fuzz(parent, grammar, max_nodes, in_message)\n",
     "        random.choice(in_range_nodes).fuzz(parent, grammar, max_nodes, in_message)\n        random.choice(in_range_nodes).fuzz(parent, grammar, max_nodes, in_message)\n", "Alternative.fuzz"),
    ("nt_keeps_dummy", N + "non_terminal.py", "            return\n        parent.set_children(parent.children[:-1])\n", "            return\n", "NonTerminalNode.fuzz"),
    ("nt_generator_reversed_params", N + "non_terminal.py", "generated = grammar.generate(self.symbol, parameters)", "generated = grammar.generate(self.symbol, parameters[:-1])", "NonTerminalNode.fuzz"),
    ("nt_generator_children_not_protected", N + "non_terminal.py", "            for child in generated.children:\n                child.set_all_read_only(True)\n", "", "NonTerminalNode.fuzz"),
    ("nt_wrong_rule", N + "non_terminal.py", "grammar[self.symbol].fuzz(current_tree, grammar, max_nodes - 1, in_message)", "grammar[self.symbol].fuzz(parent, grammar, max_nodes - 1, in_message)", "NonTerminalNode.fuzz"),
    ("terminal_repeats", N + "terminal.py", "        repetitions = 1\n", "        repetitions = 2\n", "TerminalNode.fuzz"),
    ("terminal_utf8", N + "terminal.py", 'instance = get_one(pattern).encode("latin-1")', 'instance = get_one(pattern).encode("utf-8")', "TerminalNode.fuzz"),
    ("grammar_returns_first_child", "src/fandango/language/grammar/grammar.py", "        root = root.children[fuzzed_idx]\n", "        root = root.children[0]\n", "Grammar.fuzz"),
    ("plus_starts_at_one", N + "repetition.py", "                in_message,\n                override_current_iteration,\n                override_starting_repetition,\n                override_iterations_to_perform,\n            )\n\n    def accept(\n        self,\n        visitor: \"fandango.language.grammar.node_visitors.node_visitor.NodeVisitor[fandango.language.grammar.node_visitors.node_visitor.AggregateType, fandango.language.grammar.node_visitors.node_visitor.ResultType]\",\n    ) -> Any:  # should be ResultType, beartype falls on its face\n        return visitor.visitPlus(self)",
     "                in_message,\n                override_current_iteration,\n                override_starting_repetition,\n                1,\n            )\n\n    def accept(\n        self,\n        visitor: \"fandango.language.grammar.node_visitors.node_visitor.NodeVisitor[fandango.language.grammar.node_visitors.node_visitor.AggregateType, fandango.language.grammar.node_visitors.node_visitor.ResultType]\",\n    ) -> Any:  # should be ResultType, beartype falls on its face\n        return visitor.visitPlus(self)", "Plus.fuzz"),
]

DRIVER = r'''
import sys
sys.path.insert(0, %r)
from pyvc import run
run.CONTRACT_MODULES = ["contracts.fuzz"]
sys.exit(run.main(["--only", %r]))
'''


def main():
    scratch = f"/tmp/mutants_fuzz_{os.getpid()}"
    results = []
    for name, rel, old, new, only in MUTANTS:
        shutil.rmtree(scratch, ignore_errors=True)
        os.makedirs(scratch)
        shutil.copytree("/repo/src", scratch + "/src")
        p = os.path.join(scratch, rel)
        text = open(p).read()
        if text.count(old) != 1:
            results.append((name, f"PATTERN-NOT-FOUND x{text.count(old)}"))
            continue
        open(p, "w").write(text.replace(old, new))
        env = dict(os.environ, VERIF_REPO=scratch, PYTHONPATH=f"{ROOT}:{scratch}/src")
        r = subprocess.run([os.path.join(ROOT, ".venv/bin/python"), "-c", DRIVER % (ROOT, only)], capture_output=True, text=True, env=env)
        bad = [l for l in r.stdout.splitlines() if l.startswith("BAD")]
        und = [l for l in r.stdout.splitlines() if l.startswith("==") and ": ok" not in l]
        verdict = "KILLED " + bad[0].split()[1].split("#", 1)[1] if bad else ("undecided " + und[0][:160] if und else "SURVIVED")
        results.append((name, verdict))
    shutil.rmtree(scratch, ignore_errors=True)
    for n, v in results:
        print(f"{n:40s} {v}")
    return 0 if all(v.startswith("KILLED") for _, v in results) else 1


if __name__ == "__main__":
    sys.exit(main())
