#!/bin/sh
# Runs the repository's pinned suite against the WORKING TREE (PYTHONPATH=/repo/src: /venv holds a copy of
# fandango that would hide edits) and compares the set of passing tests with /root/.vp/BASELINE.json stable_pass.
OUT="${1:-/tmp/baseline.junit.xml}"
cd /repo && PYTHONPATH=/repo/src /venv/bin/python -m pytest -ra -q -p no:cacheprovider --timeout=900 \
   --continue-on-collection-errors --junitxml="$OUT" >/tmp/baseline.log 2>&1
/venv/bin/python - "$OUT" <<'PY'
import json, sys, xml.etree.ElementTree as ET
base = set(json.load(open('/root/.vp/BASELINE.json'))['stable_pass'])
root = ET.parse(sys.argv[1]).getroot()
passed = set()
for tc in root.iter('testcase'):
    if not any(ch.tag in ('failure', 'error', 'skipped') for ch in tc):
        passed.add(f"{tc.get('classname')}::{tc.get('name')}")
missing = sorted(base - passed)
print(f"baseline stable_pass={len(base)} passed_now={len(passed)} baseline tests not passing now={len(missing)}")
for m in missing[:40]:
    print("  NOT PASSING:", m)
sys.exit(1 if missing else 0)
PY
