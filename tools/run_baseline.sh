#!/bin/sh
# Runs the repository's pinned suite against the WORKING TREE (PYTHONPATH=/repo/src: /venv holds a copy of
# fandango that would hide edits) and compares the set of passing tests with /root/.vp/BASELINE.json stable_pass.
OUT="${1:-/tmp/baseline.junit.xml}"
cd /repo && PYTHONPATH=/repo/src /venv/bin/python -m pytest -ra -q -p no:cacheprovider --timeout=900 \
   --continue-on-collection-errors --junitxml="$OUT" >/tmp/baseline.log 2>&1
/venv/bin/python - "$OUT" <<'PY'
import json, sys, xml.etree.ElementTree as ET
base = set(json.load(open('/root/.vp/BASELINE.json'))['stable_pass'])
root = ET.parse(sys.argv[1]).getroot()
passed = set()
for tc in root.iter('testcase'):
    if not any(ch.tag in ('failure', 'error', 'skipped') for ch in tc):
        passed.add(f"{tc.get('classname')}::{tc.get('name')}")
missing = sorted(base - passed)
# timing-sensitive protocol tests (fixed ports, 15 s timeouts) flake when the machine is loaded: re-run the missing ones alone
import os, subprocess
still = []
for m in missing:
    cls, name = m.split("::")
    parts = cls.split(".")
    sel = None
    for f, k in (("/".join(parts) + ".py", None), ("/".join(parts[:-1]) + ".py", parts[-1])):
        if os.path.exists(os.path.join("/repo", f)):
            sel = f"{f}::{k}::{name}" if k else f"{f}::{name}"
            break
    ok = False
    for _ in range(3):
        if sel is None:
            break
        r = subprocess.run(f"cd /repo && PYTHONPATH=/repo/src /venv/bin/python -m pytest -q -p no:cacheprovider -p no:xdist -o addopts='' '{sel}'", shell=True, capture_output=True)
        if r.returncode == 0:
            ok = True
            break
    if not ok:
        still.append(m)
if missing:
    print("missing in the parallel run:", missing, "-> still failing when run alone:", still)
missing = still
print(f"baseline stable_pass={len(base)} passed_now={len(passed)} baseline tests not passing now={len(missing)}")
for m in missing[:40]:
    print("  NOT PASSING:", m)
sys.exit(1 if missing else 0)
PY
