#!/usr/bin/env python3
"""Regenerates MANIFEST.json from pyvc/plan.py (single source) and validates it against the schema."""
import json, os, sys
ROOT = os.path.dirname(os.path.dirname(os.path.abspath(__file__)))
sys.path.insert(0, ROOT)
from pyvc.plan import PLAN, MANIFEST_TEXT, NOT_APPLICABLE  # noqa

checks = []
for pid in sorted(PLAN):
    p = PLAN[pid]
    t = MANIFEST_TEXT[pid]
    checks.append({
        "property_id": pid,
        "quick_cmd": f"./check {pid} --tier quick",
        "thorough_cmd": f"./check {pid} --tier thorough",
        "evidence_file": f"/verif/evidence/{pid}.json",
        "replay_cmd_template": f"./check {pid} --replay {{path}}",
        "engine": "pyvc",
        "level_claimed": {"category": p["level"], "text": t["text"], "design_ref": t.get("design_ref", f"DESIGN.md §4 {pid}")},
        "level_note": t["note"],
        "technique": t["technique"],
    })
all_ids = [json.loads(l)["id"] for l in open(os.path.join(ROOT, "properties.jsonl"))]
na = [{"property_id": i, "reason": NOT_APPLICABLE[i]} for i in all_ids if i not in PLAN]
manifest = {
    "version": 1,
    "setup_cmd": "./setup.sh",
    "hooks": {
        "guard": "FANDANGO_FUZZER_FANDANGO_VERIF",
        "enable": "no hooks: contracts are sidecar files under /verif/contracts, the repository is read (ast) and imported with PYTHONPATH=/repo/src, never instrumented",
        "baseline_off_cmd": "/verif/tools/run_baseline.sh",
        "source_commits": [],
        "add_only": True,
    },
    "engines": [{"name": "pyvc", "path": "/verif/pyvc", "serves_properties": sorted(PLAN),
                 "kind_free_text": "self-written verification-condition generator over the real source (ast -> path-wise symbolic execution -> z3/cvc5), sidecar contracts; bounded run-time-contract harnesses where stated"}],
    "checks": checks,
    "not_applicable": na,
    "notes": "Contract-based deductive verification of the real code; see DESIGN.md. Exit codes of ./check: 0 held, 1 violation, 2 undecided, 3 checker crash.",
}
json.dump(manifest, open(os.path.join(ROOT, "MANIFEST.json"), "w"), indent=1)
try:
    import jsonschema
    jsonschema.validate(manifest, json.load(open("/root/.vp/MANIFEST.schema.json")))
    print("MANIFEST.json valid;", len(checks), "checks,", len(na), "not applicable")
except ImportError:
    print("jsonschema missing; not validated")
