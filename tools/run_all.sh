#!/bin/sh
# runs every claimed check (quick tier by default) and prints one line per property
cd "$(dirname "$0")/.."
TIER="${1:-quick}"
IDS=$(.venv/bin/python -c "import sys; sys.path.insert(0,'.'); from pyvc.plan import PLAN; print(' '.join(sorted(PLAN)))")
mkdir -p out/logs
for id in $IDS; do
  ( ./check $id --tier $TIER > out/logs/$id.log 2>&1; echo "$id exit=$? $(grep -c '^KNOWN-FINDING' out/logs/$id.log) known $(tail -1 out/logs/$id.log)" ) &
  # at most 4 at a time
  sleep 0
done
wait
