"""Bounded stand-ins for C04 (parsing is sound) and C05 (round trip / every word of the language is accepted).

Run-time contracts on the real functions (the repository is imported, never modified):
  C04  post(Grammar.parse_forest(w, COMPLETE)):  every yielded tree t is a valid derivation (oracle.valid), carries no
       helper symbol, and serialise(t) == w;  post(Fandango.parse(w)): additionally every constraint, re-evaluated by
       brand-new constraint objects, holds.
  C05  for a tree t produced by Grammar.fuzz / Fandango.fuzz:  parse(serialise(t)) yields a tree with the identical
       serialisation that passes the constraints and cli.utils.validate(t, u) does not raise;  for every word of the
       bounded language enumeration (oracle.language, independent of the fuzzer): parse accepts it.
Inputs: all specs of bounded/family.py; words = bounded language + single-edit near misses + all short strings over the
spec's alphabet.  A parse call that exceeds its time budget is NOT judged here (termination is C06).
"""
from __future__ import annotations

import os
import random
import signal
import sys
import time

from bounded import family
from bounded.oracle import language, serialise, valid, word_value

PARSE_BUDGET_S = 20


class _Timeout(BaseException):
    """(not an Exception: neither the harnesses' nor fandango's own `except Exception` handlers may swallow the budget alarm --
    a swallowed alarm was once compared as the outcome "raises _Timeout")"""


def _alarm(signum, frame):
    raise _Timeout()


def with_budget(fn, budget=PARSE_BUDGET_S):
    old = signal.signal(signal.SIGALRM, _alarm)
    signal.alarm(budget)
    try:
        return fn(), False
    except _Timeout:
        return None, True
    finally:
        signal.alarm(0)
        signal.signal(signal.SIGALRM, old)


def atoms_for(name):
    bits = name.startswith("bits") or "bits" in name
    return 11 if bits else 5


def words_of(grammar, name):
    L = language(grammar, max_atoms=atoms_for(name), regex_alphabet="abx01")
    out = {}
    for w in L:
        kind, val = word_value(w)
        if kind is not None:
            out[val] = w
    return out


def latin1_variants(words):
    """byte inputs in which text atoms are Latin-1 instead of UTF-8 encoded (what a bytes input may contain)"""
    out = []
    for val, w in words.items():
        if not isinstance(val, bytes):
            continue
        try:
            alt = b"".join((v.encode("latin-1") if k == "s" else v) for k, v in w if k != "bit")
        except UnicodeEncodeError:
            continue
        if any(k == "bit" for k, _ in w):
            continue
        if alt != val:
            out.append(alt)
    return out


def wide_char_variants(words, limit=12):
    """TEXT inputs in which one byte of a byte-serialised word is replaced by the character 256 code points up (same low 8 bits,
    no 8-bit representation): such an input is the serialisation of no tree"""
    out = []
    for val in sorted((v for v in words if isinstance(v, bytes) and v), key=repr)[:limit]:
        for i in (0, len(val) - 1):
            out.append("".join(chr(b + (256 if j == i else 0)) for j, b in enumerate(val)))
    return out


def alphabet_of(words):
    chars = set()
    for v in words:
        for c in v:
            chars.add(c)
    return sorted(chars, key=repr)[:5]


def near_misses(words, rnd, limit):
    vals = list(words)
    # (a language may hold text words and byte words: each kind is edited with characters / bytes of its own kind)
    alphas = {True: alphabet_of([v for v in vals if isinstance(v, bytes)]), False: alphabet_of([v for v in vals if not isinstance(v, bytes)])}
    out = set()
    for v in vals:
        alpha = alphas[isinstance(v, bytes)]
        mk = (lambda xs: bytes(xs)) if isinstance(v, bytes) else (lambda xs: "".join(xs))
        seq = list(v)
        for i in range(len(seq) + 1):
            for a in alpha:
                out.add(mk(seq[:i] + [a] + seq[i:]))
        for i in range(len(seq)):
            out.add(mk(seq[:i] + seq[i + 1:]))
            for a in alpha:
                out.add(mk(seq[:i] + [a] + seq[i + 1:]))
    out -= set(vals)
    out = sorted(out, key=repr)
    rnd.shuffle(out)
    return out[:limit]


def script_for(pid, name, word, what):
    return f'''#!/usr/bin/env python3
"""{pid} witness (bounded contract check): spec {name!r}, input {word!r}: {what}.  Exit 1 = reproduced."""
import os, sys
sys.path.insert(0, os.environ.get("VERIF_ROOT", {os.path.dirname(os.path.dirname(os.path.abspath(__file__)))!r}))
os.environ.setdefault("VERIF_REPO", "/repo")
from bounded import c04_c05
sys.exit(c04_c05.replay({pid!r}, {name!r}, {word!r}))
'''


def fresh_constraints(name):
    _, cs = family.load(name)
    return cs


def check_parse_sound(name, grammar, word, stats):
    """C04 contract on one (spec, word); returns list of problems"""
    problems = []

    def forest():
        try:
            return list(grammar.parse_forest(word))
        except Exception:          # noqa: BLE001  (a parser crash yields no tree: nothing unsound is handed out; C05 / C06 judge it)
            stats["raised"] = stats.get("raised", 0) + 1
            return []

    res, timed_out = with_budget(forest)
    if timed_out:
        stats["timeouts"] += 1
        return problems
    for t in res:
        ok, why = valid(grammar, t)
        if not ok:
            problems.append(f"yielded tree is not a derivation: {why}")
        try:
            s = serialise(t)
        except Exception as e:
            problems.append(f"yielded tree cannot be serialised: {type(e).__name__}: {e}")
            continue
        same = (s == word) or (isinstance(word, str) and isinstance(s, bytes) and s == word.encode("utf-8")) or \
               (isinstance(word, bytes) and isinstance(s, str) and s.encode("utf-8") == word)
        if not same:
            problems.append(f"serialisation {s!r} differs from the input")
    stats["trees"] += len(res)
    return problems


def check_after_prefix_request(name, word, stats):
    """C04 over histories: a COMPLETE-mode request issued after a prefix-mode (INCOMPLETE) request for the same input on the
    same grammar object must still yield only derivations of exactly that input"""
    import itertools
    from fandango.language.grammar import ParsingMode
    g2, _ = family.load(name)
    _, to = with_budget(lambda: list(itertools.islice(g2.parse_forest(word, mode=ParsingMode.INCOMPLETE), 20)))
    if to:
        stats["timeouts"] += 1
        return []
    return ["after a prefix-mode request for the same input: " + p for p in check_parse_sound(name, g2, word, stats)]


def check_tree_input(name, grammar, word, stats):
    """C04 for inputs given as a DerivationTree: the yielded trees derive exactly the serialisation of that tree"""
    first, to = with_budget(lambda: next(iter(grammar.parse_forest(word)), None))
    if to or first is None:
        return []
    res, to = with_budget(lambda: list(grammar.parse_forest(first)))
    if to:
        stats["timeouts"] += 1
        return []
    problems = []
    want = serialise(first)
    if not res:
        problems.append("input given as a tree: the tree of a word of the language is not parsed back")
    for t in res:
        ok, why = valid(grammar, t)
        if not ok:
            problems.append(f"input given as a tree: yielded tree is not a derivation: {why}")
        try:
            s2 = serialise(t)
        except Exception as e:
            problems.append(f"input given as a tree: yielded tree cannot be serialised: {type(e).__name__}")
            continue
        if s2 != want:
            problems.append(f"input given as a tree: serialisation {s2!r} differs from the input tree's {want!r}")
    return problems


def check_api_filter(name, word, stats):
    fan = family.fandango(name)
    res, timed_out = with_budget(lambda: list(fan.parse(word)))
    if timed_out:
        stats["timeouts"] += 1
        return []
    problems = []
    cs = fresh_constraints(name)
    for t in res:
        for c in cs:
            try:
                ok = c.check(t)
            except Exception as e:
                ok = False
            if not ok:
                problems.append(f"API parse yielded a tree violating `{c.format_as_spec()}`")
    return problems


def check_roundtrip(name, grammar, tree, stats):
    from fandango.cli.utils import validate
    problems = []
    try:
        word = serialise(tree)
    except Exception as e:
        return [f"generated tree cannot be serialised: {type(e).__name__}: {e}"]
    def forest():
        try:
            return list(grammar.parse_forest(word))
        except Exception as e:          # noqa: BLE001  (a crash of the parser on a generated word)
            return e

    res, timed_out = with_budget(forest)
    if timed_out:
        stats["timeouts"] += 1
        return []
    if isinstance(res, Exception):
        return [f"generated word {word!r} makes parse raise {type(res).__name__}"], word
    same = [u for u in res if serialise(u) == word]
    if not same:
        problems.append(f"generated word {word!r} is not parsed back ({len(res)} trees, none with the same serialisation)")
    else:
        try:
            validate(tree, same[0])
        except Exception as e:
            problems.append(f"validate() raises for generated word {word!r}: {type(e).__name__}")
    return problems, word


def run_spec(pid, name, tier, rnd, stats, samples):
    violations = []
    grammar, constraints = family.load(name)
    words = words_of(grammar, name)
    limit = 40 if tier == "quick" else 200
    inside = sorted(words, key=repr)
    rnd.shuffle(inside)
    inside = inside[: (25 if tier == "quick" else 120)]
    if pid == "C04":
        outside = latin1_variants(words) + wide_char_variants(words) + near_misses(words, rnd, limit)
        for w in inside + outside:
            stats["evaluations"] += 1
            stats["distinct"].add((name, repr(w)))
            for p in check_parse_sound(name, grammar, w, stats):
                violations.append((name, w, p))
        for w in (inside[:6] + outside[:6]):
            stats["evaluations"] += 1
            for p in check_after_prefix_request(name, w, stats):
                violations.append((name, w, p))
        if name not in family.GENERATOR_SPECS:
            for w in inside[:8]:
                stats["evaluations"] += 1
                for p in check_tree_input(name, grammar, w, stats):
                    violations.append((name, w, p))
        if name in family.CONSTRAINED_SPECS:
            for w in inside + outside[:20]:
                stats["evaluations"] += 1
                for p in check_api_filter(name, w, stats):
                    violations.append((name, w, p))
        if len(samples) < 8 and inside:
            samples.append({"spec": name, "inside": repr(inside[0]), "outside": repr(outside[0]) if outside else None})
    else:  # C05
        seeds = range(12 if tier == "quick" else 60)
        for sd in seeds:
            random.seed(1000 * rnd.randint(0, 10 ** 6) + sd)
            res, timed_out = with_budget(lambda: grammar.fuzz())
            if timed_out or res is None:
                continue
            stats["evaluations"] += 1
            r = check_roundtrip(name, grammar, res, stats)
            if isinstance(r, tuple):
                probs, word = r
                stats["distinct"].add((name, repr(word)))
                for p in probs:
                    violations.append((name, word, p))
        # every word of the language (independent enumeration) is accepted
        if name not in family.GENERATOR_SPECS:       # a generator restricts what fuzzing produces, not the language
            for w in inside:
                stats["evaluations"] += 1
                stats["distinct"].add((name, repr(w)))
                def first_tree(w=w):
                    try:
                        return next(iter(grammar.parse_forest(w)), None)
                    except Exception as e:          # noqa: BLE001  (a crash of the parser on a word of the language)
                        return e

                res, timed_out = with_budget(first_tree)
                if timed_out:
                    stats["timeouts"] += 1
                    continue
                if isinstance(res, Exception):
                    violations.append((name, w, f"a word of the grammar's language makes parse raise {type(res).__name__}"))
                elif res is None:
                    violations.append((name, w, "a word of the grammar's language is rejected by parse"))
        if len(samples) < 8 and inside:
            samples.append({"spec": name, "word": repr(inside[0])})
    return violations


UPDATE_SCENARIOS = {
    # name: (base spec, override spec that only redefines existing symbols)
    "update_redefines_digit": ('<start> ::= <id> "=" <num>\n<id> ::= "a" | "b"\n<num> ::= <d>{1,2}\n<d> ::= "0" | "1"\n', '<d> ::= "7" | "8"\n'),
    "update_redefines_start": ('<start> ::= <a> <a>\n<a> ::= "x" | "y"\n', '<start> ::= <a> "-" <a>\n'),
}


def check_update_scenario(name, stats):
    """C04 over histories of the grammar object: after Grammar.update() every parse result must be a derivation of the
    grammar AS IT IS NOW, and words that are no longer in the language must be rejected"""
    from fandango.language.parse.parse import parse
    base, override = UPDATE_SCENARIOS[name]
    g, _ = parse(base, use_stdlib=False, use_cache=False)
    old_words = words_of(g, name)
    for w in list(old_words)[:5]:
        list(g.parse_forest(w))                      # use the parser before the update
    other, _ = parse(override, use_stdlib=False, use_cache=False, check=False)
    g.update(other)
    new_words = words_of(g, name)
    problems = []
    for w in sorted(set(old_words) | set(new_words), key=repr):
        stats["evaluations"] += 1
        stats["distinct"].add((name, repr(w)))
        res, to = with_budget(lambda: list(g.parse_forest(w)))
        if to:
            continue
        # (completeness after an update is not this property's subject; soundness is)
        if w not in new_words and res:
            problems.append((w, "after Grammar.update(): a word outside the current language is parsed"))
        for t in res:
            ok, why = valid(g, t)
            if not ok:
                problems.append((w, f"after Grammar.update(): yielded tree is not a derivation of the current rules: {why}"))
    return problems


# specs with COMPUTED repetition counts: (spec, inputs in the order in which they are parsed, membership oracle on the input).
# One grammar object and one Fandango object serve the whole list, twice over: what was parsed before must not matter.
CONTEXT_CASES = {
    "two_counted_records": (
        '<start> ::= <rec>+\n<rec> ::= <ra> | <rb>\n<ra> ::= "A" <len> ":" <x>{int(<len>)} ";"\n<rb> ::= "B" <len> ":" <y>{int(<len>)} ";"\n'
        '<len> ::= r"[0-9]"\n<x> ::= r"[a-z]"\n<y> ::= r"[0-9]"\n',
        ["A2:ab;", "B2:12;", "A1:z;B3:123;A2:qq;", "B2:12;A2:34;", "A2:34;", "B2:ab;", "B2:12;A2:cd;", "A2:cd;B2:ab;", "B2:12;A2:3;", "A2:a1;",
         "B1:1;A1:a;B1:2;", "A3:ab;", "A0:;", "B0:;A1:b;"],
        lambda w: _records_ok(w)),
    "counted_then_counted_other_length": (
        '<start> ::= <n> ":" <i>{int(<n>)} "/" <m> ":" <j>{int(<m>)}\n<n> ::= r"[0-3]"\n<m> ::= r"[0-3]"\n<i> ::= "a" | "b"\n<j> ::= "0" | "1"\n',
        ["2:ab/2:01", "1:a/2:01", "2:ab/1:0", "2:ab/2:ab", "2:01/2:01", "0:/0:", "3:aba/1:1", "1:ab/1:0", "2:a/2:01", "1:a/1:1", "1:1/1:a"],
        lambda w: _two_counted_ok(w)),
}


# a spec given as SEVERAL strings (Fandango([s1, s2]); each string has operators of its own)
CONTEXT_CASES["spec_in_two_strings"] = (
    ["<start> ::= <a>+ ';' <b>\n<a> ::= 'a'\n", "<b> ::= 'x'+\n"],
    ["aa;xx", "xx;xx", "a;x", "a;a", ";x", "aaa;x", "x;a"],
    lambda w: __import__("re").fullmatch(r"a+;x+", w) is not None)
CONTEXT_CASES["spec_in_three_strings"] = (
    ["<start> ::= <a>? <b> <c>\n<a> ::= 'a'\n", "<b> ::= 'b'? 'k'\n", "<c> ::= ('c' 'd'?)?\n"],
    ["k", "ak", "abk", "abkc", "bkcd", "akd", "aak", "bk", "kcc", "abkcd", "b"],
    lambda w: __import__("re").fullmatch(r"a?b?k(cd?)?", w) is not None)


def _records_ok(w):
    import re as _re
    pos = 0
    if not w:
        return False
    while pos < len(w):
        m = _re.match(r"([AB])([0-9]):", w[pos:])
        if not m:
            return False
        n = int(m.group(2))
        body = w[pos + 3: pos + 3 + n]
        if len(body) != n or w[pos + 3 + n: pos + 4 + n] != ";":
            return False
        if not _re.fullmatch(r"[a-z]*" if m.group(1) == "A" else r"[0-9]*", body):
            return False
        pos += 4 + n
    return True


def _two_counted_ok(w):
    import re as _re
    m = _re.fullmatch(r"([0-3]):([ab]*)/([0-3]):([01]*)", w)
    return bool(m) and len(m.group(2)) == int(m.group(1)) and len(m.group(4)) == int(m.group(3))


def check_context_case(name, stats, only_word=None):
    """C04 for specs with computed repetition counts, over histories of ONE grammar / ONE Fandango object: every tree yielded by
    the grammar-level parse is a derivation (computed counts relaxed: they are the constraints' business) of exactly the input;
    every tree the public API yields is in addition one of an input the oracle accepts, and satisfies the spec's constraints"""
    from fandango import Fandango
    from fandango.language.parse.parse import parse
    text, words, oracle = CONTEXT_CASES[name]
    grammar, _ = parse(text, use_stdlib=False, use_cache=False)
    fan = Fandango(text, use_stdlib=False, use_cache=False)
    problems = []
    for rnd_no in range(2):
        for w in words:
            stats["evaluations"] += 1
            stats["distinct"].add((name, repr(w)))
            for p in check_parse_sound(name, grammar, w, stats):
                problems.append((w, f"(parse #{rnd_no * len(words) + words.index(w) + 1} on one grammar object) " + p))
            res, to = with_budget(lambda: list(fan.parse(w)))
            if to:
                stats["timeouts"] += 1
                continue
            if res and not oracle(w):
                problems.append((w, f"(parse #{rnd_no * len(words) + words.index(w) + 1} on one Fandango object) API parse yields a tree for an input outside the constrained language"))
            _, cs = parse(text, use_stdlib=False, use_cache=False)
            for t in res:
                ok, why = valid(fan.grammar, t)
                if not ok:
                    problems.append((w, f"API parse: yielded tree is not a derivation: {why}"))
                if serialise(t) != w:
                    problems.append((w, f"API parse: serialisation {serialise(t)!r} differs from the input"))
                for c in cs:
                    try:
                        good = c.check(t)
                    except Exception:          # noqa: BLE001
                        good = False
                    if not good:
                        problems.append((w, f"API parse yielded a tree violating `{c.format_as_spec()}`"))
    if only_word is not None:
        problems = [q for q in problems if q[0] == only_word] or problems
    return problems


def replay(pid, name, word):
    if name in CONTEXT_CASES:
        stats = {"evaluations": 0, "distinct": set(), "trees": 0, "timeouts": 0}
        probs = check_context_case(name, stats, only_word=word)
        for w, p in probs[:5]:
            print("VIOLATION reproduced:", name, repr(w), p)
        print("spec:\n" + (CONTEXT_CASES[name][0] if isinstance(CONTEXT_CASES[name][0], str) else "\n--- next string ---\n".join(CONTEXT_CASES[name][0])) + "inputs parsed in this order, twice: " + repr(CONTEXT_CASES[name][1]))
        return 1 if probs else 0
    if name in UPDATE_SCENARIOS:
        stats = {"evaluations": 0, "distinct": set(), "trees": 0, "timeouts": 0}
        probs = check_update_scenario(name, stats)
        for w, p in probs[:5]:
            print("VIOLATION reproduced:", name, repr(w), p)
        print("base:\n" + UPDATE_SCENARIOS[name][0] + "override:\n" + UPDATE_SCENARIOS[name][1])
        return 1 if probs else 0
    stats = {"evaluations": 0, "distinct": set(), "trees": 0, "timeouts": 0}
    grammar, _ = family.load(name)
    if pid == "C04":
        probs = check_parse_sound(name, grammar, word, stats)
        probs += check_after_prefix_request(name, word, stats)
        probs += check_tree_input(name, grammar, word, stats)
        if name in family.CONSTRAINED_SPECS:
            probs += check_api_filter(name, word, stats)
    else:
        def first_tree():
            try:
                return next(iter(grammar.parse_forest(word)), None)
            except Exception as e:          # noqa: BLE001
                return e

        res, _ = with_budget(first_tree)
        probs = [] if (res is not None and not isinstance(res, Exception)) else [
            "a word of the grammar's language / a generated word is rejected by parse" if res is None else f"parse raises {type(res).__name__} on a word of the language"]
    if not probs:
        # not reproduced by this request alone: the outcome may depend on the requests issued BEFORE it on the same grammar
        # object (text words and byte words of one language, in the harness's order)
        stats = {"evaluations": 0, "distinct": set(), "trees": 0, "timeouts": 0}
        for sd in range(3):
            found = run_spec(pid, name, "quick", random.Random(sd), stats, [])
            if found:
                probs = [f"in the sequence of requests the harness issues on ONE grammar object (shuffle seed {sd}): input {w!r}: {q}" for _, w, q in found[:5]]
                break
    for p in probs:
        print("VIOLATION reproduced:", name, repr(word), p)
    print("spec:\n" + family.SPECS[name])
    return 1 if probs else 0


def run(tier="quick", seed=0, pid="C04"):
    rnd = random.Random(seed)
    stats = {"evaluations": 0, "distinct": set(), "trees": 0, "timeouts": 0}
    samples = []
    found = []
    t0 = time.time()
    for name in family.SPECS:
        if pid != "C04" and name in family.C04_ONLY:
            continue
        try:
            found.extend(run_spec(pid, name, tier, rnd, stats, samples))
        except Exception as e:
            return {"evaluations": stats["evaluations"], "distinct_nontrivial": len(stats["distinct"]), "rule": "", "samples": samples,
                    "violations": [], "undecided": [f"harness error on spec {name}: {type(e).__name__}: {e}"]}
    if pid == "C04":
        for name in CONTEXT_CASES:
            try:
                for w, p in check_context_case(name, stats):
                    found.append((name, w, p))
            except Exception as e:
                return {"evaluations": stats["evaluations"], "distinct_nontrivial": len(stats["distinct"]), "rule": "", "samples": samples,
                        "violations": [], "undecided": [f"context case {name}: {type(e).__name__}: {e}"]}
        for name in UPDATE_SCENARIOS:
            try:
                for w, p in check_update_scenario(name, stats):
                    found.append((name, w, p))
            except Exception as e:
                return {"evaluations": stats["evaluations"], "distinct_nontrivial": len(stats["distinct"]), "rule": "", "samples": samples,
                        "violations": [], "undecided": [f"update scenario {name}: {type(e).__name__}: {e}"]}
    violations = []
    seen = set()
    for name, word, p in found:
        import re as _re
        key = (name, _re.sub(r"(b?'[^']*'|b?\"[^\"]*\"|\d+)", "_", p)[:50])
        if key in seen:
            continue            # one report per (spec, kind of failure)
        seen.add(key)
        oblig = f"bounded:{'parse_sound' if pid == 'C04' else 'roundtrip'}:{name}"
        kind = ("validate_raises" if "validate()" in p else "parse_raises" if "makes parse raise" in p else "language_word_rejected" if "language is rejected" in p
                else "generated_word_not_parsed_back" if "not parsed back" in p else "not_a_derivation" if "not a derivation" in p
                else "serialisation_differs" if "differs from the input" in p else "constraint_violated" if "violating" in p
                else "stale_after_update" if "Grammar.update" in p else "other")
        # the witness names the spec and the kind of failure (the concrete word depends on VERIF_SEED and is in the replay)
        violations.append({"name": oblig, "witness": f"spec={name};kind={kind}", "detail": f"{p} (input {word!r})",
                           "script": script_for(pid, name, word, p)})
    nontrivial = len([d for d in stats["distinct"] if d[1] not in ("''", "b''")])
    return {
        "evaluations": stats["evaluations"], "distinct_nontrivial": nontrivial,
        "rule": (f"{pid}: {len(family.SPECS)} specs x (words of the independently enumerated language up to "
                 "5 atoms (11 for bit specs), single-edit near misses, fuzzed trees); distinct = distinct (spec, word); "
                 "non-trivial = non-empty word; parse calls over 20 s are left to C06"),
        "bound": "29 hand-written specs covering every operator; words up to 5 atoms; 25/120 words inside and 40/200 near misses per spec (quick/thorough)",
        "samples": samples, "violations": violations, "trees_checked": stats["trees"], "parse_timeouts_not_judged": stats["timeouts"],
        "wall_s": round(time.time() - t0, 1),
    }


if __name__ == "__main__":
    import json
    r = run(sys.argv[2] if len(sys.argv) > 2 else "quick", 0, sys.argv[1])
    for v in r["violations"]:
        print("VIOLATION", v["name"], v["witness"], "--", v["detail"])
    r.pop("violations")
    print(json.dumps(r, indent=1, default=str)[:1800])
