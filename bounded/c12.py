"""C12 bounded half: parse results do not depend on the history of parse requests on the same spec object.

Model-based run-time contract on the REAL Grammar object:
   for every request q of a random request sequence issued on ONE shared grammar object,
        result(q on the shared object after the history)  ==  result(q on a brand-new grammar object)
   and mutating a tree that was handed out does not change any later result.
Requests: full forest / first tree / forest abandoned after one tree / parse_multiple, in COMPLETE and INCOMPLETE mode, for
words of the bounded language, near misses, the str and the bytes rendering of the same word, other start symbols, and
Grammar.fuzz() calls in between (fuzz-internal parses for generators).  Trees are compared by structure (symbols and
children, recursively) and by the order in which they are handed out.
The deductive part proves the cache invariant of Parser.parse_forest; this harness covers what that contract assumes
(the iterative parser, scanner state on symbols, deepcopy) - bounded, never counted as proved.
"""
from __future__ import annotations

import itertools
import os
import random
import sys
import time

from bounded import family
from bounded.c04_c05 import near_misses, with_budget, words_of

EXTRA_SPECS = {
    "catalan": '<start> ::= <s>\n<s> ::= <s> <s> | "a"\n',                       # many parse alternatives
    "bytes_regex_text": '<start> ::= <h> <p>\n<h> ::= "k"\n<p> ::= rb"[ab]{1,2}"\n',   # a bytes regex scanned in str and bytes inputs
    "two_starts": '<start> ::= <x> ";" <y>\n<x> ::= "a" | "aa"\n<y> ::= <x>{1,2}\n',
}
EXTRA_WORDS = {"catalan": ["a" * k for k in range(1, 7)]}      # up to 42 complete parses (the cache-size seeded change needs > 32)
FOREST_CAP = 60          # trees taken from one forest request (the same cap on the shared and on the new object)


def structure(t):
    if t is None:
        return None
    sym = t.symbol
    label = sym.format_as_spec() if hasattr(sym, "format_as_spec") else repr(sym)
    return (label, tuple(structure(c) for c in t.children))


def do_request(grammar, req, rnd=None, mutate=False):
    """-> comparable result of one request; `mutate` damages the first tree handed out afterwards"""
    from fandango.language.grammar import ParsingMode
    kind, word, start, mode = req
    m = ParsingMode.COMPLETE if mode == "complete" else ParsingMode.INCOMPLETE
    try:
        if kind == "forest":
            trees = list(itertools.islice(grammar.parse_forest(word, start, mode=m), FOREST_CAP))
        elif kind == "multiple":
            trees = list(itertools.islice(grammar.parse_multiple(word, start, mode=m), FOREST_CAP))
        elif kind == "first":
            t = grammar.parse(word, start, mode=m)
            trees = [] if t is None else [t]
        elif kind == "abandon":
            gen = grammar.parse_forest(word, start, mode=m)
            trees = []
            for t in gen:
                trees.append(t)
                break
            gen.close()
        elif kind == "fuzz":
            grammar.fuzz(start, max_nodes=20)
            return "fuzzed"
        else:
            raise AssertionError(kind)
    except Exception as e:
        return ("raises", type(e).__name__)
    res = tuple(structure(t) for t in trees)
    if mutate and trees:
        damage(trees[0])
    return res


def damage(t):
    """edit a tree that was handed out, at every level: leaves are replaced, inner nodes renamed, the root emptied"""
    from fandango.language.symbols.non_terminal import NonTerminal
    from fandango.language.symbols.terminal import Terminal
    from fandango.language.tree import DerivationTree
    try:
        nodes = [t]
        k = 0
        while k < len(nodes):
            nodes.extend(nodes[k].children)
            k += 1
        for n in reversed(nodes[1:]):
            if n.children:
                n.set_children(list(n.children) + [DerivationTree(Terminal("#"))])
                n.symbol = NonTerminal("<damaged>")
            else:
                n.symbol = Terminal("#")
        t.set_children([])
    except Exception:
        pass


def renderings(w):
    """the same word as str and as bytes where that is possible"""
    out = [w]
    if isinstance(w, str):
        try:
            out.append(w.encode("utf-8"))
        except Exception:
            pass
    elif isinstance(w, bytes):
        try:
            out.append(w.decode("utf-8"))
        except Exception:
            pass
    return out


def run(tier="quick", seed=0, pid="C12"):
    from fandango.language.parse.parse import parse as parse_spec
    rnd = random.Random(seed)
    t0 = time.time()
    evaluations, distinct, samples, violations, timeouts = 0, set(), [], [], 0
    reported = set()
    specs = {k: v for k, v in family.SPECS.items() if k not in family.C04_ONLY}
    specs.update(EXTRA_SPECS)
    seq_len = 30 if tier == "quick" else 120
    for name, text in specs.items():
        def fresh():
            g, _ = parse_spec(text, use_stdlib=False, use_cache=False)
            return g

        shared = fresh()
        if name in EXTRA_WORDS:
            vals = list(EXTRA_WORDS[name])
            lang_words = {v: None for v in vals}
        else:
            lang_words = words_of(shared if name not in family.SPECS else family.load(name)[0], name)
            vals = [v for v in sorted(lang_words, key=repr) if 1 <= len(v) <= 7]
            rnd.shuffle(vals)
            vals = vals[:8]
            vals += [v for v in near_misses(lang_words, rnd, 3) if 1 <= len(v) <= 7]
        if not vals:
            continue
        pool = []
        for v in vals:
            pool.extend(renderings(v))
        starts = ["<start>"] + [str(nt.format_as_spec()) for nt in list(shared.rules)[:4] if not nt.name().startswith("<_") and nt.name() != "<start>"][:2]
        has_gen = name in family.GENERATOR_SPECS
        reference = {}
        history = []
        # scripted openings (every spec): an abandoned / first-tree-only request followed by the whole forest for the same input and
        # mode; a whole forest whose first tree is damaged, followed by the same request; then the random sequence
        scripted = []
        for w in pool[:3]:
            for m in ("complete", "incomplete"):
                scripted += [(("first", w, "<start>", m), False), (("forest", w, "<start>", m), True), (("forest", w, "<start>", m), False),
                             (("abandon", w, "<start>", m), True), (("multiple", w, "<start>", m), False)]
        for step in range(len(scripted) + seq_len):
            kind = rnd.choice(["forest", "forest", "first", "abandon", "multiple", "fuzz" if has_gen or rnd.random() < 0.3 else "forest"])
            word = rnd.choice(pool)
            start = "<start>" if rnd.random() < 0.8 else rnd.choice(starts)
            mode = "complete" if rnd.random() < 0.8 else "incomplete"
            req = (kind, word, start, mode) if kind != "fuzz" else ("fuzz", None, "<start>", "complete")
            mutate = rnd.random() < 0.4
            if step < len(scripted):
                req, mutate = scripted[step]
                kind = req[0]
            history.append((req, mutate))
            got, to = with_budget(lambda: do_request(shared, req, rnd, mutate))
            if to:
                timeouts += 1
                shared = fresh()      # the interrupted object is in an undefined state: start a new history
                history = []
                continue
            if kind == "fuzz":
                continue
            if req not in reference:
                ref, to = with_budget(lambda: do_request(fresh(), req))
                if to:
                    timeouts += 1
                    continue
                reference[req] = ref
            evaluations += 1
            if len(history) >= 2:
                distinct.add((name, req))
            if got != reference[req] and name not in reported:
                reported.add(name)
                what = "raises" if got and got[0] == "raises" else f"{len(got)} trees"
                want = reference[req]
                wanted = "raises" if want and want[0] == "raises" else f"{len(want)} trees"
                violations.append({
                    "name": f"bounded:history_independent:{name}", "witness": f"spec={name};kind=result_depends_on_history",
                    "detail": f"request {req!r} after {len(history) - 1} earlier requests: {what}; on a new spec object: {wanted}",
                    "script": replay_script(name, text, minimise(text, history) if len(violations) < 3 else list(history))})
        if len(samples) < 8:
            samples.append({"spec": name, "requests": seq_len, "words": len(pool), "starts": starts})
    return {
        "evaluations": evaluations, "distinct_nontrivial": len(distinct),
        "rule": (f"every spec of the family + 3 (ambiguous with >32 parses, bytes regex in text, several start symbols): 30 scripted requests (first-tree / abandoned request followed by the whole forest, same input and mode; damaged hand-outs followed by the same request) "
                 f"and one random sequence of {seq_len} requests (forest / first / abandoned forest / parse_multiple / fuzz; COMPLETE and INCOMPLETE; str and bytes renderings; other start "
                 "symbols; 40 % of the handed-out trees damaged) on one shared grammar object, each result compared with the result of the same request "
                 "on a new object; distinct = distinct (spec, request); non-trivial = issued after at least one earlier request on the same object"),
        "bound": f"{seq_len} requests per spec, words up to 7 units", "samples": samples, "violations": violations,
        "requests_over_budget_not_judged": timeouts, "wall_s": round(time.time() - t0, 1),
    }


def diverges(text, history):
    from fandango.language.parse.parse import parse as parse_spec
    g, _ = parse_spec(text, use_stdlib=False, use_cache=False)
    for k, (req, mutate) in enumerate(history):
        got = do_request(g, req, None, mutate)
        if k == len(history) - 1:
            g2, _ = parse_spec(text, use_stdlib=False, use_cache=False)
            return got != do_request(g2, req)
    return False


def minimise(text, history):
    """greedy: drop earlier requests while the last one still diverges (keeps the replay short; bounded effort)"""
    h = list(history)
    deadline = time.time() + 90          # the replay only gets shorter; never spend long on it
    try:
        res, to = with_budget(lambda: diverges(text, h), 30)
        if to or not res:
            return h
        i = 0
        while i < len(h) - 1 and len(h) > 1 and time.time() < deadline:
            cand = h[:i] + h[i + 1:]
            res, to = with_budget(lambda: diverges(text, cand), 10)
            if not to and res:
                h = cand
            else:
                i += 1
    except Exception:
        return list(history)
    return h


def replay_script(name, text, history):
    root = os.path.dirname(os.path.dirname(os.path.abspath(__file__)))
    return f'''#!/usr/bin/env python3
"""C12 witness: spec {name!r}; the last request of this history gives another result than on a new spec object.  Exit 1 = reproduced."""
import os, sys
sys.path.insert(0, {root!r})
os.environ.setdefault("VERIF_REPO", "/repo")
from bounded import c12
sys.exit(c12.replay({text!r}, {history!r}))
'''


def replay(text, history):
    from fandango.language.parse.parse import parse as parse_spec
    print("spec:\n" + text)
    g, _ = parse_spec(text, use_stdlib=False, use_cache=False)
    got = None
    for req, mutate in history:
        got = do_request(g, req, None, mutate)
        print("request", req, "damage handed-out tree" if mutate else "", "->", (got if got and got[0] == "raises" else f"{len(got)} trees") if got != "fuzzed" else got)
    g2, _ = parse_spec(text, use_stdlib=False, use_cache=False)
    want = do_request(g2, history[-1][0])
    print("same request on a new spec object ->", want if want and want[0] == "raises" else f"{len(want)} trees")
    if got != want:
        print("VIOLATION reproduced")
        return 1
    print("not reproduced")
    return 0


if __name__ == "__main__":
    import json
    r = run(sys.argv[1] if len(sys.argv) > 1 else "quick")
    for v in r["violations"]:
        print("VIOLATION", v["name"], v["witness"], "--", v["detail"][:300])
    r.pop("violations")
    print(json.dumps(r, indent=1, default=str)[:1200])
