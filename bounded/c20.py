"""C20 bounded half: scripted protocol runs against in-process external parties.

Run-time contract on the REAL protocol loop (Fandango.fuzz(mode=IO) -> _generate_io, FandangoIO, PacketParser, forecaster):
the fuzzer-side party's send() is the only hook (it is part of the SPEC, not of fandango): it logs what is sent and delivers
the scripted reply of the external parties through FandangoParty.receive(), cut into fragments and -- with two external
parties -- interleaved as the schedule says.  For every behaviour (valid reply, other valid alternative, wrong type, constraint
violating, truncated) and every fragmentation / interleaving of the family below:
   (1) the recorded interaction (result.protocol_msgs()) is a prefix of an interaction of the spec (recogniser written for the
       spec, constraints included), with the right sender and recipient on every message;
   (2) what send() was called with is exactly the fuzzer-side messages of the recorded interaction, in order, once each, and each
       satisfies the constraints given the messages before it;
   (3) the remote messages recorded are exactly the data the external parties delivered (per party, in order, once);
   (4) a valid behaviour ends in a COMPLETE interaction; a wrong-type / violating / truncated remote message is never recorded and
       nothing is sent after it.
Bounded: two specs, the listed behaviours, all compositions of short replies into fragments, a fixed set of interleavings plus
seeded random ones.  Never counted as proved; threads, sockets and real timeouts are outside this harness (the truncated case waits
for fandango's own 1 s fragment timeout and is judged by its outcome only).
"""
from __future__ import annotations

import builtins
import itertools
import logging
import os
import random
import re
import sys
import time

REPO = os.environ.get("VERIF_REPO", "/repo")
sys.path.insert(0, os.path.join(REPO, "src"))

PARTY = '''
class {name}(FandangoParty):
    def __init__(self):
        super().__init__(connection_mode=ConnectionMode.EXTERNAL)
'''
FUZZER = '''
import builtins

class Fuzzer(FandangoParty):
    def __init__(self):
        super().__init__(connection_mode=ConnectionMode.OPEN)

    def send(self, message, recipient):
        builtins._c20_log.append((str(message), recipient))
        for sender, piece in builtins._c20_reply(str(message), recipient):
            self.receive(piece, sender)
'''

SPEC_ONE = FUZZER + PARTY.format(name="Extern") + r'''
<start> ::= <Fuzzer:Extern:req> <Extern:Fuzzer:resp> <Fuzzer:Extern:ack>
<req> ::= "GET " <n> "\n"
<n> ::= r"[1-9]"
<resp> ::= "OK " <m> "\n" | "NO\n"
<m> ::= r"[0-9]+"
<ack> ::= "ACK " <k> "\n"
<k> ::= r"[0-9]+"
where int(<resp>.<m>) == int(<req>.<n>) * 2
where int(<ack>.<k>) == int(<resp>.<m>) + 1
'''

SPEC_TWO = FUZZER + PARTY.format(name="A") + PARTY.format(name="B") + r'''
<start> ::= <Fuzzer:A:go> <A:Fuzzer:ra> <B:Fuzzer:rb> <Fuzzer:B:fin>
<go> ::= "go " <n> "\n"
<n> ::= r"[1-7]"
<ra> ::= "a" <x> "\n"
<x> ::= r"[0-9]"
<rb> ::= "b" <y> "\n"
<y> ::= r"[0-9]"
<fin> ::= "fin " <s> "\n"
<s> ::= r"[0-9]+"
where int(<ra>.<x>) == int(<go>.<n>) + 1
where int(<rb>.<y>) == int(<go>.<n>) + 2
where int(<fin>.<s>) == int(<ra>.<x>) + int(<rb>.<y>)
'''


# the same message type addressed to different parties in different alternatives; only the fuzzer speaks
SPEC_THREE = FUZZER + "".join(PARTY.format(name=n) for n in "ABCD") + r'''
<start> ::= <Fuzzer:A:ping> <Fuzzer:A:fin_a> | <Fuzzer:B:ping> <Fuzzer:B:fin_b> | <Fuzzer:C:ping> <Fuzzer:C:fin_c> | <Fuzzer:D:ping> <Fuzzer:D:fin_d>
<ping> ::= "ping\n"
<fin_a> ::= "bye A\n"
<fin_b> ::= "bye B\n"
<fin_c> ::= "bye C\n"
<fin_d> ::= "bye D\n"
'''

# two consecutive remote messages, the first of an open-ended type (<line>+): the peer may deliver both in one burst
SPEC_FOUR = FUZZER + PARTY.format(name="Extern") + r'''
<start> ::= <Fuzzer:Extern:req> <Extern:Fuzzer:resp> <Extern:Fuzzer:done> <Fuzzer:Extern:ack>
<req> ::= "GET\n"
<resp> ::= <line>+
<line> ::= "L" <dg> "\n"
<dg> ::= "0" | "1" | "2"
<done> ::= "DONE\n"
<ack> ::= "ACK\n"
'''


# a remote message with a COMPUTED repetition count, echoed by the fuzzer's next message
SPEC_FIVE = FUZZER + PARTY.format(name="Extern") + r'''
<start> ::= <Fuzzer:Extern:req> <Extern:Fuzzer:resp> <Fuzzer:Extern:ack>
<req> ::= "GET\n"
<resp> ::= <m> ":" <y>{int(<m>)} "\n"
<m> ::= "1" | "2" | "3"
<y> ::= "a" | "b"
<ack> ::= "ACK " <k> "\n"
<k> ::= "1" | "2" | "3"
where int(<ack>.<k>) == int(<resp>.<m>)
'''


def prefix_ok_five(msgs):
    want = [("Fuzzer", "Extern", r"GET\n"), ("Extern", "Fuzzer", r"([123]):([ab]*)\n"), ("Fuzzer", "Extern", r"ACK ([123])\n")]
    if len(msgs) > 3:
        return False, False, "more than three messages"
    m_val = None
    for i, (s, r, t) in enumerate(msgs):
        ws, wr, rx = want[i]
        if (s, r) != (ws, wr):
            return False, False, f"message #{i + 1} {t!r} is attributed to {s}->{r}, the spec says {ws}->{wr}"
        mm = re.fullmatch(rx, t)
        if not mm:
            return False, False, f"message #{i + 1} {t!r} does not have the form of its type"
        if i == 1:
            m_val = int(mm.group(1))
            if len(mm.group(2)) != m_val:
                return False, False, f"recorded remote message {t!r} announces {m_val} items and carries {len(mm.group(2))}"
        if i == 2 and int(mm.group(1)) != m_val:
            return False, False, f"sent message {t!r} violates int(<k>) == int(<m>) (m = {m_val})"
    return True, len(msgs) == 3, ""


def cases_five(tier, rnd):
    def mk(text, cuts=None):
        def reply(message, recipient):
            if not message.startswith("GET"):
                return []
            return [("Extern", p) for p in (cuts(text) if cuts else [text])]
        return reply
    out = []
    for text in ("1:a\n", "2:ab\n", "3:bab\n"):
        out.append((f"valid_{text[0]}_whole", True, mk(text)))
        out.append((f"valid_{text[0]}_chars", True, mk(text, lambda t: list(t))))
    out += [("too_few_items", False, mk("2:a\n")), ("too_many_items", False, mk("1:ab\n", lambda t: list(t))), ("count_out_of_range", False, mk("4:abab\n"))]
    return out


def prefix_ok_three(msgs):
    if len(msgs) > 2:
        return False, False, "more than two messages"
    if msgs:
        s, r, t = msgs[0]
        if s != "Fuzzer" or r not in "ABCD" or t != "ping\n":
            return False, False, f"first message {msgs[0]} is not a ping of the fuzzer to one of A-D"
    if len(msgs) == 2:
        s, r, t = msgs[1]
        if s != "Fuzzer" or r != msgs[0][1] or t != f"bye {r}\n":
            return False, False, f"after the ping to {msgs[0][1]} the interaction continues with {msgs[1]} (the spec: 'bye {msgs[0][1]}' to {msgs[0][1]})"
    return True, len(msgs) == 2, ""


def prefix_ok_four(msgs):
    want = [("Fuzzer", "Extern", r"GET\n"), ("Extern", "Fuzzer", r"(L[012]\n)+"), ("Extern", "Fuzzer", r"DONE\n"), ("Fuzzer", "Extern", r"ACK\n")]
    if len(msgs) > 4:
        return False, False, "more than four messages"
    for i, (s, r, t) in enumerate(msgs):
        ws, wr, rx = want[i]
        if (s, r) != (ws, wr):
            return False, False, f"message #{i + 1} {t!r} is attributed to {s}->{r}, the spec says {ws}->{wr}"
        if not re.fullmatch(rx, t):
            return False, False, f"message #{i + 1} {t!r} does not have the form of its type"
    return True, len(msgs) == 4, ""


def cases_three(tier, rnd):
    return [(f"fuzzer_only_run_{k}", True, (lambda message, recipient: [])) for k in range(6 if tier == "quick" else 20)]


def cases_four(tier, rnd):
    def mk(text, cuts=None):
        def reply(message, recipient):
            if not message.startswith("GET"):
                return []
            return [("Extern", p) for p in (cuts(text) if cuts else [text])]
        return reply
    out = [("burst_two_lines_then_done", True, mk("L1\nL2\nDONE\n")), ("burst_one_line_then_done", True, mk("L0\nDONE\n")),
           ("char_by_char", True, mk("L1\nL2\nDONE\n", lambda t: list(t))),
           ("message_by_message", True, mk("L1\nL2\nDONE\n", lambda t: ["L1\nL2\n", "DONE\n"])),
           ("cut_inside_done", True, mk("L2\nDONE\n", lambda t: ["L2\nDO", "NE\n"])),
           ("done_missing_line", False, mk("DONE\n")), ("garbage_line", False, mk("L7\nDONE\n"))]
    comps = list(compositions(len("L1\nDONE\n")))
    rnd.shuffle(comps)
    for comp in comps[: (4 if tier == "quick" else 40)]:
        out.append((f"cut_{'_'.join(str(a) for a, _ in comp)}", True, mk("L1\nDONE\n", lambda t, comp=comp: [t[a:b] for a, b in comp])))
    return out


def compositions(n):
    for mask in range(1 << (n - 1)):
        cuts = [0] + [i + 1 for i in range(n - 1) if mask >> i & 1] + [n]
        yield [(cuts[i], cuts[i + 1]) for i in range(len(cuts) - 1)]


# ------------------------------------------------------------------------------------------------ recognisers (prefixes of interactions)

def prefix_ok_one(msgs):
    """msgs: [(sender, recipient, text)]; -> (ok, complete, why)"""
    want = [("Fuzzer", "Extern"), ("Extern", "Fuzzer"), ("Fuzzer", "Extern")]
    if len(msgs) > 3:
        return False, False, "more than three messages"
    n = m = None
    for i, (s, r, t) in enumerate(msgs):
        if (s, r) != want[i]:
            return False, False, f"message #{i + 1} {t!r} is attributed to {s}->{r}, the spec says {want[i][0]}->{want[i][1]}"
        if i == 0:
            mm = re.fullmatch(r"GET ([1-9])\n", t)
            if not mm:
                return False, False, f"{t!r} is not a <req>"
            n = int(mm.group(1))
        elif i == 1:
            if t == "NO\n":
                m = None
            else:
                mm = re.fullmatch(r"OK ([0-9]+)\n", t)
                if not mm:
                    return False, False, f"{t!r} is not a <resp>"
                m = int(mm.group(1))
                if m != 2 * n:
                    return False, False, f"recorded remote message {t!r} violates int(<m>) == int(<n>) * 2 (n = {n})"
        else:
            mm = re.fullmatch(r"ACK ([0-9]+)\n", t)
            if not mm:
                return False, False, f"{t!r} is not an <ack>"
            if m is not None and int(mm.group(1)) != m + 1:
                return False, False, f"sent message {t!r} violates int(<k>) == int(<m>) + 1 (m = {m})"
    return True, len(msgs) == 3, ""


def prefix_ok_two(msgs):
    want = [("Fuzzer", "A", r"go ([1-7])\n"), ("A", "Fuzzer", r"a([0-9])\n"), ("B", "Fuzzer", r"b([0-9])\n"), ("Fuzzer", "B", r"fin ([0-9]+)\n")]
    if len(msgs) > 4:
        return False, False, "more than four messages"
    vals = []
    for i, (s, r, t) in enumerate(msgs):
        ws, wr, rx = want[i]
        if (s, r) != (ws, wr):
            return False, False, f"message #{i + 1} {t!r} is attributed to {s}->{r}, the spec says {ws}->{wr}"
        mm = re.fullmatch(rx, t)
        if not mm:
            return False, False, f"message #{i + 1} {t!r} does not have the form of its type"
        vals.append(int(mm.group(1)))
    if len(vals) >= 2 and vals[1] != vals[0] + 1:
        return False, False, f"recorded remote message {msgs[1][2]!r} violates int(<x>) == int(<n>) + 1"
    if len(vals) >= 3 and vals[2] != vals[0] + 2:
        return False, False, f"recorded remote message {msgs[2][2]!r} violates int(<y>) == int(<n>) + 2"
    if len(vals) == 4 and vals[3] != vals[1] + vals[2]:
        return False, False, f"sent message {msgs[3][2]!r} violates int(<s>) == int(<x>) + int(<y>)"
    return True, len(msgs) == 4, ""


# ------------------------------------------------------------------------------------------------ one run

def run_once(spec, reply):
    """-> (outcome, recorded messages or None, send log, delivered per party)"""
    from fandango.api import Fandango
    from fandango.language.grammar import FuzzingMode
    builtins._c20_log = []
    delivered = {}

    def wrapped(message, recipient):
        pieces = list(reply(message, recipient))
        for sender, piece in pieces:
            delivered[sender] = delivered.get(sender, "") + piece
        return pieces

    builtins._c20_reply = wrapped
    try:
        fan = Fandango(spec, use_stdlib=False, use_cache=False)
        res = fan.fuzz(mode=FuzzingMode.IO, population_size=1)
    except Exception as e:          # noqa: BLE001  (an error is a legitimate end of a run with a misbehaving peer)
        return f"raises {type(e).__name__}", None, list(builtins._c20_log), delivered
    if not res:
        return "no result", None, list(builtins._c20_log), delivered
    msgs = [(m.sender, m.recipient, str(m.msg)) for m in res[0].protocol_msgs()]
    return "returned", msgs, list(builtins._c20_log), delivered


def judge(name, recogniser, behaviour_valid, outcome, msgs, log, delivered, fuzzer="Fuzzer"):
    problems = []
    if msgs is not None:
        ok, complete, why = recogniser(msgs)
        if not ok:
            problems.append(("recorded_interaction_is_not_a_prefix_of_the_protocol", why))
        sent = [(t, r) for s, r, t in msgs if s == fuzzer]
        if sent != log and ok:
            problems.append(("sends_differ_from_the_recorded_fuzzer_messages", f"send() was called with {log}, the recorded interaction holds {sent}"))
        for party in {s for s, _, _ in msgs if s != fuzzer} | set(delivered):
            rec = "".join(t for s, _, t in msgs if s == party)
            got = delivered.get(party, "")
            if behaviour_valid and rec != got and ok and complete:
                problems.append(("recorded_remote_data_differs_from_what_was_delivered", f"{party} delivered {got!r}, recorded {rec!r}"))
            if not got.startswith(rec) and ok:
                problems.append(("recorded_remote_data_was_never_delivered", f"{party} delivered {got!r}, recorded {rec!r}"))
        if behaviour_valid and ok and not complete:
            problems.append(("valid_peer_but_incomplete_interaction", f"every remote message was valid, the run ended after {msgs}"))
    elif behaviour_valid:
        problems.append(("valid_peer_but_the_run_fails", f"every remote message was valid, outcome: {outcome}"))
    return problems


RUN_BUDGET_S = 40


# ------------------------------------------------------------------------------------------------ the family of runs

def cases_one(tier, rnd):
    """(label, behaviour_valid, reply function)"""
    def mk(text_of, cuts=None):
        def reply(message, recipient):
            if not message.startswith("GET"):
                return []
            text = text_of(int(message[4]))
            parts = cuts(text) if cuts else [text]
            return [("Extern", p) for p in parts]
        return reply

    out = []
    ok_text = lambda n: f"OK {2 * n}\n"
    out.append(("valid_whole", True, mk(ok_text)))
    out.append(("valid_other_alternative", True, mk(lambda n: "NO\n")))
    out.append(("valid_char_by_char", True, mk(ok_text, lambda t: list(t))))
    comps = list(compositions(5))        # "OK d\n" has 5 characters for n <= 4, 6 otherwise: cut positions are clipped
    if tier == "quick":
        rnd.shuffle(comps)
        comps = comps[:6]
    for comp in comps:
        def cut(t, comp=comp):
            parts = [t[a:b] for a, b in comp]
            parts[-1] = parts[-1] + t[comp[-1][1]:]
            return [p for p in parts if p]
        out.append((f"valid_cut_{'_'.join(str(a) for a, _ in comp)}", True, mk(ok_text, cut)))
    out.append(("wrong_type", False, mk(lambda n: "HELLO\n")))
    out.append(("wrong_type_in_pieces", False, mk(lambda n: "HELLO\n", lambda t: [t[:2], t[2:]])))
    out.append(("violating", False, mk(lambda n: f"OK {2 * n + 1}\n")))
    out.append(("violating_in_pieces", False, mk(lambda n: f"OK {2 * n + 1}\n", lambda t: list(t))))
    out.append(("valid_then_garbage", False, mk(lambda n: f"OK {2 * n}\nXX")))
    if tier != "quick":
        out.append(("truncated", False, mk(lambda n: f"OK {2 * n}")))
    return out


def merges(a, b, rnd, tier):
    """interleavings of the unit sequences a and b (lists of (sender, piece))"""
    yield "a_then_b", a + b
    yield "b_then_a", b + a
    alt = [x for pair in itertools.zip_longest(a, b) for x in pair if x is not None]
    yield "alternating", alt
    for k in range(3 if tier == "quick" else 12):
        ia, ib, out = 0, 0, []
        while ia < len(a) or ib < len(b):
            if ib >= len(b) or (ia < len(a) and rnd.random() < 0.5):
                out.append(a[ia]); ia += 1
            else:
                out.append(b[ib]); ib += 1
        yield f"random_{k}", out


def cases_two(tier, rnd):
    out = []
    def mk(ta, tb, units, label_merge):
        def reply(message, recipient):
            if not message.startswith("go"):
                return []
            n = int(message[3])
            a = [("A", p) for p in units(ta(n))]
            b = [("B", p) for p in units(tb(n))]
            return label_merge(a, b)
        return reply
    good_a, good_b = (lambda n: f"a{n + 1}\n"), (lambda n: f"b{n + 2}\n")
    whole, chars = (lambda t: [t]), (lambda t: list(t))
    for units_name, units in (("whole", whole), ("chars", chars)):
        sample_a, sample_b = [("A", p) for p in units("a2\n")], [("B", p) for p in units("b3\n")]
        for mname, order in merges(list(range(len(sample_a))), [100 + i for i in range(len(sample_b))], rnd, tier):
            def merge(a, b, order=order):
                return [a[i] if i < 100 else b[i - 100] for i in order]
            out.append((f"valid_{units_name}_{mname}", True, mk(good_a, good_b, units, merge)))
    first = lambda a, b: a + b
    out.append(("a_violating", False, mk(lambda n: f"a{n}\n", good_b, whole, first)))
    out.append(("b_violating", False, mk(good_a, lambda n: f"b{n}\n", whole, first)))
    out.append(("b_wrong_type", False, mk(good_a, lambda n: "zzz\n", chars, first)))
    out.append(("a_sends_b_text", False, mk(lambda n: f"b{n + 2}\n", good_b, whole, first)))
    return out


def replay_script(spec_name, label, seed, tier):
    root = os.path.dirname(os.path.dirname(os.path.abspath(__file__)))
    return f'''#!/usr/bin/env python3
"""C20 witness: spec {spec_name!r}, scripted peer behaviour {label!r}.  Exit 1 = reproduced."""
import os, sys
sys.path.insert(0, {root!r})
os.environ.setdefault("VERIF_REPO", "/repo")
from bounded import c20
sys.exit(c20.replay({spec_name!r}, {label!r}, {seed!r}, {tier!r}))
'''


FAMILY = {"request_reply_ack": (SPEC_ONE, prefix_ok_one, cases_one), "two_remote_parties": (SPEC_TWO, prefix_ok_two, cases_two),
          "same_type_to_several_parties": (SPEC_THREE, prefix_ok_three, cases_three), "pipelined_remote_messages": (SPEC_FOUR, prefix_ok_four, cases_four),
          "counted_remote_message": (SPEC_FIVE, prefix_ok_five, cases_five)}


def run(tier="quick", seed=0, pid="C20", only=None):
    import contextlib
    logging.disable(logging.CRITICAL)
    t0 = time.time()
    evaluations, distinct, samples, violations, seen = 0, set(), [], [], set()
    over_budget = 0
    cwd = os.getcwd()
    try:
        with open(os.devnull, "w") as null, contextlib.redirect_stderr(null), contextlib.redirect_stdout(null if only is None else sys.stdout):
            for spec_name, (spec, recogniser, cases) in FAMILY.items():
                rnd = random.Random(seed)
                for label, valid, reply in cases(tier, rnd):
                    if only is not None and only != (spec_name, label):
                        continue
                    for rep in range(2 if tier == "quick" else 5):       # (the fuzzer's own messages are random: a few runs per case)
                        random.seed(seed * 1000 + rep)
                        from bounded.c04_c05 import with_budget
                        res, over = with_budget(lambda: run_once(spec, reply), RUN_BUDGET_S)
                        if over:
                            # (a run that does not end within the budget is counted and NOT judged: a timeout is never a violation)
                            over_budget += 1
                            continue
                        outcome, msgs, log, delivered = res
                        evaluations += 1
                        distinct.add((spec_name, label, repr(log[:1])))
                        if len(samples) < 8 and rep == 0:
                            samples.append({"spec": spec_name, "behaviour": label, "outcome": outcome, "recorded": msgs})
                        for kind, detail in judge(spec_name, recogniser, valid, outcome, msgs, log, delivered):
                            if (spec_name, label, kind) in seen:
                                continue
                            seen.add((spec_name, label, kind))
                            violations.append({"name": f"bounded:protocol_run:{spec_name}", "witness": f"spec={spec_name};behaviour={label};kind={kind}",
                                               "detail": f"peer behaviour {label}: {detail}; outcome {outcome}, recorded {msgs}, sent {log}, delivered {delivered}",
                                               "script": replay_script(spec_name, label, seed, tier)})
    finally:
        logging.disable(logging.NOTSET)
        os.chdir(cwd)
    return {
        "evaluations": evaluations, "distinct_nontrivial": len(distinct),
        "rule": ("scripted protocol runs (Fandango.fuzz(mode=IO)) of 5 specs (a remote message with a computed repetition count; request/reply/ack with constraints across messages; two remote "
                 "parties whose fragments arrive interleaved; one message type addressed to different parties in different alternatives; "
                 "two consecutive remote messages of which the first is open-ended, delivered in one burst) x peer behaviours (valid, other valid alternative, wrong type, constraint "
                 "violating, garbage after a valid message, truncated [thorough]) x fragmentations (whole, character by character, "
                 "compositions) / interleavings (A then B, B then A, alternating, seeded random); judged: recorded interaction is a "
                 "prefix of the protocol with correct attribution, sends == recorded fuzzer messages, recorded remote data == delivered "
                 "data, valid peer => complete run, bad remote message never recorded; distinct = (spec, behaviour, first sent message)"),
        "bound": "5 specs, 2 (5) runs per case, single-threaded in-process parties; sockets, threads and timing are outside", "samples": samples,
        "violations": violations, "runs_over_budget_not_judged": over_budget, "wall_s": round(time.time() - t0, 1),
    }


def replay(spec_name, label, seed, tier):
    r = run(tier, seed, only=(spec_name, label))
    for v in r["violations"]:
        print("VIOLATION reproduced:", v["witness"], "--", v["detail"])
    if not r["violations"]:
        print("not reproduced")
    return 1 if r["violations"] else 0


if __name__ == "__main__":
    import json
    r = run(sys.argv[1] if len(sys.argv) > 1 else "quick")
    for v in r["violations"]:
        print("VIOLATION", v["witness"], "--", v["detail"][:400])
    r.pop("violations")
    print(json.dumps(r, indent=1, default=str)[:1800])
