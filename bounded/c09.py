"""C09 bounded half: the value of a tree is the in-order concatenation of its leaves; the three views agree.

Run-time contract on the REAL DerivationTree / TreeValue:
  for every tree of a family built from leaf sequences over {text (ASCII and non-ASCII), bytes (incl. empty and high bytes),
  bit runs (incl. runs whose leading byte is zero)} and from SEVERAL nestings of the same leaf sequence (flat, left-nested,
  right-nested, grouped in pairs, split inside a bit run),
      to_bits(tree)   == reference bits          (text leaves UTF-8 encoded, bytes as they are, bits as they are)
      bytes(tree)     == the reference bits in groups of eight      (when the bit count is a multiple of 8)
      str(tree)       == the text itself for text-only trees, else the Latin-1 decoding of bytes(tree)
  the answers do not depend on the nesting, nor on the order / repetition of the requests, and asking does not change the tree.
A view that raises for a tree whose bit runs are not byte-aligned where bytes are needed is not judged.
The reference is computed from the leaf list alone (this file), never through TreeValue.
"""
from __future__ import annotations

import itertools
import os
import random
import sys
import time

REPO = os.environ.get("VERIF_REPO", "/repo")
sys.path.insert(0, os.path.join(REPO, "src"))

LEAVES = [("s", "a"), ("s", "end"), ("s", "é"), ("s", "€x"), ("s", ""), ("b", b"\x89P"), ("b", b"\xff"), ("b", b"\x00"), ("b", b""),
          ("bits", "1"), ("bits", "0"), ("bits", "00000000"), ("bits", "0000000011111111"), ("bits", "00000111"), ("bits", "10000001"),
          ("bits", "0000000000000000"), ("bits", "101"), ("bits", "00000")]


def ref_bits(leaves):
    out = ""
    for kind, v in leaves:
        if kind == "s":
            out += "".join(f"{b:08b}" for b in v.encode("utf-8"))
        elif kind == "b":
            out += "".join(f"{b:08b}" for b in v)
        else:
            out += v
    return out


def ref_aligned(leaves):
    """bits pending when a text/bytes leaf arrives must be a multiple of eight (the property's alignment condition)"""
    pending = 0
    for kind, v in leaves:
        if kind == "bits":
            pending += len(v)
        else:
            if pending % 8:
                return False
            pending = 0
    return True


def ref_views(leaves):
    bits = ref_bits(leaves)
    only_text = all(k == "s" for k, _ in leaves)
    by = bytes(int(bits[i:i + 8], 2) for i in range(0, len(bits) - len(bits) % 8, 8)) if len(bits) % 8 == 0 else None
    if only_text:
        st = "".join(v for _, v in leaves)
    else:
        st = by.decode("latin-1") if by is not None else None
    return bits, by, st


def leaf_trees(leaves):
    from fandango.language.symbols.terminal import Terminal
    from fandango.language.tree import DerivationTree
    out = []
    for kind, v in leaves:
        if kind == "bits":
            out.extend(DerivationTree(Terminal(int(b))) for b in v)
        else:
            out.append(DerivationTree(Terminal(v)))
    return out


def nestings(leaves, rnd):
    """several trees with the same leaf sequence"""
    from fandango.language.symbols.non_terminal import NonTerminal
    from fandango.language.tree import DerivationTree

    def node(kids, name="<n>"):
        return DerivationTree(NonTerminal(name), kids)

    flat = leaf_trees(leaves)
    yield "flat", node(flat, "<start>")
    ls = leaf_trees(leaves)
    acc = ls[0]
    for x in ls[1:]:
        acc = node([acc, x])
    yield "left", node([acc], "<start>")
    ls = leaf_trees(leaves)
    acc = ls[-1]
    for x in reversed(ls[:-1]):
        acc = node([x, acc])
    yield "right", node([acc], "<start>")
    ls = leaf_trees(leaves)
    yield "pairs", node([node(ls[i:i + 2]) for i in range(0, len(ls), 2)], "<start>")
    ls = leaf_trees(leaves)
    if len(ls) >= 3:
        cut = rnd.randint(1, len(ls) - 1)
        yield "split", node([node(ls[:cut], "<hi>"), node(ls[cut:], "<lo>")], "<start>")


def leaves_of(t):
    out = []
    if not t.children:
        v = t.symbol.value()
        from fandango.language.tree_value import TreeValueType
        if v.is_type(TreeValueType.TRAILING_BITS_ONLY):
            out.append(("bits", str(v.to_bits())))
        elif v.is_type(TreeValueType.BYTES):
            out.append(("b", bytes(v)))
        else:
            out.append(("s", str(v)))
        return out
    for c in t.children:
        out.extend(leaves_of(c))
    return out


def locally_unaligned(t):
    """some proper subtree, taken by itself, has a text/bytes leaf after a bit run that is not a multiple of eight"""
    for c in t.children:
        if c.children and (not ref_aligned(leaves_of(c)) or locally_unaligned(c)):
            return True
    return False


def snapshot(t):
    return (t.symbol.format_as_spec(), tuple(snapshot(c) for c in t.children))


def views_of(tree, order):
    got = {}
    for what in order:
        try:
            got[what] = tree.to_bits() if what == "bits" else bytes(tree) if what == "bytes" else str(tree)
        except Exception as e:          # noqa: BLE001
            got[what] = ("raises", type(e).__name__)
    return got


def check_leaves(leaves, rnd):
    problems = []
    bits, by, st = ref_views(leaves)
    if not ref_aligned(leaves):
        return problems, 0
    n = 0
    for shape, tree in nestings(leaves, rnd):
        before = snapshot(tree)
        order = rnd.choice([("bits", "bytes", "str"), ("str", "bits", "bytes"), ("bytes", "str", "bits", "bytes", "str")])
        local = locally_unaligned(tree)
        got = views_of(tree, order)
        n += 1

        def differs(view, have, want):
            if isinstance(have, tuple) and have and have[0] == "raises":
                where = "in_a_tree_with_a_locally_unaligned_subtree" if local else "in_a_tree_whose_subtrees_are_all_aligned"
                return f"{shape}: {view} raises_{have[1]}_{where}: the leaves spell {want!r}"
            return f"{shape}: {view} gives_another_value{'_in_a_tree_with_a_locally_unaligned_subtree' if local else ''}: {have!r}, the leaves spell {want!r}"

        if got["bits"] != bits:
            problems.append(differs("to_bits()", got["bits"], bits))
        if by is not None and got["bytes"] != by:
            problems.append(differs("bytes()", got["bytes"], by))
        if st is not None and got["str"] != st:
            problems.append(differs("str()", got["str"], st))
        again = views_of(tree, ("str", "bytes", "bits"))
        if any(again[k] != got[k] for k in ("str", "bytes", "bits")):
            problems.append(f"{shape}: a second request gives other answers")
        if snapshot(tree) != before:
            problems.append(f"{shape}: asking for the value changed the tree")
        if problems:
            break
    return problems, n


def run(tier="quick", seed=0, pid="C09"):
    rnd = random.Random(seed)
    t0 = time.time()
    evaluations, distinct, samples, violations = 0, set(), [], []
    seqs = []
    for n in (1, 2, 3):
        combos = list(itertools.product(LEAVES, repeat=n))
        if n == 3:
            rnd.shuffle(combos)
            combos = combos[: (400 if tier == "quick" else 3000)]
        seqs.extend(combos)
    if tier != "quick":
        combos = [tuple(rnd.choice(LEAVES) for _ in range(4)) for _ in range(1500)]
        seqs.extend(combos)
    reported = set()
    for leaves in seqs:
        leaves = list(leaves)
        probs, n = check_leaves(leaves, rnd)
        evaluations += n
        if n:
            distinct.add(tuple(leaves))
        for p in probs:
            kind = "_".join(p.split(":")[1].strip().split(" ")[:2]).replace("()", "")[:110]
            if kind in reported:
                continue
            reported.add(kind)
            violations.append({"name": "bounded:views_are_the_leaf_concatenation", "witness": f"kind={kind}",
                               "detail": f"leaves {leaves!r}: {p}", "script": replay_script(leaves, seed)})
        if len(samples) < 6 and n and len(leaves) == 3 and any(k == "bits" for k, _ in leaves):
            samples.append({"leaves": [list(x) if not isinstance(x[1], bytes) else [x[0], repr(x[1])] for x in leaves], "nestings": n})
    return {
        "evaluations": evaluations, "distinct_nontrivial": len([d for d in distinct if len(d) >= 2]),
        "rule": (f"leaf sequences of length 1..3 (4 thorough) over {len(LEAVES)} leaves (ASCII / non-ASCII / empty text, bytes incl. empty and high, bit runs "
                 "incl. runs with a leading zero byte) whose bit runs are byte-aligned where bytes are needed, each built in up to 5 nestings; views "
                 "requested in varying orders and twice; reference computed from the leaf list alone; distinct = distinct leaf sequences, "
                 "non-trivial = at least two leaves"),
        "bound": "all sequences of 1-2 leaves, 400 (3000) of length 3, 1500 of length 4 (thorough)", "samples": samples, "violations": violations,
        "wall_s": round(time.time() - t0, 1),
    }


def replay_script(leaves, seed):
    root = os.path.dirname(os.path.dirname(os.path.abspath(__file__)))
    return f'''#!/usr/bin/env python3
"""C09 witness: the views of a tree with leaves {leaves!r} are not the concatenation of the leaves.  Exit 1 = reproduced."""
import os, sys, random
sys.path.insert(0, {root!r})
os.environ.setdefault("VERIF_REPO", "/repo")
from bounded import c09
probs, n = c09.check_leaves({leaves!r}, random.Random({seed!r}))
for p in probs:
    print("VIOLATION reproduced:", p)
if not probs:
    # the nesting is chosen with the run's random state: try a few more
    for sd in range(20):
        probs, n = c09.check_leaves({leaves!r}, random.Random(sd))
        if probs:
            for p in probs:
                print("VIOLATION reproduced:", p)
            break
print("not reproduced" if not probs else "")
sys.exit(1 if probs else 0)
'''


if __name__ == "__main__":
    import json
    r = run(sys.argv[1] if len(sys.argv) > 1 else "quick")
    for v in r["violations"]:
        print("VIOLATION", v["witness"], "--", v["detail"][:300])
    r.pop("violations")
    print(json.dumps(r, indent=1, default=str)[:600])
