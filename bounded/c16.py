from bounded.c01_c16 import run_pid


def run(tier="quick", seed=0, pid="C16"):
    return run_pid("C16", tier, seed)
