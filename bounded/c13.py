"""C13 bounded stand-in: incremental parsing is independent of how the input is cut.

Law checked on the REAL IterativeParser (new_parse / consume / can_continue):
  for every word w of the bounded language of every spec and EVERY composition w = f1 ... fk into non-empty fragments
  (all 2^(n-1) of them, n <= 7 characters/bytes):
     the set of complete parses reported after the last fragment == the set reported when w is consumed at once;
     can_continue() == False after a prefix u only if no word of the bounded language properly extends u.
A consume() call that exceeds its time budget is not judged here (C06).
"""
from __future__ import annotations

import itertools
import random
import sys
import time

from bounded import family
from bounded.c04_c05 import with_budget, words_of

MAX_LEN = 7


def compositions(n):
    """all ways to cut range(n) into consecutive non-empty pieces, as lists of (lo, hi)"""
    for mask in range(1 << (n - 1)):
        cuts = [0] + [i + 1 for i in range(n - 1) if mask >> i & 1] + [n]
        yield [(cuts[i], cuts[i + 1]) for i in range(len(cuts) - 1)]


class _NotJudged(Exception):
    pass


def prefix_mode_parses(grammar, pieces):
    """complete-flagged parses after the last fragment in prefix mode; a RecursionError of the parser (deeply nested partial
    trees of recursive grammars) is not judged here, any other exception is part of the compared result"""
    from fandango.language.grammar.parser.iterative_parser import IterativeParser
    try:
        return complete_parses(IterativeParser(grammar.rules), "<start>", pieces, "incomplete")
    except RecursionError:
        raise _NotJudged()
    except Exception as e:          # noqa: BLE001
        return ["raises " + type(e).__name__]


def tree_key(parser, tree):
    c = parser.collapse(tree)
    return c.to_tree() if c is not None else "None"


def complete_parses(parser, grammar_start, pieces, mode="complete"):
    from fandango.language.grammar import ParsingMode
    parser.new_parse(grammar_start, ParsingMode.COMPLETE if mode == "complete" else ParsingMode.INCOMPLETE)
    last = []
    for k, piece in enumerate(pieces):
        try:
            got = list(parser.consume(piece))
        except RecursionError:
            raise
        except Exception as e:          # noqa: BLE001  (a parser crash is part of the compared outcome)
            return ["raises " + type(e).__name__]
        if k == len(pieces) - 1:
            last = got
    return sorted({tree_key(parser, t) for t, complete in last if complete})


def run(tier="quick", seed=0, pid="C13"):
    from fandango.language.grammar.parser.iterative_parser import IterativeParser
    rnd = random.Random(seed)
    t0 = time.time()
    evaluations = 0
    distinct = set()
    samples = []
    violations = []
    timeouts = 0
    reported = set()
    words_per_spec = 6 if tier == "quick" else 40
    for name in family.SPECS:
        if name in family.GENERATOR_SPECS or name in family.C04_ONLY:
            continue
        grammar, _ = family.load(name)
        words = words_of(grammar, name)
        vals = [v for v in sorted(words, key=repr) if 1 <= len(v) <= MAX_LEN]
        rnd.shuffle(vals)
        vals = vals[:words_per_spec]
        # inputs OUTSIDE the language as well (single-edit near misses): cutting them must not make them parse
        from bounded.c04_c05 import near_misses
        outside = [v for v in near_misses(words, rnd, 4 if tier == "quick" else 20) if 1 <= len(v) <= MAX_LEN]
        vals = vals + outside
        lang = set(words)
        prefix_mode_unusable = False
        for w in vals:
            parser = IterativeParser(grammar.rules)
            whole, to = with_budget(lambda: complete_parses(parser, "<start>", [w]))
            if to:
                timeouts += 1
                continue
            # the same in prefix (INCOMPLETE) mode, where consume() also reports partial trees: only the trees flagged complete count
            # (a spec whose prefix-mode request does not end within the budget -- C06's subject, e.g. `*` over a regex terminal --
            # is not compared in prefix mode: one over-budget request is enough to know)
            if prefix_mode_unusable:
                whole_inc, to_inc = None, True
            else:
                try:
                    whole_inc, to_inc = with_budget(lambda: prefix_mode_parses(grammar, [w]), 8)
                except _NotJudged:
                    whole_inc, to_inc = None, True
                if to_inc and whole_inc is None:
                    prefix_mode_unusable = True
                    timeouts += 1
            for comp in compositions(len(w)):
                if len(comp) == 1:
                    continue
                pieces = [w[a:b] for a, b in comp]
                evaluations += 1
                distinct.add((name, repr(w), tuple(comp)))
                parser = IterativeParser(grammar.rules)
                got, to = with_budget(lambda: complete_parses(parser, "<start>", pieces))
                if to:
                    timeouts += 1
                    continue
                if got != whole and (name, "parses") not in reported:
                    reported.add((name, "parses"))
                    violations.append({
                        "name": f"bounded:fragmentation_independent:{name}", "witness": f"spec={name};kind=complete_parses_differ",
                        "detail": f"word {w!r} cut as {pieces!r}: {len(got)} complete parses, {len(whole)} when consumed at once",
                        "script": replay_script(name, w, pieces)})
                if to_inc or not (len(comp) == 2 or len(comp) == len(w)):
                    continue            # prefix mode: every single cut, and unit by unit
                evaluations += 1
                try:
                    got_inc, to = with_budget(lambda: prefix_mode_parses(grammar, pieces))
                except _NotJudged:
                    continue
                if to:
                    timeouts += 1
                    continue
                if got_inc != whole_inc and (name, "parses_inc") not in reported:
                    reported.add((name, "parses_inc"))
                    violations.append({
                        "name": f"bounded:fragmentation_independent:{name}", "witness": f"spec={name};kind=complete_parses_differ_in_prefix_mode",
                        "detail": f"prefix mode: word {w!r} cut as {pieces!r}: {len(got_inc)} complete parses, {len(whole_inc)} when consumed at once",
                        "script": replay_script(name, w, pieces, "incomplete")})
            if len(samples) < 8:
                samples.append({"spec": name, "word": repr(w), "compositions": 2 ** (len(w) - 1) - 1, "complete_parses": len(whole)})
            # can_continue after every proper prefix (of words of the language)
            for cut in range(1, len(w) if w in lang else 0):
                u = w[:cut]
                evaluations += 1
                parser = IterativeParser(grammar.rules)

                def probe():
                    from fandango.language.grammar import ParsingMode
                    parser.new_parse("<start>", ParsingMode.COMPLETE)
                    list(parser.consume(u))
                    return parser.can_continue()

                cont, to = with_budget(probe)
                if to:
                    timeouts += 1
                    continue
                if cont is False and (name, "cont") not in reported:
                    ext = [v for v in lang if len(v) > len(u) and v[: len(u)] == u]
                    if ext:
                        reported.add((name, "cont"))
                        violations.append({
                            "name": f"bounded:fragmentation_independent:{name}", "witness": f"spec={name};kind=cannot_continue_although_extension_exists",
                            "detail": f"after prefix {u!r} can_continue() is False although {ext[0]!r} is in the language",
                            "script": replay_script(name, w, [u, w[cut:]])})
    return {
        "evaluations": evaluations, "distinct_nontrivial": len(distinct),
        "rule": (f"complete mode: every spec of the family (no generators) x up to {words_per_spec} words (1..{MAX_LEN} characters/bytes) of its independently "
                 "enumerated language x ALL compositions into non-empty fragments, plus can_continue() after every proper prefix; prefix (INCOMPLETE) "
                 "mode: the same words, every single cut and unit-by-unit feeding, comparing the parses flagged complete; "
                 "distinct = distinct (spec, word, composition); all are non-trivial (>= 2 fragments)"),
        "bound": f"words up to {MAX_LEN} units, {words_per_spec} words per spec, 26 specs", "exhaustive": False,
        "samples": samples, "violations": violations, "consume_timeouts_not_judged": timeouts, "wall_s": round(time.time() - t0, 1),
    }


def replay_script(name, word, pieces, mode="complete"):
    import os
    return f'''#!/usr/bin/env python3
"""C13 witness: spec {name!r}, word {word!r}, fragments {pieces!r}.  Exit 1 = reproduced."""
import os, sys
sys.path.insert(0, {os.path.dirname(os.path.dirname(os.path.abspath(__file__)))!r})
os.environ.setdefault("VERIF_REPO", "/repo")
from bounded import c13
sys.exit(c13.replay({name!r}, {word!r}, {pieces!r}, {mode!r}))
'''


def replay(name, word, pieces, mode="complete"):
    from fandango.language.grammar.parser.iterative_parser import IterativeParser
    from fandango.language.grammar import ParsingMode
    grammar, _ = family.load(name)
    if mode == "complete":
        whole = complete_parses(IterativeParser(grammar.rules), "<start>", [word], mode)
        got = complete_parses(IterativeParser(grammar.rules), "<start>", pieces, mode)
    else:
        try:
            whole, got = prefix_mode_parses(grammar, [word]), prefix_mode_parses(grammar, pieces)
        except _NotJudged:
            print("not judged (RecursionError in the parser)")
            return 0
    print("spec:\n" + family.SPECS[name])
    print("whole:", len(whole), "fragmented", pieces, ":", len(got))
    bad = got != whole
    p = IterativeParser(grammar.rules)
    p.new_parse("<start>", ParsingMode.COMPLETE)
    list(p.consume(pieces[0]))
    if mode == "complete" and not p.can_continue() and len(pieces) > 1 and whole:
        print("can_continue() is False after", repr(pieces[0]), "although", repr(word), "is in the language")
        bad = True
    if bad:
        print("VIOLATION reproduced")
        return 1
    print("not reproduced")
    return 0


if __name__ == "__main__":
    import json
    r = run(sys.argv[1] if len(sys.argv) > 1 else "quick")
    for v in r["violations"]:
        print("VIOLATION", v["name"], v["witness"], "--", v["detail"])
    r.pop("violations")
    print(json.dumps(r, indent=1, default=str)[:1500])
