"""The family of small specs shared by the bounded harnesses (C01, C04, C05, C13)."""
from __future__ import annotations

import os
import sys

REPO = os.environ.get("VERIF_REPO", "/repo")
sys.path.insert(0, os.path.join(REPO, "src"))

# name -> spec text.  Every operator of the spec language occurs: alternatives, concatenation, * + ? {n} {n,m} {n,},
# literals, regexes, bytes, bits, recursion, generators, nested repetitions, ambiguity.
SPECS = {
    "alt_concat": '<start> ::= <a> <b> | <b>\n<a> ::= "x" | "yy"\n<b> ::= "z" | "x"\n',
    "star": '<start> ::= <a>* "e"\n<a> ::= "x" | "yz"\n',
    "plus": '<start> ::= <a>+\n<a> ::= "x" | "y"\n',
    "option": '<start> ::= <a>? <b> <a>?\n<a> ::= "x"\n<b> ::= "y"\n',
    "rep_exact": '<start> ::= <a>{2} "-" <a>{1}\n<a> ::= "x" | "y"\n',
    "rep_range": '<start> ::= <a>{1,3} <b>{0,2}\n<a> ::= "x"\n<b> ::= "y"\n',
    "rep_open": '<start> ::= <a>{2,} "."\n<a> ::= "x"\n',
    "nested_rep": '<start> ::= (<a>{1,2} ",")+ <a>\n<a> ::= "x" | "y"\n',
    "star_in_star": '<start> ::= ("=" <v> ("," <v>)*)* "."\n<v> ::= "1" | "2"\n',
    "option_in_option": '<start> ::= "h" (":" <p> ("/" <q>)?)?\n<p> ::= "8"\n<q> ::= "x"\n',
    "plus_in_plus": '<start> ::= (<a> ("," <a>)+ ";")+\n<a> ::= "x"\n',
    "group_alt_star": '<start> ::= ("a" | "b" <c>)* "!"\n<c> ::= "c"\n',
    "right_rec": '<start> ::= "(" <start> ")" | "x"\n',
    "left_rec": '<start> ::= <start> "+" <t> | <t>\n<t> ::= "1" | "2"\n',
    "ambiguous": '<start> ::= <a> <a>\n<a> ::= "x" | "xx" | ""\n',
    "regex_digit": '<start> ::= <n> "," <n>\n<n> ::= r"[01]+"\n',
    "regex_alt": '<start> ::= <w> "=" <v>\n<w> ::= r"[ab]"\n<v> ::= r"(a|b)b?"\n',
    "bytes_lit": '<start> ::= <h> <p>*\n<h> ::= b"\\xff\\x00"\n<p> ::= b"a" | b"\\xfe"\n',
    "bytes_regex": '<start> ::= <h> <p>\n<h> ::= b"\\x01"\n<p> ::= rb"[ab]{1,2}"\n',
    "bits_byte": '<start> ::= <bit>{8}\n<bit> ::= 0 | 1\n',
    "bits_fields": '<start> ::= <f> <g> <tail>\n<f> ::= <bit>{3}\n<g> ::= <bit>{5}\n<bit> ::= 0 | 1\n<tail> ::= b"a" | b""\n',
    "bits_then_text": '<start> ::= <bit>{8} "z"\n<bit> ::= 0 | 1\n',
    "text_then_bits": '<start> ::= "k" <bit>{8}\n<bit> ::= 0 | 1\n',
    "mixed_str_bytes": '<start> ::= "ab" <x> "c"\n<x> ::= b"\\x00" | b"\\x80"\n',
    "unicode_text": '<start> ::= <g>+\n<g> ::= "é" | "€" | "a"\n',
    "gen_const": '<start> ::= <a> ":" <b>\n<a> ::= r"[0-9]" := "7"\n<b> ::= "x" | "y"\n',
    "gen_dependent": '<start> ::= <n> "=" <d>\n<n> ::= "1" | "2" | "3"\n<d> ::= r"[0-9]+" := str(int(<n>) * 2)\n',
    "gen_nested": '<start> ::= <outer>\n<outer> ::= <inner> "!" := str(<inner>) + "!"\n<inner> ::= r"[ab]" := "a"\n',
    "empty_regex_next_to_literal": '<start> ::= <a> <b>\n<a> ::= r"x*"\n<b> ::= "y"\n',
    "nonascii_next_to_bits": '<start> ::= "é" <bit>{8} "z"\n<bit> ::= 0 | 1\n',
    "nonascii_in_bytes": '<start> ::= b"\\x01" "é" b"\\x00"\n',
    # a bytes regex whose language consists of high bytes (what Grammar.fuzz generates must parse back byte for byte)
    "bytes_regex_high": '<start> ::= <h> <p>\n<h> ::= b"\\x01"\n<p> ::= rb"[\\x80-\\xff]{1,2}"\n',
    # a subtree whose value is TEXT FOLLOWED BY BITS, appended after data that is already bytes
    "bytes_then_text_bits": '<start> ::= <magic> <field>\n<magic> ::= b"\\xca\\xfe"\n<field> ::= <key> <flags>\n<key> ::= "k" | "q"\n<flags> ::= <bit>{8}\n<bit> ::= 0 | 1\n',
    # an UNBOUNDED run of bits followed by a text / bytes literal (the literal must only be tried at byte boundaries)
    "bits_plus_then_text": '<start> ::= <bit>+ "a"\n<bit> ::= 0 | 1\n',      # (fuzzed trees may be unaligned: no bytes view)
    # a regex terminal and a literal terminal with the same text (`r"."` any character, `"."` the dot), the regex defined first
    "regex_dot_before_literal_dot": '<start> ::= <comment> | <version>\n<comment> ::= "#" <any>*\n<any> ::= r"."\n<version> ::= <num> "." <num>\n<num> ::= r"[0-9]+"\n',
    # a nullable symbol reached by two alternatives in the same parser column (the second prediction finds it already completed)
    "nullable_shared_by_alternatives": '<start> ::= <n> "a" | <m> <n> "x"\n<n> ::= "y"?\n<m> ::= "z"?\n',
    "nullable_star_shared": '<start> ::= <p> <q> "!" | <q> "?"\n<p> ::= "a"*\n<q> ::= "b"*\n',
    # regex terminals that start with an anchor / a word boundary and do NOT stand at the beginning of the input (a terminal is
    # matched on its own: its start is the start of the text the regex sees)
    "anchored_regex_after_text": '<start> ::= "u " <name> ";"\n<name> ::= r"^[ab]+"\n',
    "word_boundary_regex_after_letter": '<start> ::= "x" <w> "0"\n<w> ::= r"\\bab?"\n',
    # an optional BYTES regex before text: some words serialise as bytes, others as text; one grammar object parses both kinds
    "optional_bytes_regex_then_text": '<start> ::= <hdr>? <body>\n<hdr> ::= rb"\\xff[01]"\n<body> ::= r"[ab]+"\n',
    "constrained": '<start> ::= <d> "," <d>\n<d> ::= "1" | "2" | "x"\nwhere int(<d>) >= 1\n',
    "constrained_len": '<start> ::= <a>{1,4}\n<a> ::= "x" | "y"\nwhere len(str(<start>)) % 2 == 0\n',
}

# specs outside the class for which C05 promises the round trip (regex terminals that can be split in more than one way
# between neighbouring symbols) -- none so far; kept for documentation
OUTSIDE_ROUNDTRIP_CLASS: set = set()

# specs that exist for the C04 harness only (Latin-1 encoded byte inputs); for C05/C13 they would only repeat the
# recorded finding about non-ASCII text literals next to binary data (spec nonascii_next_to_bits)
C04_ONLY = {"nonascii_in_bytes"}
GENERATOR_SPECS = {"gen_const", "gen_dependent", "gen_nested"}
CONSTRAINED_SPECS = {"constrained", "constrained_len"}


def load(name: str):
    from fandango.language.parse.parse import parse
    grammar, constraints = parse(SPECS[name], use_stdlib=False, use_cache=False)
    return grammar, constraints


def fandango(name: str):
    from fandango import Fandango
    return Fandango(SPECS[name], use_stdlib=False, use_cache=False)
