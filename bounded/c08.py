"""C08 bounded stand-in: Python embedded in a spec keeps its Python meaning.

Run-time contract on the real front end (parse_tree -> FandangoSplitter -> PythonProcessor.get_code -> ast.unparse, i.e.
exactly the text FandangoSpec.run_code exec()s; and ConstraintProcessor for `where` expressions):
    ast.dump(ast.parse(<text Fandango runs>)) == ast.dump(ast.parse(<original text>))
or the construct is rejected with an error.  A silent difference is a violation.
Inputs: a bounded enumeration over CPython's constructs (statements x expression forms, every parameter kind,
comprehensions, f-strings, literals, operators, control flow, imports) plus the Python fragments of the repository's own
.fan files.  This is a contract checked by enumeration, not a proof.
"""
from __future__ import annotations

import ast
import glob
import itertools
import zlib
import os
import sys
import time
import warnings

REPO = os.environ.get("VERIF_REPO", "/repo")

ATOMS = ["a", "b", "1", "1.5", "'s'", 'b"b"', "True", "None", "...", "1_000", "0x_ff", "0b1_0", "1e3", "2j", "'a' 'b'", 'r"\\d"', '"""t"""']
BINOPS = ["+", "-", "*", "/", "//", "%", "**", "@", "<<", ">>", "&", "|", "^"]
CMPOPS = ["==", "!=", "<", "<=", ">", ">=", "is", "is not", "in", "not in"]

EXPRESSIONS = (
    ATOMS
    + [f"a {op} b" for op in BINOPS] + [f"a {op} b {op2} c" for op, op2 in [("+", "*"), ("*", "+"), ("**", "**"), ("-", "-"), ("/", "//"), ("<<", "+"), ("&", "|"), ("|", "^")]]
    + ["(-1) ** 2", "(-2) ** a", "-1 ** 2", "2 ** -1", "(-1.5) ** 2", "(-8).bit_length()", "(-1).real", "- -1", "+-1", "-(-1)", "(-1j) ** 2", "(-a).b", "(-1)[0:1]",
       "f'<{a}>' '!'", "'== ' f'{a}' ' =='", "'a' f'{b}'", "f'{a}' 'b' 'c'", "'a' 'b' f'{c}' 'd'", "f'{a}' f'{b}' 'c'", "'x' 'y' 'z'"]
    + ["-a", "+a", "~a", "not a", "not a == b", "-a ** b", "(-a) ** b", "a if b else c", "a if b else c if d else e", "(a if b else c) if d else e"]
    + [f"a {op} b" for op in CMPOPS] + ["a < b < c", "a < b == c >= d", "a in b not in c", "not (a < b)"]
    + ["a and b", "a or b", "a and b or c", "a or b and c", "(a or b) and c", "not a and b"]
    + ["lambda: a", "lambda x: x", "lambda x, y=1: x + y", "lambda *args: args", "lambda **kw: kw", "lambda x, /, y, *, z: x", "lambda x, *a, k=1, **kw: x",
       "lambda: (yield)", "lambda x=(1, 2): x", "(lambda: a)()"]
    + ["[a, b]", "[*a, b]", "[a, *b, c]", "(a, b)", "(a,)", "()", "(*a, b)", "{a, b}", "{*a, *b}", "{a: b}", "{**a, b: c}", "{a: b, **c}", "{}", "[]", "[[a], [b]]"]
    + ["[x for x in a]", "[x for x in a if x]", "[x for x in a if x if y]", "[x + y for x in a for y in b]", "[x for x in a for y in x if y]", "{x for x in a}",
       "{x: y for x, y in a}", "(x for x in a)", "sum(x for x in a)", "[x for x, in a]", "[(x, y) for x, y in a]", "[x async for x in a]" if False else "[x for x in (a, b)]",
       "[y := x for x in a]", "[x for x in a if (y := x)]", "[[y for y in x] for x in a]", "[lambda: x for x in a]"]
    + ["f'{a}'", "f'x{a}y'", "f'{a!r}'", "f'{a!s:>4}'", "f'{a:>{b}}'", "f'{a}{{b}}'", "f'{{}}'", "f'{a = }'", "f'{a=!r}'", "f'{a:%Y}'", "f'{a + b}'", "f'{a[0]}'", "f'{f(a)}'",
       "f'{a}' 'b'", "'a' f'{b}'", "f'''{a}\n{b}'''", "f'{a if b else c}'", "f'{x!a}'", "rf'{a}\\d'", "f'{\"q\"}'", "f'{a:{b}.{c}}'"]
    + ["a[0]", "a[-1]", "a[1:2]", "a[:]", "a[::2]", "a[1:2:3]", "a[1, 2]", "a[1:2, 3]", "a[...]", "a[b][c]", "a[(1, 2)]", "a[1:]", "a[:2]", "a[*b]"]
    + ["f()", "f(a)", "f(a, b)", "f(a, k=b)", "f(*a)", "f(**a)", "f(a, *b, k=c, **d)", "f(*a, *b)", "f(**a, **b)", "f(x for x in a)", "f(a)(b)", "a.b", "a.b.c", "a.b(c).d", "a.b[c]", "f(a,)",
       "f(k=1, *a)"]
    + ["(a := b)", "(yield)" if False else "(a)", "((a))", "a if (b := c) else d", "await a" if False else "a"]
    + ["'\\n'", "'\\x00'", "'\\u00e9'", "'é'", "b'\\xff'", "'\\''", '"\\""', "'\\\\'", "'a' \\\n 'b'", "(\n a,\n b,\n)", "[\n a,\n]", "f(\n a,\n b\n)", "a + \\\n b"]
)

STATEMENTS = [
    "x = 1", "x = y = 1", "x, y = 1, 2", "x: int = 1", "x: int", "x += 1", "x -= 1", "x *= 2", "x /= 2", "x //= 2", "x %= 2", "x **= 2", "x @= y", "x <<= 1", "x >>= 1", "x &= 1", "x |= 1", "x ^= 1",
    "*a, b = c", "a, *b = c", "a, (b, c) = d", "[a, b] = c", "x = a,", "x = a, b", "x = *a, b", "x.y = 1", "x[0] = 1", "x[0:1] = [1]", "x = yield" if False else "x = (a, b)",
    "def f(): pass", "def f(a): return a", "def f(a, b=1): return a", "def f(a, /, b): return a", "def f(a, *, b): return a", "def f(*args): return args", "def f(**kw): return kw",
    "def f(a, /, b, *c, d, e=1, **g): return a", "def f(a: int, b: str = 's') -> int: return a", "def f(*, a=1): return a", "def f(a=1, /): return a", "def f(a, b=[], c={}): return a",
    "def f():\n    '''doc'''\n    return 1", "def f():\n    def g():\n        return 1\n    return g", "def f():\n    global x\n    x = 1", "def f():\n    y = 1\n    def g():\n        nonlocal y\n        y = 2\n    return g",
    "@d\ndef f(): pass", "@d(1)\n@e\ndef f(): pass", "def f(): yield 1", "def f(): yield from a", "def f():\n    x = yield 1\n    return x", "async def f(): await a", "async def f():\n    async for x in a:\n        pass",
    "async def f():\n    async with a as b:\n        pass", "def f(*a: int, **k: str): pass", "def f(a, *, b: int = 2): return b",
    "class A: pass", "class A(B): pass", "class A(B, C, metaclass=M): pass", "class A:\n    x = 1\n    def f(self): return self.x", "@d\nclass A: pass", "class A(B):\n    '''doc'''",
    "if a: x = 1", "if a:\n    x = 1\nelse:\n    x = 2", "if a:\n    x = 1\nelif b:\n    x = 2\nelse:\n    x = 3", "if a:\n    if b:\n        x = 1\n    else:\n        x = 2",
    "for x in a: pass", "for x in a:\n    pass\nelse:\n    y = 1", "for x, y in a: pass", "for x in a:\n    if x: break\n    continue", "for (x, y), z in a: pass", "for x in a, b: pass",
    "while a: pass", "while a:\n    a = f(a)\nelse:\n    x = 1", "while True:\n    break",
    "try:\n    x = 1\nexcept E:\n    x = 2", "try:\n    x = 1\nexcept E as e:\n    x = e", "try:\n    x = 1\nexcept (E, F):\n    pass\nelse:\n    y = 1\nfinally:\n    z = 1", "try:\n    x = 1\nfinally:\n    y = 1",
    "try:\n    x = 1\nexcept:\n    pass", "try:\n    x = 1\nexcept* E:\n    pass", "try:\n    x = 1\nexcept E:\n    raise",
    "with a: pass", "with a as b: pass", "with a as b, c as d: pass", "with (a as b, c as d): pass", "with a, b: pass", "with a as (b, c): pass",
    "match a:\n    case 1:\n        x = 1\n    case _:\n        x = 2", "match a:\n    case [x, y]:\n        pass\n    case {'k': v}:\n        pass", "match a:\n    case A(x=1) | B():\n        pass",
    "global x", "del x", "del x, y", "del x[0]", "assert a", "assert a, 'msg'", "raise E", "raise E('m')", "raise E from f", "raise", "return" if False else "pass", "pass",
    "import a", "import a.b", "import a as b", "import a.b as c", "import a, b", "from a import b", "from a import b as c", "from a import b, c", "from a import (b, c)", "from a import *",
    "from . import a", "from .. import a", "from .a import b", "from ..a.b import c as d", "from a.b import c",
    "x = 1; y = 2", "x = 1;", "x = 1  # comment", "# comment\nx = 1", "x = (1 +\n     2)", "x = 1 + \\\n    2", "x = [\n    1,\n    2,\n]", "x = {\n    'a': 1,\n}", "if a:\n    # comment\n    x = 1",
    "type X = int", "def f[T](a: T) -> T: return a", "class A[T]: pass", "x = lambda: (yield)", "print(a)", "print(a, b, sep='')", "f(a)(b)", "a.b.c = 1", "x = y if z else w",
    "def f():\n    return 1, 2", "def f():\n    return (yield)", "def f():\n    return", "x = not a", "x = -1", "x = 1 if a else 2 if b else 3", "lambda: 1", "a if b else c", "[x for x in a]", "'docstring'",
]


def front_end():
    sys.path.insert(0, os.path.join(REPO, "src"))
    from fandango.language.parse.parse_tree import parse_tree
    from fandango.language.parse.spec import CachedFandangoSpec
    return parse_tree, CachedFandangoSpec


def fandango_code_text(parse_tree, CachedFandangoSpec, text: str) -> str:
    tree = parse_tree("<c08>", text + "\n")
    spec = CachedFandangoSpec(tree, text + "\n", filename="<c08>")
    return spec.code_text


class _FoldConstFStrings(ast.NodeTransformer):
    """an f-string without replacement fields denotes the same value as the plain string (implicit concatenation
    'a' "b" is rebuilt by the front end as such an f-string): not a change of meaning"""

    def visit_JoinedStr(self, node):
        self.generic_visit(node)
        if all(isinstance(v, ast.Constant) and isinstance(v.value, str) for v in node.values):
            return ast.copy_location(ast.Constant(value="".join(v.value for v in node.values)), node)
        # adjacent constant pieces of an f-string are one piece ('a' 'b' f'{c}' == 'ab' f'{c}')
        merged = []
        for v in node.values:
            if merged and isinstance(v, ast.Constant) and isinstance(v.value, str) and isinstance(merged[-1], ast.Constant) and isinstance(merged[-1].value, str):
                merged[-1] = ast.Constant(value=merged[-1].value + v.value)
            else:
                merged.append(v)
        node.values = merged
        return node

    def visit_UnaryOp(self, node):
        """-1 written as a sign applied to a literal and the negative constant denote the same value (CPython folds it too);
        what matters is what the sign applies to: (-1) ** 2 and -1 ** 2 stay different"""
        self.generic_visit(node)
        if isinstance(node.op, (ast.USub, ast.UAdd)) and isinstance(node.operand, ast.Constant) \
                and isinstance(node.operand.value, (int, float, complex)) and not isinstance(node.operand.value, bool):
            v = node.operand.value
            return ast.copy_location(ast.Constant(value=-v if isinstance(node.op, ast.USub) else +v), node)
        return node


def normalised_ast(text: str):
    return _FoldConstFStrings().visit(ast.parse(text))


def norm(text: str) -> str:
    return ast.dump(normalised_ast(text))


def check_snippet(fe, text: str):
    """-> ('ok' | 'rejected' | 'cpython-rejects' | 'altered', detail)"""
    try:
        with warnings.catch_warnings():
            warnings.simplefilter("ignore")
            want = norm(text)
    except SyntaxError:
        return "cpython-rejects", ""
    try:
        with warnings.catch_warnings():
            warnings.simplefilter("ignore")
            got_text = fandango_code_text(*fe, text)
    except BaseException as e:            # rejected with an error: allowed by the property
        if isinstance(e, (KeyboardInterrupt, SystemExit)) and not isinstance(e, SystemExit):
            raise
        return "rejected", f"{type(e).__name__}"
    try:
        got = norm(got_text)
    except SyntaxError as e:
        return "altered", f"not-valid-python || Fandango runs text that is not valid Python: {got_text!r}"
    if got == want:
        return "ok", ""
    return "altered", f"{signature(text, got_text)} || Fandango runs {got_text!r}"


def first_difference(a, b, where="Module") -> str:
    """signature of the first place where two ASTs differ: '<context>:<original node> -> <node Fandango runs>'"""
    if type(a) is not type(b):
        return f"{where}:{type(a).__name__}->{type(b).__name__}"
    if isinstance(a, ast.AST):
        for f in a._fields:
            if f in ("ctx", "lineno", "col_offset", "end_lineno", "end_col_offset", "type_comment"):
                continue
            d = first_difference(getattr(a, f, None), getattr(b, f, None), f"{type(a).__name__}.{f}")
            if d:
                return d
        return ""
    if isinstance(a, list):
        if len(a) != len(b):
            kinds_a = ",".join(type(x).__name__ for x in a)[:40]
            kinds_b = ",".join(type(x).__name__ for x in b)[:40]
            return f"{where}:[{kinds_a}]->[{kinds_b}]"
        for x, y in zip(a, b):
            d = first_difference(x, y, where)
            if d:
                return d
        return ""
    if a != b:
        return f"{where}:{type(a).__name__}-value-changed"
    return ""


def signature(text: str, got_text: str) -> str:
    try:
        d = first_difference(normalised_ast(text), normalised_ast(got_text))
        return d.split(":", 1)[1] if ":" in d else d
    except SyntaxError:
        return "not-valid-python"


def harvested_fragments(limit: int):
    """Python statements of the repository's own .fan files (lines that CPython parses on their own)"""
    out = []
    for path in sorted(glob.glob(os.path.join(REPO, "**", "*.fan"), recursive=True)):
        try:
            lines = open(path, encoding="utf-8").read().split("\n")
        except Exception:
            continue
        block = []
        for ln in lines + [""]:
            s = ln.strip()
            is_py = s and not s.startswith("<") and not s.startswith("where") and not s.startswith("#") and "::=" not in s and not s.startswith("include")
            if is_py or (block and ln.startswith((" ", "\t")) and s):
                block.append(ln)
            else:
                if block:
                    text = "\n".join(block)
                    try:
                        ast.parse(text)
                        out.append(text)
                    except SyntaxError:
                        pass
                block = []
        if len(out) >= limit:
            break
    seen, uniq = set(), []
    for t in out:
        if t not in seen:
            seen.add(t)
            uniq.append(t)
    return uniq[:limit]


def parameter_lists(tier):
    """every parameter list built from: 0..2 positional parameters (trailing defaults, optional `/`), nothing | *args | bare *,
    0..2 (thorough: 3) keyword-only parameters with EVERY default/no-default pattern, optional **kw"""
    out = []
    kmax = 2 if tier == "quick" else 3
    pos_variants = [""]
    for npos in (1, 2):
        names = ["p", "q"][:npos]
        for ndef in range(npos + 1):
            ps = [n if i < npos - ndef else f"{n}={i + 1}" for i, n in enumerate(names)]
            pos_variants.append(", ".join(ps))
            if tier != "quick":
                pos_variants.append(", ".join(ps[:1] + ["/"] + ps[1:]))
    for pos in pos_variants:
        for star in ("", "*args", "*"):
            for k in range(0, kmax + 1):
                if star == "" and k > 0 or star == "*" and k == 0:
                    continue
                for mask in range(1 << k):
                    kws = [f"k{i}" if not mask >> i & 1 else f"k{i}='d{i}'" for i in range(k)]
                    for kw in ("", "**kw"):
                        parts = [x for x in [pos, star] + kws + [kw] if x]
                        out.append(", ".join(parts))
    return out


def run(tier="quick", seed=0, pid="C08"):
    t0 = time.time()
    fe = front_end()
    snippets = []
    for pl in parameter_lists(tier):
        snippets.append(("params", f"def f({pl}): return 0"))
    for e in EXPRESSIONS:
        snippets.append(("expr", f"x = {e}"))
    for s in STATEMENTS:
        snippets.append(("stmt", s))
    # second-level combinations: expression forms nested in statement contexts
    contexts = ["def f(p={e}): return p", "x = [{e}]", "x = f({e})", "if {e}:\n    x = 1", "x = lambda: {e}", "x = f'{{{e}}}'", "for i in {e}: pass", "x = ({e}, )", "return_value = {e} if a else b"]
    exprs2 = EXPRESSIONS if tier == "thorough" else EXPRESSIONS[::3]
    for ctx, e in itertools.product(contexts, exprs2):
        if "\n" in e or "'" in e and "f'" in ctx:
            continue
        snippets.append(("nested", ctx.format(e=e)))
    for frag in harvested_fragments(60 if tier == "quick" else 400):
        snippets.append(("repo", frag))
    counts = {"ok": 0, "rejected": 0, "cpython-rejects": 0, "altered": 0}
    violations, samples = [], []
    by_sig = {}
    distinct = set()
    for kind, text in snippets:
        if text in distinct:
            continue
        distinct.add(text)
        status, detail = check_snippet(fe, text)
        counts[status] += 1
        if len(samples) < 10 and status == "ok" and kind in ("expr", "stmt", "nested") and len(samples) < 10 and zlib.crc32(text.encode()) % 7 == 0:
            samples.append({"kind": kind, "snippet": text, "status": status})
        if status == "altered":
            sig = detail.split(" || ")[0]
            if sig in by_sig:
                by_sig[sig]["count"] += 1
                continue
            # one report per kind of alteration (the first AST difference); the first snippet showing it is the replay
            v = {"name": "bounded:embedded_python_ast_preserved", "witness": f"alteration={sig.replace(' ', '')}", "count": 1,
                 "detail": f"e.g. {text!r}: {detail}", "script": replay_script(text)}
            by_sig[sig] = v
            violations.append(v)
    if not samples:
        samples = [{"kind": k, "snippet": t} for k, t in snippets[:5]]
    evaluated = sum(counts.values()) - counts["cpython-rejects"]
    return {
        "evaluations": evaluated, "distinct_nontrivial": counts["ok"] + counts["altered"] + counts["rejected"],
        "rule": ("snippets = every parameter list from a systematic enumeration (positional/defaults, *args or bare *, all default patterns of "
                 "keyword-only parameters, **kw) as def, expression forms (as `x = <expr>`), statement forms, expression forms nested in 9 statement contexts, and "
                 "Python fragments of the repository's .fan files; each goes through the real spec front end and the text Fandango "
                 "would exec is re-parsed by CPython and compared (ast.dump) with CPython's AST of the original; distinct = distinct "
                 "snippet text that CPython accepts; all are non-trivial"),
        "bound": f"{len(EXPRESSIONS)} expression forms, {len(STATEMENTS)} statement forms, nesting depth 2",
        "samples": samples, "violations": violations, "counts": counts, "wall_s": round(time.time() - t0, 1),
    }


def replay_script(text):
    root = os.path.dirname(os.path.dirname(os.path.abspath(__file__)))
    return f'''#!/usr/bin/env python3
"""C08 witness: the snippet below is silently altered by the spec front end.  Exit 1 = reproduced."""
import os, sys
sys.path.insert(0, {root!r})
os.environ.setdefault("VERIF_REPO", "/repo")
from bounded import c08
status, detail = c08.check_snippet(c08.front_end(), {text!r})
print("snippet:", {text!r})
print("status :", status, detail)
sys.exit(1 if status == "altered" else 0)
'''


if __name__ == "__main__":
    import json
    r = run(sys.argv[1] if len(sys.argv) > 1 else "quick")
    for v in r["violations"]:
        print(f"finding: property=C08 obligation={v['name']} witness={v['witness']} — silently altered ({v['count']} snippets of the corpus), {v['detail'][:230]}")
    r.pop("violations")
    print(json.dumps(r, indent=1, default=str)[:1200])
