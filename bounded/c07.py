"""C07 bounded half: the translation of constraint text into searches + expression, and the selector classes.

Run-time contract on the real pipeline: for a constraint program P (spec text) and a tree t,
      Constraint.check(t)  ==  Ref_P(t)
where Ref_P is a reference evaluator written from docs/Paths.md / Constraints.md: it computes the match lists of each
selector by its own traversal of the tree (children and sources, document order) and evaluates the program's Python
meaning directly (every combination must be truthy, a raising combination fails, no match = nothing to violate,
quantifiers bind one match at a time).  The same constraint objects are used for all trees and each tree is checked
twice, so memo hits are exercised.  Trees: ALL words of two small grammars (exhaustive), including words with
structurally equal subtrees.
"""
from __future__ import annotations

import itertools
import os
import sys
import time

REPO = os.environ.get("VERIF_REPO", "/repo")
sys.path.insert(0, os.path.join(REPO, "src"))

GRAMMAR_ROWS = '<start> ::= <r> ";" <r>\n<r> ::= <x> "," <x>\n<x> ::= "1" | "2" | "3"\n'
GRAMMAR_NEST = '<start> ::= <n>\n<n> ::= <d> | <d> <n>\n<d> ::= "1" | "2"\n'          # <n> occurs below <n>: `.` and `..` differ
GRAMMAR_LIST = '<start> ::= <item>{1,3}\n<item> ::= <d> | "(" <d> <d> ")"\n<d> ::= "1" | "2" | "x"\n'


# ---- reference selectors (own traversal) -------------------------------------------------------------

def kids(t):
    return list(t.children)


def sym(t):
    s = t.symbol
    return s.name() if getattr(s, "is_non_terminal", False) else None


def all_nodes(t, name):
    """post-order: matches below the node first, then the node itself (docs: <A> finds every <A> in the tree)"""
    out = []
    for c in kids(t):
        if sym(c) is not None:
            out.extend(all_nodes(c, name))
    if sym(t) == name:
        out.append(t)
    return out


def direct(t, name):
    return [c for c in kids(t) if sym(c) == name]


def dot(bases, name):
    return [m for b in bases for m in direct(b, name)]


def dotdot(bases, name):
    return [m for b in bases for m in all_nodes(b, name)]


def proper_dotdot(bases, name):
    """`<A>..<B>` as documented (docs/Paths.md: <B> is a child of <A>, or a descendant of one of <A>'s children): the base itself is
    not its own descendant -- differs from dotdot only when the base carries the selected symbol"""
    return [m for b in bases for c in kids(b) for m in all_nodes(c, name)]


def truthy_all(combos, fn):
    """every combination truthy; a raising combination fails"""
    for c in combos:
        try:
            if not fn(*c):
                return False
        except Exception:
            return False
    return True


# ---- programs: (grammar, constraint text, reference) -------------------------------------------------

def P_rows():
    X = lambda t: all_nodes(t, "<x>")          # noqa: E731
    R = lambda t: all_nodes(t, "<r>")          # noqa: E731
    S = lambda t: all_nodes(t, "<start>")      # noqa: E731
    return [
        ("int(<x>) >= 2", lambda t: truthy_all([(m,) for m in X(t)], lambda m: int(m) >= 2)),
        ("int(<x>) != 3", lambda t: truthy_all([(m,) for m in X(t)], lambda m: int(m) != 3)),
        ("str(<r>) != '1,1'", lambda t: truthy_all([(m,) for m in R(t)], lambda m: str(m) != "1,1")),
        ("int(<r>.<x>) <= 2", lambda t: truthy_all([(m,) for m in dot(R(t), "<x>")], lambda m: int(m) <= 2)),
        ("int(<start>..<x>) <= 2", lambda t: truthy_all([(m,) for m in dotdot(S(t), "<x>")], lambda m: int(m) <= 2)),
        ("len(*<r>..<x>) == 4", lambda t: len(dotdot(R(t), "<x>")) == 4),
        ("len(*<start>.<r>) == 2", lambda t: len(dot(S(t), "<r>")) == 2),
        ("sum(int(e) for e in *<r>..<x>) >= 6", lambda t: sum(int(e) for e in dotdot(R(t), "<x>")) >= 6),
        ("''.join(str(e) for e in *<r>..<x>) != '1111'", lambda t: "".join(str(e) for e in dotdot(R(t), "<x>")) != "1111"),
        ("|<r>..<x>| == 4", lambda t: len(dotdot(R(t), "<x>")) == 4),
        ("int(<r>[0]) == 1", lambda t: truthy_all([(kids(m)[0],) for m in R(t)], lambda m: int(m) == 1)),
        ("str(<r>[2]) != '3'", lambda t: truthy_all([(kids(m)[2],) for m in R(t)], lambda m: str(m) != "3")),
        ("str(<r>[:1]) == '1'", lambda t: truthy_all([(m,) for m in R(t)], lambda m: "".join(str(c) for c in kids(m)[:1]) == "1")),
        ("str(<r>[1:]) != ',1'", lambda t: truthy_all([(m,) for m in R(t)], lambda m: "".join(str(c) for c in kids(m)[1:]) != ",1")),
        ("str(<r>[0:2]) == '1,'", lambda t: truthy_all([(m,) for m in R(t)], lambda m: "".join(str(c) for c in kids(m)[0:2]) == "1,")),
        ("str(<start>[:2]) != '1,1;'", lambda t: truthy_all([(m,) for m in S(t)], lambda m: "".join(str(c) for c in kids(m)[:2]) != "1,1;")),
        ("str(<start>[0]) == str(<start>[2])", lambda t: truthy_all([(kids(m)[0], kids(n)[2]) for m in S(t) for n in S(t)], lambda a, b: str(a) == str(b))),
        ("int(<start>.<r>[0]) <= 2", lambda t: truthy_all([(kids(m)[0],) for m in dot(S(t), "<r>")], lambda m: int(m) <= 2)),
        ("int(<x>) <= 2 and str(<r>) != '2,2'", lambda t: truthy_all([(m,) for m in X(t)], lambda m: int(m) <= 2) and truthy_all([(m,) for m in R(t)], lambda m: str(m) != "2,2")),
        ("int(<x>) >= 3 or str(<r>) == '1,1'", lambda t: truthy_all([(m,) for m in X(t)], lambda m: int(m) >= 3) or truthy_all([(m,) for m in R(t)], lambda m: str(m) == "1,1")),
        ("1 < int(<x>) < 3", lambda t: truthy_all([(m,) for m in X(t)], lambda m: 1 < int(m) < 3)),            # chained comparison
        ("not int(<x>) == 3", lambda t: truthy_all([(m,) for m in X(t)], lambda m: not int(m) == 3)),
        ("forall <e> in <start>.<r>: int(<e>.<x>) <= 2", lambda t: all(truthy_all([(m,) for m in direct(e, "<x>")], lambda m: int(m) <= 2) for e in dot(S(t), "<r>"))),
        ("exists <e> in <start>.<r>: str(<e>) == '1,2'", lambda t: any(str(e) == "1,2" for e in dot(S(t), "<r>"))),
        ("exists <e> in <start>..<x>: int(<e>) == 3", lambda t: any(int(e) == 3 for e in dotdot(S(t), "<x>"))),
        # bodies that mention symbols which are NOT below the bound element (they are searched in the whole input)
        ("forall <e> in <start>.<r>: |<start>.<r>| == 2", lambda t: all(len(dot(S(t), "<r>")) == 2 for e in dot(S(t), "<r>"))),
        ("exists <e> in <start>..<x>: int(<e>) == 2 and |<r>| == 2", lambda t: any(int(e) == 2 and len(R(t)) == 2 for e in dotdot(S(t), "<x>"))),
        # a body that tells two structurally equal elements apart by identity
        ("forall <a> in <x>: forall <b> in <x>: <a> is <b> or int(<a>) != int(<b>)", lambda t: all(a is b or int(a) != int(b) for a in X(t) for b in X(t))),
        ("forall <e> in <start>.<r>: exists <f> in <e>.<x>: int(<f>) == 1", lambda t: all(any(int(f) == 1 for f in direct(e, "<x>")) for e in dot(S(t), "<r>"))),
        ("forall <e> in <start>.<r>: forall <x> in <e>.<x>: int(<x>) <= 2", lambda t: all(all(int(x) <= 2 for x in direct(e, "<x>")) for e in dot(S(t), "<r>"))),
        ("exists <e> in <start>.<r>: forall <f> in <e>.<x>: int(<f>) >= 2", lambda t: any(all(int(f) >= 2 for f in direct(e, "<x>")) for e in dot(S(t), "<r>"))),
        ("all(int(e) <= 2 for e in *<r>..<x>)", lambda t: all(int(e) <= 2 for e in dotdot(R(t), "<x>"))),
        ("any(int(e) == 3 for e in *<r>.<x>)", lambda t: any(int(e) == 3 for e in dot(R(t), "<x>"))),
        ("int(<r>.<x>) + 0 <= 2", lambda t: truthy_all([(m,) for m in dot(R(t), "<x>")], lambda m: int(m) + 0 <= 2)),
        ("str(<r>).startswith('1')", lambda t: truthy_all([(m,) for m in R(t)], lambda m: str(m).startswith("1"))),
    ]


def P_list():
    D = lambda t: all_nodes(t, "<d>")              # noqa: E731
    I = lambda t: all_nodes(t, "<item>")           # noqa: E731
    S = lambda t: all_nodes(t, "<start>")          # noqa: E731
    return [
        ("int(<d>) >= 1", lambda t: truthy_all([(m,) for m in D(t)], lambda m: int(m) >= 1)),                       # raises on 'x'
        ("int(<d>) == 1", lambda t: truthy_all([(m,) for m in D(t)], lambda m: int(m) == 1)),
        ("1 == int(<d>)", lambda t: truthy_all([(m,) for m in D(t)], lambda m: 1 == int(m))),                          # the RIGHT operand raises on 'x'
        ("2 >= int(<item>.<d>)", lambda t: truthy_all([(m,) for m in dot(I(t), "<d>")], lambda m: 2 >= int(m))),
        ("int(<d>) in (1, 2)", lambda t: truthy_all([(m,) for m in D(t)], lambda m: int(m) in (1, 2))),                 # an EXPRESSION constraint that raises on 'x'
        ("12 % int(<d>) == 0 or False", lambda t: truthy_all([(m,) for m in D(t)], lambda m: 12 % int(m) == 0 or False)),
        ("int(<item>.<d>) <= 1", lambda t: truthy_all([(m,) for m in dot(I(t), "<d>")], lambda m: int(m) <= 1)),
        ("len(*<item>..<d>) >= 2", lambda t: len(dotdot(I(t), "<d>")) >= 2),
        ("len(*<start>.<item>) <= 2", lambda t: len(dot(S(t), "<item>")) <= 2),
        ("exists <e> in <start>.<item>: str(<e>) == '(12)'", lambda t: any(str(e) == "(12)" for e in dot(S(t), "<item>"))),
        ("forall <e> in <start>.<item>: len(str(<e>)) == 1", lambda t: all(len(str(e)) == 1 for e in dot(S(t), "<item>"))),
        ("exists <e> in <start>..<d>: int(<e>) == 2", lambda t: _exists_raising(dotdot(S(t), "<d>"), lambda e: int(e) == 2)),
        ("str(<d>) != 'x' or len(*<start>.<item>) == 1", lambda t: truthy_all([(m,) for m in D(t)], lambda m: str(m) != "x") or len(dot(S(t), "<item>")) == 1),
    ]


def P_nest():
    N = lambda t: all_nodes(t, "<n>")              # noqa: E731
    S = lambda t: all_nodes(t, "<start>")          # noqa: E731
    return [
        ("int(<start>.<n>[0]) == 1", lambda t: truthy_all([(kids(m)[0],) for m in dot(S(t), "<n>")], lambda m: int(m) == 1)),
        ("int(<start>..<n>[0]) == 1", lambda t: truthy_all([(kids(m)[0],) for m in dotdot(S(t), "<n>")], lambda m: int(m) == 1)),
        ("str(<n>.<n>[0]) != '2'", lambda t: truthy_all([(kids(m)[0],) for m in dot(N(t), "<n>")], lambda m: str(m) != "2")),
        ("len(*<start>.<n>) == 1", lambda t: len(dot(S(t), "<n>")) == 1),
        ("len(*<start>..<n>) <= 2", lambda t: len(dotdot(S(t), "<n>")) <= 2),
        ("|<n>..<n>| == 3", lambda t: len(proper_dotdot(N(t), "<n>")) == 3),
        ("str(<start>.<n>.<d>) == '1'", lambda t: truthy_all([(m,) for m in dot(dot(S(t), "<n>"), "<d>")], lambda m: str(m) == "1")),
    ]


def _exists_raising(matches, fn):
    """exists with a body that may raise: a raising instance is not a witness"""
    for m in matches:
        try:
            if fn(m):
                return True
        except Exception:
            pass
    return False


def words(grammar_text, max_words):
    from fandango.language.parse.parse import parse
    from bounded.oracle import language, word_value
    g, _ = parse(grammar_text, use_stdlib=False, use_cache=False)
    out = []
    for w in sorted(language(g, max_atoms=9), key=repr):
        kind, val = word_value(w)
        if kind == "str":
            out.append(val)
    return out[:max_words]


def run(tier="quick", seed=0, pid="C07"):
    from fandango.language.parse.parse import parse
    t0 = time.time()
    evaluations, distinct, samples, violations = 0, set(), [], []
    reported = set()
    undecided = []
    for gname, gtext, programs in (("rows", GRAMMAR_ROWS, P_rows()), ("list", GRAMMAR_LIST, P_list()), ("nest", GRAMMAR_NEST, P_nest())):
        ws = words(gtext, 81 if tier == "quick" else 400)
        if tier == "quick":
            ws = ws[:: max(1, len(ws) // 45)]
        base, _ = parse(gtext, use_stdlib=False, use_cache=False)
        trees = []
        for w in ws:
            t = base.parse(w)
            if t is not None:
                trees.append((w, t))
        for text, ref in programs:
            try:
                g, cs = parse(gtext + "where " + text + "\n", use_stdlib=False, use_cache=False)
            except Exception as e:
                undecided.append(f"program `{text}` is not accepted by the spec reader: {type(e).__name__}")
                continue
            c = cs[0]
            for w, t in trees:
                try:
                    want = bool(ref(t))
                except Exception as e:
                    undecided.append(f"reference evaluator failed on `{text}` / {w!r}: {type(e).__name__}: {e}")
                    break
                for attempt in (1, 2):        # the second check of the same tree hits the memo
                    evaluations += 1
                    distinct.add((text, w))
                    try:
                        got = bool(c.check(t))
                    except Exception as e:
                        got = f"raises {type(e).__name__}"
                    if got != want and (text, attempt) not in reported:
                        reported.add((text, attempt))
                        violations.append({
                            "name": "bounded:verdict_equals_reference", "witness": f"constraint={text.replace(' ', '')};check={attempt}",
                            "detail": f"`{text}` on {w!r}: check #{attempt} gives {got}, the documented semantics gives {want}",
                            "script": replay_script(gtext, text, w)})
            if len(samples) < 8:
                samples.append({"grammar": gname, "constraint": text, "trees": len(trees)})
    return {
        "evaluations": evaluations, "distinct_nontrivial": len(distinct),
        "rule": ("53 constraint programs (rule / . / .. / [] / * / |..| selectors, and/or/not, comprehensions, forall/exists incl. nested and "
                 "rebinding, sub-expressions that raise) x the words of three small grammars (quick: every ~2nd word; thorough: all), each "
                 "tree checked twice with the same constraint objects; distinct = distinct (program, word); all non-trivial"),
        "bound": "two grammars, words up to 9 atoms", "samples": samples, "violations": violations, "undecided": undecided,
        "wall_s": round(time.time() - t0, 1),
    }


def replay_script(gtext, text, word):
    root = os.path.dirname(os.path.dirname(os.path.abspath(__file__)))
    return f'''#!/usr/bin/env python3
"""C07 witness: constraint {text!r} on input {word!r}.  Exit 1 = reproduced."""
import os, sys
sys.path.insert(0, {root!r})
os.environ.setdefault("VERIF_REPO", "/repo")
from bounded import c07
sys.exit(c07.replay({gtext!r}, {text!r}, {word!r}))
'''


def replay(gtext, text, word):
    from fandango.language.parse.parse import parse
    progs = dict(P_rows() + P_list() + P_nest())
    g, cs = parse(gtext + "where " + text + "\n", use_stdlib=False, use_cache=False)
    t = g.parse(word)
    want = bool(progs[text](t))
    got1 = cs[0].check(t)
    got2 = cs[0].check(t)
    print(f"constraint {text!r} on {word!r}: first check {got1}, second check {got2}, documented semantics {want}")
    if bool(got1) != want or bool(got2) != want:
        print("VIOLATION reproduced")
        return 1
    # memo across trees: check every word once more with the same object
    print("not reproduced")
    return 0


if __name__ == "__main__":
    import json
    r = run(sys.argv[1] if len(sys.argv) > 1 else "quick")
    for v in r["violations"]:
        print("VIOLATION", v["witness"], "--", v["detail"][:260])
    for u in r["undecided"]:
        print("UNDECIDED", u)
    r.pop("violations")
    print(json.dumps(r, indent=1, default=str)[:700])
