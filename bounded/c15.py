"""C15 bounded half: printing a spec and reading it back preserves its meaning.

Run-time contract on the real printer/reader pair:  for a spec S with grammar G and constraints C,
   G' , C' = parse(repr(G) + "where ..." lines printed by format_as_spec)
   bounded_language(G') == bounded_language(G)      (independent enumerator over the grammar IR)
   verdict of every printed-and-reread constraint == verdict of the original constraint on sample trees of G
Specs: the shared family, plus specs aimed at grouping, repetition bounds, and literal quoting (quotes, backslashes,
newline, NUL, non-ASCII, \\xff; text, bytes and regex literals of length <= 3 over that alphabet).
"""
from __future__ import annotations

import itertools
import zlib
import os
import random
import sys
import time

from bounded import family
from bounded.oracle import language

GROUPING = {
    "postfix_on_group": '<start> ::= ("a" "b")* "c"\n',
    "postfix_on_postfix": '<start> ::= ("a"*)? ("b"+){2} "c"\n',
    "open_bound": '<start> ::= "a"{2,} "b"{,2} "c"{1,}\n',
    "nested_alt": '<start> ::= ("a" | "b" ("c" | "d"))+ "e"\n',
    "alt_in_concat": '<start> ::= "a" ("b" | "c") "d" | "e"\n',
    "option_group": '<start> ::= ("a" "b")? ("c" | "d" "e")?\n',
    "exact_group": '<start> ::= ("a" | "b"){2} ("c" "d"){1,2}\n',
    "same_text_plain_and_regex": '<start> ::= <a> <b> <a>\n<a> ::= "."\n<b> ::= r"."\n',
    "same_text_regex_and_plain": '<start> ::= <b> <a>\n<b> ::= r"[ab]"\n<a> ::= "[ab]"\n',
    "parties": '<start> ::= <StdOut:a> <StdIn:b>?\n<a> ::= "a"\n<b> ::= "b"\n',
}
CONSTRAINTS = {
    "cmp": '<start> ::= <d> "," <d>\n<d> ::= "1" | "2" | "3"\nwhere int(<d>) >= 2\n',
    "and_or": '<start> ::= <d> "," <e>\n<d> ::= "1" | "2"\n<e> ::= "1" | "2"\nwhere int(<d>) >= 2 or (int(<e>) == 1 and int(<d>) == 1)\n',
    "selectors": '<start> ::= <r> ";" <r>\n<r> ::= <x> "," <x>\n<x> ::= "1" | "2"\nwhere str(<start>.<r>[0]) == "1,1"\nwhere len(<start>..<x>) == 4\n',
    "quantifier": '<start> ::= <x>+\n<x> ::= "1" | "2"\nwhere forall <e> in <start>.<x>: int(<e>) >= 1\nwhere exists <e> in <start>.<x>: int(<e>) == 2\n',
    "and_of_or": '<start> ::= <d> "," <e>\n<d> ::= "1" | "2"\n<e> ::= "1" | "2"\nwhere int(<d>) >= 2 and (int(<e>) == 1 or int(<d>) == 1)\n',
    "slice_prefix": '<start> ::= <x>{3}\n<x> ::= "1" | "2"\nwhere str(<start>[:2]) == "12"\n',
    "ifexp_operand": '<start> ::= <x> "," <x>\n<x> ::= "1" | "2"\nwhere (1 if str(<start>) == "1,1" else 2) == 2\n',
    "computed_bound": '<start> ::= <n> ":" <i>{int(<n>)}\n<n> ::= "1" | "2"\n<i> ::= "a"\n',
    "minimizing": '<start> ::= <x>\n<x> ::= "1" | "2"\nminimizing int(<x>)\n',
    "generator_args": '<start> ::= <n> "=" <d>\n<n> ::= "1" | "2"\n<d> ::= r"[0-9]+" := str(int(<n>) * 2)\n',
    "star_len": '<start> ::= <x>{1,3}\n<x> ::= "a" | "b"\nwhere len(*<start>.<x>) >= 2\nwhere |<start>.<x>| <= 3\n',
}
# inputs on which the constraint verdicts of the original and the re-read spec are compared in addition to fuzzed trees
EXAMPLE_INPUTS = {"computed_bound": ["1:a", "2:aa", "2:a", "1:aa"], "and_of_or": ["1,1", "1,2", "2,1", "2,2"], "ifexp_operand": ["1,1", "2,2"],
                  "slice_prefix": ["121", "211", "122"]}
ALPHABET = ["a", "'", '"', "\\", "\n", "\x00", "é", "€", "\xff", "{", "<"]
# regex literals that mix escapes with non-ASCII / control characters, each with a word it must match
REGEX_EXAMPLES = [(r"\d+€", "12€"), (r"[à-ü]+", "àé"), (r"\s\x00", " \x00"), (r"\w\\", "a\\"), (r"é\.", "é."), (r"\d\t€?", "1\t"),
                  (r"[^\x00-\x7f]\d", "€1"), (r"\"\d'", "\"1'")]


def literal_specs(tier):
    """specs whose only purpose is a tricky literal: text, bytes, regex"""
    out = {}
    max_len = 2 if tier == "quick" else 3
    k = 0
    for n in range(1, max_len + 1):
        for combo in itertools.product(ALPHABET, repeat=n):
            s = "".join(combo)
            tricky = "'" in s and '"' in s          # both quote characters: always kept
            if n == max_len and tier == "quick" and (zlib.crc32(s.encode()) % 3) and not tricky:
                continue
            out[f"lit_str_{k}"] = ("str", s)
            if all(ord(c) < 256 for c in s):
                out[f"lit_bytes_{k}"] = ("bytes", s.encode("latin-1"))
            k += 1
    return out


def roundtrip_grammar(spec_text):
    from fandango.language.parse.parse import parse
    g, cs = parse(spec_text, use_stdlib=False, use_cache=False)
    printed = repr(g) + "\n"
    for c in cs:
        if type(c).__name__ == "RepetitionBoundsConstraint":
            continue            # not a `where` line of the source: it comes with the computed repetition in the grammar
        line = c.format_as_spec()
        # soft constraints print their own keyword (`minimizing ...` / `maximizing ...`); hard constraints are `where` lines
        printed += (line if line.startswith(("minimizing ", "maximizing ")) else "where " + line) + "\n"
    g2, cs2 = parse(printed, use_stdlib=False, use_cache=False)
    return g, cs, printed, g2, cs2


def same_language(g, g2, atoms=5):
    a = language(g, max_atoms=atoms, regex_alphabet="abx01")
    b = language(g2, max_atoms=atoms, regex_alphabet="abx01")
    return a == b, a, b


def run(tier="quick", seed=0, pid="C15"):
    t0 = time.time()
    rnd = random.Random(seed)
    sys.path.insert(0, os.path.join(os.environ.get("VERIF_REPO", "/repo"), "src"))
    evaluations = 0
    distinct = set()
    samples, violations = [], []
    specs = {}
    specs.update({k: v for k, v in family.SPECS.items() if k not in family.GENERATOR_SPECS})
    specs.update(GROUPING)
    specs.update(CONSTRAINTS)

    def report(name, kind, detail, spec_text):
        violations.append({"name": f"bounded:print_read_roundtrip:{name}", "witness": f"spec={name};kind={kind}", "detail": detail,
                           "script": replay_script(spec_text)})

    for name, text in specs.items():
        evaluations += 1
        distinct.add(name)
        try:
            g, cs, printed, g2, cs2 = roundtrip_grammar(text)
        except Exception as e:
            report(name, "printed_spec_not_readable", f"{type(e).__name__}: {str(e)[:200]}", text)
            continue
        atoms = 11 if "bit" in name else 5
        same, a, b = same_language(g, g2, atoms)
        if not same:
            diff = sorted(a ^ b, key=repr)[:2]
            report(name, "language_changed", f"printed as {printed!r}; differing words e.g. {diff}", text)
        if g.generators:
            # a printed generator must still be a generator: fuzzing the re-read grammar works and gives words of the original
            for sd in range(4):
                random.seed(rnd.randint(0, 10 ** 9))
                evaluations += 1
                try:
                    t2 = g2.fuzz()
                    back = g.parse(t2.to_string())
                except Exception as e:
                    report(name, "printed_generator_not_usable", f"fuzzing the re-read grammar raises {type(e).__name__}; printed {printed!r}", text)
                    break
                if back is None:
                    report(name, "printed_generator_changes_output", f"the re-read grammar generates {t2.to_string()!r}, not a word of the original", text)
                    break
        if len(cs) != len(cs2):
            report(name, "constraint_count_changed", f"{len(cs)} constraints printed, {len(cs2)} read back", text)
        elif cs:
            for w in EXAMPLE_INPUTS.get(name, []):
                evaluations += 1
                try:
                    t1, t2 = g.parse(w), g2.parse(w)
                except Exception:
                    continue
                if (t1 is None) != (t2 is None):
                    report(name, "language_changed", f"input {w!r}: accepted by the original grammar: {t1 is not None}, by the re-read one: {t2 is not None}", text)
                    break
                if t1 is None:
                    continue

                def verdicts(constraints, tree):
                    out = []
                    for c in constraints:
                        try:
                            out.append(bool(c.check(tree)))
                        except Exception as e:
                            out.append("raises " + type(e).__name__)
                    return out

                v1, v2 = verdicts(cs, t1), verdicts(cs2, t2)
                if v1 != v2:
                    report(name, "constraint_verdict_changed", f"on {w!r}: {v1} before, {v2} after the round trip; printed {printed!r}", text)
                    break
            for sd in range(8 if tier == "quick" else 40):
                random.seed(rnd.randint(0, 10 ** 9))
                t = g.fuzz()
                evaluations += 1
                t2 = g2.parse(t.to_string()) if not t.should_be_serialized_to_bytes() else g2.parse(t.to_bytes())
                if t2 is None:
                    continue
                v1 = [bool(c.check(t)) for c in cs]
                v2 = [bool(c.check(t2)) for c in cs2]
                if v1 != v2:
                    report(name, "constraint_verdict_changed", f"on {t.to_string()!r}: {v1} before, {v2} after the round trip; printed {printed!r}", text)
                    break
        if len(samples) < 6:
            samples.append({"spec": name, "printed": printed[:120]})
    # literal quoting
    for name, (kind, lit) in literal_specs(tier).items():
        evaluations += 1
        distinct.add(name)
        for regex in (False, True):
            if regex:
                import re
                src = ("r" if kind == "str" else "rb") + _py_literal(re.escape(lit), kind)[1 if kind == "bytes" else 0:]
            else:
                src = _py_literal(lit, kind)
            text = f"<start> ::= {src}\n"
            try:
                from fandango.language.parse.parse import parse
                g, _ = parse(text, use_stdlib=False, use_cache=False)
            except Exception:
                continue            # the literal itself is not accepted by the reader: nothing to print
            try:
                printed = repr(g) + "\n"
                g2, _ = parse(printed, use_stdlib=False, use_cache=False)
            except Exception as e:
                report(f"literal_{kind}{'_regex' if regex else ''}", "printed_literal_not_readable", f"literal {lit!r}: {src} printed as {printed!r}: {type(e).__name__}", text)
                continue
            w = lit
            ok1 = g.parse(w) is not None
            ok2 = g2.parse(w) is not None
            if ok1 != ok2:
                report(f"literal_{kind}{'_regex' if regex else ''}", "printed_literal_changes_meaning", f"literal {lit!r}: {src} printed as {printed!r}: accepts the literal before={ok1} after={ok2}", text)
    for rx, example in REGEX_EXAMPLES:
        evaluations += 1
        distinct.add(("regex", rx))
        text = f"<start> ::= r'{rx}'\n" if "'" not in rx else f'<start> ::= r"{rx}"\n' 
        try:
            from fandango.language.parse.parse import parse
            g, _ = parse(text, use_stdlib=False, use_cache=False)
            if g.parse(example) is None:
                continue         # the example is not accepted in the first place: nothing to compare
        except Exception:
            continue
        try:
            printed = repr(g) + "\n"
            g2, _ = parse(printed, use_stdlib=False, use_cache=False)
            ok2 = g2.parse(example) is not None
        except Exception as e:
            report("literal_str_regex", "printed_literal_not_readable", f"regex {rx!r} printed as {printed!r}: {type(e).__name__}", text)
            continue
        if not ok2:
            report("literal_str_regex", "printed_regex_rejects_its_example", f"regex {rx!r} printed as {printed!r} no longer matches {example!r}", text)
    seen, uniq = set(), []
    for v in violations:
        key = (v["name"], v["witness"].split(":")[0])
        if key in seen:
            continue
        seen.add(key)
        uniq.append(v)
    return {
        "evaluations": evaluations, "distinct_nontrivial": len(distinct),
        "rule": (f"{len(specs)} specs (shared family, grouping/bounds specs, constraint specs) printed with repr(grammar) + format_as_spec of the "
                 "constraints, re-read, compared by bounded language enumeration and constraint verdicts on fuzzed trees; plus literals of length "
                 "<= 2 (3 thorough) over an alphabet with quotes, backslash, newline, NUL, non-ASCII, as text / bytes / regex; distinct = distinct spec"),
        "bound": "language words up to 5 atoms; literals up to 2/3 characters", "samples": samples, "violations": uniq,
        "wall_s": round(time.time() - t0, 1),
    }


def _py_literal(v, kind):
    return repr(v)


def replay_script(spec_text):
    root = os.path.dirname(os.path.dirname(os.path.abspath(__file__)))
    return f'''#!/usr/bin/env python3
"""C15 witness: the spec below does not survive printing and re-reading.  Exit 1 = reproduced."""
import os, sys
sys.path.insert(0, {root!r})
os.environ.setdefault("VERIF_REPO", "/repo")
sys.path.insert(0, os.path.join(os.environ["VERIF_REPO"], "src"))
from bounded import c15
sys.exit(c15.replay({spec_text!r}))
'''


def replay(spec_text):
    print("spec:\n" + spec_text)
    try:
        g, cs, printed, g2, cs2 = roundtrip_grammar(spec_text)
    except Exception as e:
        print("VIOLATION reproduced: the printed spec cannot be read back:", type(e).__name__, str(e)[:300])
        return 1
    print("printed:\n" + printed)
    same, a, b = same_language(g, g2)
    if not same:
        print("VIOLATION reproduced: language changed, e.g.", sorted(a ^ b, key=repr)[:3])
        return 1
    if len(cs) != len(cs2):
        print("VIOLATION reproduced: constraint count changed")
        return 1
    if g.generators:
        for sd in range(6):
            random.seed(sd)
            try:
                t2 = g2.fuzz()
                back = g.parse(t2.to_string())
            except Exception as e:
                print("VIOLATION reproduced: fuzzing the re-read grammar raises", type(e).__name__)
                return 1
            if back is None:
                print("VIOLATION reproduced: the re-read grammar generates", repr(t2.to_string()), "which is not a word of the original")
                return 1
    for sd in range(40):
        random.seed(sd)
        t = g.fuzz()
        t2 = g2.parse(t.to_string())
        if t2 is None:
            continue
        if [bool(c.check(t)) for c in cs] != [bool(c.check(t2)) for c in cs2]:
            print("VIOLATION reproduced: constraint verdict changed on", repr(t.to_string()))
            return 1
    for rx, example in REGEX_EXAMPLES:
        if g.parse(example) is not None and g2.parse(example) is None:
            print("VIOLATION reproduced: the re-read grammar rejects", repr(example), "which the original accepts")
            return 1
    print("not reproduced")
    return 0


if __name__ == "__main__":
    import json
    r = run(sys.argv[1] if len(sys.argv) > 1 else "quick")
    for v in r["violations"]:
        print("VIOLATION", v["name"], v["witness"], "--", v["detail"][:260])
    r.pop("violations")
    print(json.dumps(r, indent=1, default=str)[:900])
