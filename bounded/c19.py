"""C19 bounded stand-in: protocol forecasting offers exactly the grammar's continuations.

Run-time contract on the REAL PacketForecaster.predict(history):
   { (sender, message type) offered }  ==  Follow(G_msg, history)      and
   complete_trees != {}                <=>  history is a full interaction,
where G_msg is the message-level grammar (message = a nonterminal occurrence annotated with a party) and Follow/complete
come from an independent enumeration of the message-level language written against the grammar IR (no parser involved).
All histories up to a depth bound of every protocol spec of the family below.
"""
from __future__ import annotations

import os
import sys
import time

REPO = os.environ.get("VERIF_REPO", "/repo")
sys.path.insert(0, os.path.join(REPO, "src"))

MSGS = "".join(f'<{c}> ::= "{c}"\n' for c in "abcdefg")

SPECS = {
    "sequence": "<start> ::= <StdOut:a> <StdIn:b> <StdOut:c>\n",
    "alternative": "<start> ::= <StdOut:a> (<StdIn:b> | <StdOut:c>) <StdOut:d>\n",
    "option": "<start> ::= <StdOut:a> <StdIn:b>? <StdOut:c>\n",
    "star": "<start> ::= <StdOut:a> (<StdIn:b> | <StdOut:c>)* <StdOut:d>?\n",
    "plus": "<start> ::= <StdOut:a>+ <StdIn:b>\n",
    "bounded_rep": "<start> ::= <StdOut:a>{1,2} <StdIn:b>{0,2} <StdOut:c>\n",
    "exact_rep": "<start> ::= <StdOut:a>{2} <StdIn:b>\n",
    "nested": "<start> ::= <x>+ <StdOut:d>\n<x> ::= <StdOut:a> <y>?\n<y> ::= <StdIn:b> | <StdIn:c> <StdOut:e>\n",
    "nested_rules": "<start> ::= <p> <q>\n<p> ::= <StdOut:a>? <StdOut:b>*\n<q> ::= <StdOut:c>{1,2} <r>\n<r> ::= <StdOut:d> | <s>\n<s> ::= <StdOut:e>\n",
    "recursion": "<start> ::= <StdOut:a> <start> <StdIn:b> | <StdOut:c>\n",
    "two_parties": "<start> ::= <Client:Server:a> <Server:Client:b> (<Client:Server:c> <Server:Client:d>)* <Client:Server:e>\n",
    "same_type_twice": "<start> ::= <StdOut:a> <StdIn:a> <StdOut:b>\n",
    "optional_tail": "<start> ::= <StdOut:a> (<StdIn:b> <StdOut:c>?)?\n",
    "exchange_loop": "<start> ::= <x>+ <StdOut:d>\n<x> ::= <StdOut:a> <StdIn:c> <StdOut:e>\n",
    "optional_exchange": "<start> ::= <StdOut:a> <y>? <StdOut:d>\n<y> ::= <StdIn:c> <StdOut:e>\n",
    # the same non-message nonterminal reached more than once in one forecast (skippable first, then mandatory; in two branches)
    "shared_rule_retry": "<start> ::= <StdOut:a> <retry>{0,2} <resp> <StdOut:d>\n<retry> ::= <resp> <StdOut:e>\n<resp> ::= <StdIn:b> | <StdIn:c>\n",
    "shared_rule_option_then_mandatory": "<start> ::= <StdOut:a> <x>? <x> <StdOut:d>\n<x> ::= <StdIn:b> <StdOut:c>?\n",
    "shared_rule_in_branches": "<start> ::= <StdOut:a> (<x> <StdOut:d> | <StdOut:c> <x> <StdOut:e>) <x>?\n<x> ::= <StdIn:b>\n",
    # a history whose TYPE sequence is a full interaction under other parties (completeness must respect the parties)
    "same_type_complete_under_other_party": "<start> ::= <StdOut:a> (<StdOut:b> | <StdIn:b> <StdOut:c>)\n",
    "same_type_other_direction": "<start> ::= <StdOut:a> (<StdOut:b> <StdIn:c> | <StdIn:b> <StdOut:c>) <StdOut:d>\n",
}
PARTY_DEFS = '''
class Client(FandangoParty):
    def __init__(self):
        super().__init__(connection_mode=ConnectionMode.OPEN)

    def send(self, message, recipient):
        pass


class Server(FandangoParty):
    def __init__(self):
        super().__init__(connection_mode=ConnectionMode.EXTERNAL)
'''


# three-party specs that are SLICED to the messages sent by a subset of the parties when they are loaded (`parties=[...]`):
# the expected interactions are the full interactions with the other parties' messages dropped (projection computed here)
THREE_PARTIES = "".join(f"""
class {n}(FandangoParty):
    def __init__(self):
        super().__init__(connection_mode=ConnectionMode.OPEN)

    def send(self, message, recipient):
        pass
""" for n in ("P", "Q", "R"))
SLICED = {
    "relay": ("<start> ::= <P:Q:a> <Q:R:b> <R:Q:c> <Q:P:d> <s>{1,2} <P:Q:e>\n<s> ::= <P:Q:f> <Q:R:g> <R:Q:b> <Q:P:c> <P:Q:d>?\n", [("P",), ("Q",), ("P", "Q")]),
    "adjacent_foreign": ("<start> ::= <P:Q:a> (<R:Q:b> <R:Q:c> <Q:P:d>)+ <P:Q:e>\n", [("P",), ("P", "Q")]),
}


def load_sliced(name, keep):
    from fandango.language.parse.parse import parse
    text = SLICED[name][0] + MSGS + THREE_PARTIES
    full, _ = parse(text, use_stdlib=False, use_cache=False)
    sliced, _ = parse(text, use_stdlib=False, use_cache=False, parties=list(keep))
    return full, sliced


def load(name):
    from fandango.api import Fandango
    text = SPECS[name] + MSGS + (PARTY_DEFS if "Client" in SPECS[name] else "")
    return Fandango(text, use_stdlib=False, use_cache=False).grammar


# ---- independent message-level language ----------------------------------------------------------

def msg_language(grammar, max_len):
    """set of tuples of (sender, recipient, nonterminal name) of length <= max_len derivable from <start>, plus the set of
    all proper prefixes that can still be extended"""
    from fandango.language.grammar.nodes.alternative import Alternative
    from fandango.language.grammar.nodes.concatenation import Concatenation
    from fandango.language.grammar.nodes.non_terminal import NonTerminalNode
    from fandango.language.grammar.nodes.repetition import Repetition
    from fandango.language.grammar.nodes.terminal import TerminalNode
    from fandango.language.symbols.non_terminal import NonTerminal

    def cat(A, B):
        out = set()
        for a in A:
            for b in B:
                w = a + b
                out.add(w[: max_len + 1])          # truncated words still witness prefixes
        return out

    def expand(node, depth):
        if depth <= 0:
            return set()
        if isinstance(node, TerminalNode):
            return {()}
        if isinstance(node, NonTerminalNode):
            if node.sender is not None:
                return {((node.sender, node.recipient, node.symbol.name()),)}
            return expand(grammar.rules[node.symbol], depth - 1)
        if isinstance(node, Concatenation):
            cur = {()}
            for sub in node.nodes:
                cur = cat(cur, expand(sub, depth))
            return cur
        if isinstance(node, Alternative):
            out = set()
            for alt in node.alternatives:
                out |= expand(alt, depth)
            return out
        if isinstance(node, Repetition):
            body = expand(node.node, depth)
            out = set()
            cur = {()}
            if node.min == 0:
                out.add(())
            for k in range(1, min(node.max, max_len + 2) + 1):
                cur = cat(cur, body)
                if k >= node.min:
                    out |= cur
            return out
        raise TypeError(type(node).__name__)

    words = expand(grammar.rules[NonTerminal("<start>")], 2 * max_len + 6)
    return words


def follow_and_complete(words, history, max_len):
    """Follow set and completeness of `history` w.r.t. the enumerated words (words longer than max_len are truncated
    witnesses: they are never complete)"""
    n = len(history)
    follow = set()
    complete = False
    for w in words:
        if w[:n] == history:
            if len(w) == n and n <= max_len:
                complete = True
            elif len(w) > n:
                follow.add(w[n])
    return follow, complete


def history_tree(grammar, history):
    from fandango.language.grammar import ParsingMode
    from fandango.language.symbols import NonTerminal
    from fandango.language.tree import DerivationTree
    if not history:
        return [DerivationTree(NonTerminal("<start>"))]
    text = "".join(m[2][1:-1] for m in history)
    trees = list(grammar.parse_forest(text, mode=ParsingMode.INCOMPLETE))
    # several incomplete parses may exist; each is a legitimate way to record the same history
    out = []
    for t in trees:
        got = tuple((m.sender, m.recipient, m.msg.symbol.name()) for m in t.protocol_msgs())
        if got == history:
            out.append(t)
    return out


def predicted(grammar, tree):
    from fandango.io.navigation.packetforecaster import PacketForecaster
    p = PacketForecaster(grammar).predict(tree)
    opts = set()
    for party in p.get_msg_parties():
        fnt = p[party]
        for nt in fnt.get_non_terminals():
            node = fnt[nt].node
            opts.add((node.sender, node.recipient, nt.name()))
    return opts, bool(p.complete_trees)


def run(tier="quick", seed=0, pid="C19"):
    t0 = time.time()
    depth = 4 if tier == "quick" else 6
    evaluations = 0
    distinct = set()
    samples, violations = [], []
    reported = set()
    undecided = []
    for name in SPECS:
        try:
            grammar = load(name)
        except Exception as e:
            undecided.append(f"spec {name} does not load: {type(e).__name__}: {e}")
            continue
        words = msg_language(grammar, depth + 1)
        histories = {()}
        for w in words:
            for k in range(1, min(len(w), depth) + 1):
                histories.add(w[:k])
        for h in sorted(histories, key=lambda x: (len(x), repr(x))):
            want_follow, want_complete = follow_and_complete(words, h, depth + 1)
            trees = history_tree(grammar, h)
            if not trees:
                continue        # the history cannot be recorded as a tree by the real parser: not this property's subject
            for t in trees[:3]:
                evaluations += 1
                distinct.add((name, h))
                try:
                    got_follow, got_complete = predicted(grammar, t)
                except Exception as e:
                    if (name, "crash") not in reported:
                        reported.add((name, "crash"))
                        violations.append({"name": f"bounded:forecast_is_follow_set:{name}", "witness": f"spec={name};kind=predict_raises",
                                           "detail": f"history {h}: predict raised {type(e).__name__}: {e}", "script": replay_script(name, h)})
                    continue
                if got_follow != want_follow and (name, "follow") not in reported:
                    reported.add((name, "follow"))
                    violations.append({"name": f"bounded:forecast_is_follow_set:{name}", "witness": f"spec={name};kind=options_differ_from_follow_set",
                                       "detail": f"history {[m[2] for m in h]}: offered {sorted(m[2] for m in got_follow)}, grammar allows {sorted(m[2] for m in want_follow)}",
                                       "script": replay_script(name, h)})
                if got_complete != want_complete and (name, "complete") not in reported:
                    reported.add((name, "complete"))
                    violations.append({"name": f"bounded:forecast_is_follow_set:{name}", "witness": f"spec={name};kind=completeness_differs",
                                       "detail": f"history {[m[2] for m in h]}: reported complete={got_complete}, is a full interaction={want_complete}",
                                       "script": replay_script(name, h)})
            if len(samples) < 8 and len(h) == 2:
                samples.append({"spec": name, "history": [m[2] for m in h], "follow": sorted(m[2] for m in want_follow), "complete": want_complete})
    # ---- sliced specs -------------------------------------------------------------------------------------------
    for name, (_, slices) in SLICED.items():
        for keep in slices:
            try:
                full, sliced = load_sliced(name, keep)
            except Exception as e:
                undecided.append(f"sliced spec {name}/{keep} does not load: {type(e).__name__}: {e}")
                continue
            full_words = msg_language(full, depth + 6)
            words = set()
            for w in full_words:
                words.add(tuple(m for m in w if m[0] in keep)[: depth + 1])
            histories = {()}
            for w in words:
                for k in range(1, min(len(w), depth) + 1):
                    histories.add(w[:k])
            tag = f"{name}/{'+'.join(keep)}"
            for h in sorted(histories, key=lambda x: (len(x), repr(x))):
                want_follow, want_complete = follow_and_complete(words, h, depth + 1)
                try:
                    trees = history_tree(sliced, h)
                except Exception:
                    trees = []
                for t in trees[:2]:
                    evaluations += 1
                    distinct.add((tag, h))
                    try:
                        got_follow, got_complete = predicted(sliced, t)
                    except Exception as e:
                        if (tag, "crash") not in reported:
                            reported.add((tag, "crash"))
                            violations.append({"name": f"bounded:forecast_is_follow_set:{name}", "witness": f"spec={tag};kind=predict_raises",
                                               "detail": f"sliced to {keep}, history {h}: predict raised {type(e).__name__}: {e}", "script": replay_sliced_script(name, keep, h)})
                        continue
                    if len(h) < depth and got_follow != want_follow and (tag, "follow") not in reported:
                        reported.add((tag, "follow"))
                        violations.append({"name": f"bounded:forecast_is_follow_set:{name}", "witness": f"spec={tag};kind=options_differ_from_follow_set",
                                           "detail": f"sliced to {keep}, history {[m[2] for m in h]}: offered {sorted(m[2] for m in got_follow)}, the sliced protocol allows {sorted(m[2] for m in want_follow)}",
                                           "script": replay_sliced_script(name, keep, h)})
    return {
        "evaluations": evaluations, "distinct_nontrivial": len([d for d in distinct if d[1]]),
        "rule": (f"{len(SPECS)} protocol specs (alternatives, options, * + {{n}} {{n,m}}, nesting, recursion, two parties with recipients) x every "
                 f"message history of length <= {depth} that is a prefix of an interaction, recorded as a tree by an INCOMPLETE parse; "
                 "plus 2 three-party specs sliced to subsets of the senders (`parties=[...]`), forecast on the sliced grammar against the projection "
                 "of the unsliced interactions computed here; distinct = distinct (spec, history); non-trivial = non-empty history"),
        "bound": f"history depth {depth}", "samples": samples, "violations": violations, "undecided": undecided,
        "wall_s": round(time.time() - t0, 1),
    }


def replay_script(name, h):
    root = os.path.dirname(os.path.dirname(os.path.abspath(__file__)))
    return f'''#!/usr/bin/env python3
"""C19 witness: spec {name!r}, history {[m[2] for m in h]!r}.  Exit 1 = reproduced."""
import os, sys
sys.path.insert(0, {root!r})
os.environ.setdefault("VERIF_REPO", "/repo")
from bounded import c19
sys.exit(c19.replay({name!r}, {h!r}))
'''


def replay_sliced_script(name, keep, h):
    root = os.path.dirname(os.path.dirname(os.path.abspath(__file__)))
    return f'''#!/usr/bin/env python3
"""C19 witness: spec {name!r} sliced to {keep!r}, history {[m[2] for m in h]!r}.  Exit 1 = reproduced."""
import os, sys
sys.path.insert(0, {root!r})
os.environ.setdefault("VERIF_REPO", "/repo")
from bounded import c19
sys.exit(c19.replay_sliced({name!r}, {tuple(keep)!r}, {h!r}))
'''


def replay_sliced(name, keep, h):
    full, sliced = load_sliced(name, keep)
    depth = len(h) + 2
    words = set()
    for w in msg_language(full, depth + 8):
        words.add(tuple(m for m in w if m[0] in keep)[: depth + 1])
    want_follow, _ = follow_and_complete(words, tuple(h), depth + 1)
    print("spec (sliced to", keep, "):\n" + SLICED[name][0])
    bad = False
    for t in history_tree(sliced, tuple(h))[:2]:
        got_follow, _ = predicted(sliced, t)
        print("history", [m[2] for m in h], "offered", sorted(m[2] for m in got_follow), "sliced protocol allows", sorted(m[2] for m in want_follow))
        if got_follow != want_follow:
            bad = True
    print("VIOLATION reproduced" if bad else "not reproduced")
    return 1 if bad else 0


def replay(name, h):
    grammar = load(name)
    words = msg_language(grammar, len(h) + 3)
    want_follow, want_complete = follow_and_complete(words, tuple(h), len(h) + 3)
    bad = False
    print("spec:\n" + SPECS[name])
    for t in history_tree(grammar, tuple(h))[:3]:
        got_follow, got_complete = predicted(grammar, t)
        print("history", [m[2] for m in h], "offered", sorted(m[2] for m in got_follow), "follow set", sorted(m[2] for m in want_follow),
              "| complete:", got_complete, "expected", want_complete)
        if got_follow != want_follow or got_complete != want_complete:
            bad = True
    if bad:
        print("VIOLATION reproduced")
        return 1
    print("not reproduced")
    return 0


if __name__ == "__main__":
    import json
    r = run(sys.argv[1] if len(sys.argv) > 1 else "quick")
    for v in r["violations"]:
        print("VIOLATION", v["name"], v["witness"], "--", v["detail"])
    r.pop("violations")
    print(json.dumps(r, indent=1, default=str)[:1500])
