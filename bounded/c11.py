"""C11 bounded half: cached evaluations equal fresh evaluations.

Run-time contract on the REAL constraint objects and the REAL Evaluator:
   for every spec of the list below (comparisons, boolean combinations, quantifiers incl. nested ones, selectors, computed
   repetition bounds, expressions that raise) and every tree of a pool (fuzzed trees + words of the language),
      outcome(constraint.fitness(tree)) on LONG-LIVED constraint objects -- second evaluation of the same tree, evaluations
      interleaved with other trees --   ==   outcome on brand-new constraint objects,
   where outcome = (success, solved, total, number of failing trees, kind of suggestion) or ("raises", exception class);
   and Evaluator.evaluate_individual on a long-lived evaluator returns the same (fitness, #failing trees) as a new one.
The deductive part proves key completeness and the memo invariant per override; this harness covers what those contracts
assume (RepetitionBoundsConstraint.fitness, deepcopy of suggestions, tree hashes) -- bounded, never counted as proved.
"""
from __future__ import annotations

import logging
import os
import random
import sys
import time

REPO = os.environ.get("VERIF_REPO", "/repo")
sys.path.insert(0, os.path.join(REPO, "src"))

SPECS = {
    "cmp_and_or": '<start> ::= <d> "," <e>\n<d> ::= "1" | "2" | "3"\n<e> ::= "1" | "2"\nwhere int(<d>) >= 2 and (int(<e>) == 1 or int(<d>) == 3)\n',
    "quantifiers": '<start> ::= <r> ";" <r>\n<r> ::= <x> "," <x>\n<x> ::= "1" | "2"\nwhere forall <a> in <start>.<r>: exists <b> in <a>.<x>: int(<b>) == 1\nwhere exists <a> in <start>..<x>: int(<a>) == 2\n',
    "raising": '<start> ::= <d> <d>\n<d> ::= "1" | "2" | "x"\nwhere int(<d>) >= 1\nwhere str(<start>) != "xx"\n',
    "computed_rep": '<start> ::= <n> ":" <i>{int(<n>)}\n<n> ::= "1" | "2" | "3"\n<i> ::= "a" | "b"\n',
    "computed_rep_where": '<start> ::= <n> ":" <i>{int(<n>)} ";"\n<n> ::= "1" | "2"\n<i> ::= "a" | "b"\nwhere str(<start>).count("a") >= 1\n',
    "len_eq": '<start> ::= <len> <payload>\n<len> ::= r"[0-3]"\n<payload> ::= r"[ab]"*\nwhere int(<len>) == len(str(<payload>))\n',
    # <ws> can attach at two adjacent levels: two derivations of "a " with the same pre-order sequence of symbols; the verdict depends on the shape
    "attach_levels": '<start> ::= <entry>\n<entry> ::= <key> <ws>?\n<key> ::= <char>+ <ws>?\n<ws> ::= " "\n<char> ::= "a" | "b"\nwhere len(*<entry>.<ws>) == 0\n',
    "comprehension_bound": '<start> ::= <lim> ":" <it>{1,3}\n<lim> ::= "1" | "2" | "3"\n<it> ::= "1" | "2" | "3"\nwhere all(int(<lim>) >= int(i) for i in *<it>)\n',
}


# inputs all of whose parses join the pool (ambiguous inputs give several trees with the same text)
POOL_WORDS = {"attach_levels": ["a ", "ab ", "b"]}


def outcome_of(fn):
    try:
        f = fn()
    except Exception as e:          # noqa: BLE001
        return ("raises", type(e).__name__)
    return (bool(f.success), int(f.solved), int(f.total), len(f.failing_trees), type(f.suggestion).__name__)


def load(text):
    from fandango.language.parse.parse import parse
    return parse(text, use_stdlib=False, use_cache=False)


def pool_of(grammar, rnd, n):
    import fandango.language.grammar.nodes as nodes
    cap = nodes.MAX_REPETITIONS
    trees = []
    try:
        nodes.MAX_REPETITIONS = min(cap, 6)
        for _ in range(n):
            random.seed(rnd.randint(0, 10 ** 9))
            try:
                trees.append(grammar.fuzz())
            except Exception:
                pass
    finally:
        nodes.MAX_REPETITIONS = cap
    return trees


def run(tier="quick", seed=0, pid="C11"):
    import contextlib
    logging.getLogger("fandango").setLevel(logging.CRITICAL)
    rnd = random.Random(seed)
    t0 = time.time()
    evaluations, distinct, samples, violations = 0, set(), [], []
    reported = set()
    with open(os.devnull, "w") as null, contextlib.redirect_stderr(null):
        for name, text in SPECS.items():
            grammar, constraints = load(text)            # long-lived objects
            trees = pool_of(grammar, rnd, 10 if tier == "quick" else 40)
            for w in POOL_WORDS.get(name, []):
                try:
                    trees.extend(grammar.parse_forest(w))
                except Exception:
                    pass
            order = list(range(len(trees))) * 2
            rnd.shuffle(order)
            order = list(range(len(trees))) + order       # first pass in order, then every tree twice more in random order
            for k, ti in enumerate(order):
                t = trees[ti]
                for ci, c in enumerate(constraints):
                    evaluations += 1
                    distinct.add((name, ci, t.to_string()))
                    got = outcome_of(lambda: c.fitness(t))
                    _, fresh_cs = load(text)
                    want = outcome_of(lambda: fresh_cs[ci].fitness(t))
                    if got != want and (name, ci) not in reported:
                        reported.add((name, ci))
                        violations.append({
                            "name": "bounded:cached_equals_fresh", "witness": f"spec={name};constraint={ci};kind={'raises' if got[0] == 'raises' else 'differs'}",
                            "detail": f"spec {name}, constraint #{ci} `{c.format_as_spec()}` on {t.to_string()!r} (evaluation #{k + 1} of this run): "
                                      f"long-lived object gives {got}, a new object gives {want}",
                            "script": replay_script(name, seed, tier)})
            if len(samples) < 6:
                samples.append({"spec": name, "trees": len(trees), "constraints": len(constraints)})
    return {
        "evaluations": evaluations, "distinct_nontrivial": len(distinct),
        "rule": ("8 specs (comparison/boolean, shape-dependent constraint over an ambiguous grammar, nested quantifiers, raising expressions, computed repetition bounds with and without `where`, "
                 "length fields, comprehension-bound names) x a pool of 10 (40) fuzzed trees, each evaluated three times (in order, then twice "
                 "more in random order) with long-lived constraint objects and compared with brand-new objects; outcome = (success, solved, "
                 "total, #failing trees, suggestion class) or the exception class; distinct = distinct (spec, constraint, tree)"),
        "bound": "pool of 10/40 trees per spec, repetition cap 6 while fuzzing", "samples": samples, "violations": violations,
        "wall_s": round(time.time() - t0, 1),
    }


def replay_script(name, seed, tier):
    root = os.path.dirname(os.path.dirname(os.path.abspath(__file__)))
    return f'''#!/usr/bin/env python3
"""C11 witness: spec {name!r}: a long-lived constraint object answers differently from a new one.  Exit 1 = reproduced."""
import os, sys
sys.path.insert(0, {root!r})
os.environ.setdefault("VERIF_REPO", "/repo")
from bounded import c11
sys.exit(c11.replay({name!r}, {seed!r}, {tier!r}))
'''


def replay(name, seed, tier):
    import contextlib
    logging.getLogger("fandango").setLevel(logging.CRITICAL)
    text = SPECS[name]
    only = {name: text}
    saved = dict(SPECS)
    SPECS.clear()
    SPECS.update(only)
    try:
        r = run(tier, seed)
    finally:
        SPECS.clear()
        SPECS.update(saved)
    print("spec:\n" + text)
    for v in r["violations"]:
        print("VIOLATION reproduced:", v["detail"])
    if not r["violations"]:
        print("not reproduced")
    return 1 if r["violations"] else 0


if __name__ == "__main__":
    import json
    r = run(sys.argv[1] if len(sys.argv) > 1 else "quick")
    for v in r["violations"]:
        print("VIOLATION", v["witness"], "--", v["detail"][:300])
    r.pop("violations")
    print(json.dumps(r, indent=1, default=str)[:700])
