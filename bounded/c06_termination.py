"""C06 bounded stand-in: every parse request on a family of small grammars returns or raises within a budget.

Family: start rules built from {<a>*, <a>+, <a>?, <a>{0,2}, <a> <a>, (<a>)* nested, left/right recursion} x
<a> ::= one of {"x", "x"?, "x"*, "" | "x", <b>? with <b> ::= "x"} ; inputs "", "x", "xx", "xy" ; modes: first tree,
whole forest, prefix (INCOMPLETE) mode.  Each call runs in a child process under a wall-clock budget (a step budget is
not available without instrumenting the repository).  A case that exceeds the budget is a termination failure.
"""
from __future__ import annotations

import itertools
import json
import os
import subprocess
import sys
import time
from concurrent.futures import ThreadPoolExecutor

REPO = os.environ.get("VERIF_REPO", "/repo")
SRC = os.path.join(REPO, "src")
ROOT = os.path.dirname(os.path.dirname(os.path.abspath(__file__)))
PY = os.path.join(ROOT, ".venv", "bin", "python")

STARTS = ["<a>*", "<a>+", "<a>?", "<a>{0,2}", "<a> <a>", "(<a>*)*", "(<a>?)+", "<a> <start> | <a>", "<start> <a> | <a>", "(<a> | <c>)*"]
AS = ['"x"', '"x"?', '"x"*', '"" | "x"', "<b>?"]
INPUTS = ["", "x", "xx", "xy"]
MODES = ["first", "forest", "prefix"]

CHILD = r'''
import sys, json
sys.path.insert(0, %(src)r)
from fandango.language.parse.parse import parse
from fandango.language.grammar import ParsingMode
g, _ = parse(%(spec)r, use_stdlib=False, use_cache=False)
mode = %(mode)r
w = %(word)r
if mode == "first":
    r = g.parse(w)
    n = 0 if r is None else 1
elif mode == "forest":
    n = 0
    for t in g.parse_forest(w):
        n += 1
        if n >= 50: break
else:
    n = 0
    for t in g.parse_forest(w, mode=ParsingMode.INCOMPLETE):
        n += 1
        if n >= 50: break
print(json.dumps({"trees": n}))
'''


def spec_of(start: str, a: str) -> str:
    return f"<start> ::= {start}\n<a> ::= {a}\n<b> ::= \"x\"\n<c> ::= \"y\"?\n"


def run_case(case, budget):
    start, a, word, mode = case
    code = CHILD % {"src": SRC, "spec": spec_of(start, a), "mode": mode, "word": word}
    env = dict(os.environ)
    env["PYTHONPATH"] = SRC
    env.pop("FANDANGO_RAISE_ALL_EXCEPTIONS", None)
    t0 = time.time()
    try:
        p = subprocess.run([PY, "-c", code], capture_output=True, text=True, timeout=budget, env=env)
        dt = time.time() - t0
        if p.returncode == 0:
            return case, "returned", dt, p.stdout.strip()[-80:]
        return case, "raised", dt, p.stderr.strip()[-160:]
    except subprocess.TimeoutExpired:
        return case, "timeout", budget, ""


def replay_script(case, budget):
    start, a, word, mode = case
    return f'''#!/usr/bin/env python3
"""C06 witness: parse request does not return within {budget} s.
grammar: <start> ::= {start} ; <a> ::= {a} ; input {word!r} ; mode {mode}.  Exit 1 = reproduced."""
import subprocess, sys, os
code = {CHILD % {"src": SRC, "spec": spec_of(start, a), "mode": mode, "word": word}!r}
try:
    p = subprocess.run([sys.executable, "-c", code], capture_output=True, text=True, timeout={budget})
    print("returned:", p.stdout.strip()[-100:], p.stderr.strip()[-200:])
    sys.exit(0)
except subprocess.TimeoutExpired:
    print("VIOLATION reproduced: no result within {budget} s")
    sys.exit(1)
'''


def run(tier="quick", seed=0, pid="C06"):
    budget = 20 if tier == "quick" else 60
    cases = list(itertools.product(STARTS, AS, INPUTS, MODES))
    if tier == "quick":
        cases = [c for c in cases if c[2] == "xx" and c[3] in ("first", "prefix")]
    results = []
    with ThreadPoolExecutor(max_workers=min(16, os.cpu_count() or 4)) as ex:
        results = list(ex.map(lambda c: run_case(c, budget), cases))
    violations, samples = [], []
    distinct = set()
    for case, status, dt, info in results:
        distinct.add(case)
        if len(samples) < 6:
            samples.append({"start": case[0], "a": case[1], "input": case[2], "mode": case[3], "status": status, "s": round(dt, 2)})
        if status == "timeout":
            wit = f"start={case[0]!r};a={case[1]!r};input={case[2]!r};mode={case[3]}".replace(" ", "")
            violations.append({"name": "bounded:parse_returns_within_budget", "witness": wit,
                               "script": replay_script(case, budget)})
    nontrivial = len([c for c in distinct if c[2] != ""])
    return {
        "evaluations": len(results), "distinct_nontrivial": nontrivial, "exhaustive": True,
        "rule": f"all {len(STARTS)}x{len(AS)} grammars of the family x inputs x modes (quick: input 'xx'; modes first, prefix), "
                f"each parse request in a child process with a {budget} s wall-clock budget; non-trivial = non-empty input; "
                "distinct = distinct (start rule, <a> rule, input, mode)",
        "bound": f"grammar family of {len(STARTS) * len(AS)} specs, inputs up to length 2, budget {budget} s",
        "samples": samples, "violations": violations,
        "timeouts": sum(1 for r in results if r[1] == "timeout"), "raised": sum(1 for r in results if r[1] == "raised"),
    }


if __name__ == "__main__":
    r = run(sys.argv[1] if len(sys.argv) > 1 else "quick")
    for v in r["violations"]:
        print(f"finding: property=C06 obligation={v['name']} witness={v['witness']} — parse request does not return within the budget (unbounded Earley chart: empty-deriving symbol under a repetition; ParseState hash includes children, == does not)")
    r.pop("violations")
    print(json.dumps(r, indent=1)[:1500])
