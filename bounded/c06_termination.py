"""C06 bounded stand-in: every parse request on a family of small grammars returns or raises within a budget.

Family: start rules built from {<a>*, <a>+, <a>?, <a>{0,2}, <a> <a>, (<a>)* nested, left/right recursion} x
<a> ::= one of {"x", "x"?, "x"*, "" | "x", <b>? with <b> ::= "x"} ; inputs "", "x", "xx", "xy" ; modes: first tree,
whole forest, prefix (INCOMPLETE) mode.  Each call runs in a child process under a wall-clock budget (a step budget is
not available without instrumenting the repository).  A case that exceeds the budget is a termination failure.
"""
from __future__ import annotations

import itertools
import json
import os
import subprocess
import sys
import time
from concurrent.futures import ThreadPoolExecutor

REPO = os.environ.get("VERIF_REPO", "/repo")
SRC = os.path.join(REPO, "src")
ROOT = os.path.dirname(os.path.dirname(os.path.abspath(__file__)))
PY = os.path.join(ROOT, ".venv", "bin", "python")

# (start rule, unbounded repetition/right recursion over <a>?, body of an unbounded repetition derives the empty word
#  whatever <a> is?)
START_INFO = [("<a>*", True, False), ("<a>+", True, False), ("<a>?", False, False), ("<a>{0,2}", False, False),
              ("<a> <a>", False, False), ("(<a>*)*", True, True), ("(<a>?)+", True, True), ("<a> <start> | <a>", True, False),
              ("<start> <a> | <a>", False, False), ("(<a> | <c>)*", True, True)]
A_INFO = [('"x"', False), ('"x"?', True), ('"x"*', True), ('"" | "x"', True), ("<b>?", True)]   # (rule, derives the empty word)
STARTS = [s for s, _, _ in START_INFO]
AS = [a for a, _ in A_INFO]


def in_known_class(start: str, a: str) -> bool:
    """class K of the known finding D6: an unbounded repetition (or right recursion) whose body can derive the empty
    word -- decided by this harness's own nullability table, independent of the repository"""
    over_a, always = next((o, al) for s, o, al in START_INFO if s == start)
    nullable = dict(A_INFO)[a]
    return always or (over_a and nullable)


# representatives of class K that are run (and listed in KNOWN_FINDINGS.txt); the other members of K are skipped
K_WITNESSES = [("<a>*", '"x"?', "xx", "first"), ("<a>+", '"x"*', "xx", "first"), ("(<a>?)+", '"x"', "xx", "first"),
               ("(<a>*)*", '"x"', "xx", "first"), ("(<a> | <c>)*", '"x"', "xx", "first"),
               ("<a> <start> | <a>", '"" | "x"', "xx", "first"), ("<a>*", "<b>?", "xx", "prefix"), ("<a>+", '"" | "x"', "x", "forest")]
INPUTS = ["", "x", "xx", "xy"]
MODES = ["first", "forest", "prefix"]

# second family: whole specs that are NOT in class K on this tree (capped `{n,}` over empty-deriving bodies; computed
# repetitions below left / right recursion and `+`); each with its own inputs.  case = ("spec:<name>", "", input, mode)
SPEC_FAMILY = {
    "open_bound_over_option": ('<start> ::= <cell>{2,}\n<cell> ::= "x"?\n', ["xx", "x", "xxx"]),
    "open_bound_over_group": ('<start> ::= "[" (<flag>? <sep>?){1,} "]"\n<flag> ::= "a" | "b"\n<sep> ::= ","\n', ["[a,,b,]", "[a]", "[,]"]),
    "open_bound_plain": ('<start> ::= <a>{2,} "."\n<a> ::= "x"\n', ["xx.", "xxx.", "x."]),
    "computed_left_rec": ('<start> ::= <records>\n<records> ::= <records> ";" <record> | <record>\n<record> ::= <len> <item>{int(<len>)}\n'
                          '<len> ::= "1" | "2"\n<item> ::= "a"\n', ["1a", "2aa", "1a;2aa", "1a;1"]),
    "computed_right_rec": ('<start> ::= <records>\n<records> ::= <record> ";" <records> | <record>\n<record> ::= <len> <item>{int(<len>)}\n'
                           '<len> ::= "1" | "2"\n<item> ::= "a"\n', ["1a", "1a;2aa", "2a"]),
    "computed_plus": ('<start> ::= <record>+\n<record> ::= <len> <item>{int(<len>)} ";"\n<len> ::= "1" | "2"\n<item> ::= "a"\n',
                      ["1a;", "1a;2aa;", "2a;"]),
    "left_rec_plain": ('<start> ::= <e>\n<e> ::= <e> "+" <t> | <t>\n<t> ::= <t> "*" <f> | <f>\n<f> ::= "1" | "(" <e> ")"\n', ["1+1*1", "(1+1)*1", "1+"]),
    "left_rec_empty_tail": ('<start> ::= <line> "!"\n<line> ::= <line> <pad> | "y"\n<pad> ::= " "?\n', ["y!", "y !", "y"]),
    "option_group_bounded": ('<start> ::= (<a>?){0,3} "x"\n<a> ::= "a"\n', ["ax", "x", "aax"]),
    # an unbounded repetition over a REGEX terminal: in prefix mode a regex that has matched nothing yet is a (partial) match
    "star_over_regex": ('<start> ::= "#" <any>*\n<any> ::= r"."\n', ["#", "#ab"]),
    "plus_over_regex_then_literal": ('<start> ::= <d>+ ";"\n<d> ::= r"[0-9]"\n', ["12;", "1"]),
    "ambiguous_concat": ('<start> ::= <s>\n<s> ::= <s> <s> | "a"\n', ["aaaa", "aaaaa"]),
}


# specs whose prefix-mode request is consumed to its end (mode prefix_forest)
# (none: a prefix-mode request answers with a STREAM of partial derivations, which is legitimately unbounded for left-recursive
#  rules -- <e> ::= <e> "+" <t> has partial derivations of every nesting depth for the input "1" -- and the property asks that
#  the request returns, not that the stream is finite; the mode stays available for experiments)
PREFIX_FOREST_SPECS = ()


def is_spec_case(case) -> bool:
    return case[0].startswith("spec:")

CHILD = r'''
import sys, json
sys.path.insert(0, %(src)r)
from fandango.language.parse.parse import parse
from fandango.language.grammar import ParsingMode
g, _ = parse(%(spec)r, use_stdlib=False, use_cache=False)
mode = %(mode)r
w = %(word)r
if mode == "first":
    r = g.parse(w)
    n = 0 if r is None else 1
elif mode == "forest":
    n = 0
    for t in g.parse_forest(w):
        n += 1
        if n >= 50: break
elif mode == "forest_twice":
    # the same whole-forest request twice on the same grammar object (the second one is served from the parser's cache)
    n = 0
    for t in g.parse_forest(w):
        n += 1
        if n >= 400: break
    if n < 400:
        # the forest is finite and was consumed to its end: the same request again has to end as well (no cap here)
        for t in g.parse_forest(w):
            n += 1
elif mode == "prefix_forest":
    # the WHOLE forest of a prefix-mode request (a finite input has finitely many partial derivations)
    n = 0
    for t in g.parse_forest(w, mode=ParsingMode.INCOMPLETE):
        n += 1
else:
    n = 0
    for t in g.parse_forest(w, mode=ParsingMode.INCOMPLETE):
        n += 1
        if n >= 50: break
print(json.dumps({"trees": n}))
'''


def spec_of(start: str, a: str) -> str:
    return f"<start> ::= {start}\n<a> ::= {a}\n<b> ::= \"x\"\n<c> ::= \"y\"?\n"


def text_of(case) -> str:
    return SPEC_FAMILY[case[0][5:]][0] if is_spec_case(case) else spec_of(case[0], case[1])


def run_case(case, budget):
    start, a, word, mode = case
    code = CHILD % {"src": SRC, "spec": text_of(case), "mode": mode, "word": word}
    env = dict(os.environ)
    env["PYTHONPATH"] = SRC
    env.pop("FANDANGO_RAISE_ALL_EXCEPTIONS", None)
    t0 = time.time()
    try:
        p = subprocess.run([PY, "-c", code], capture_output=True, text=True, timeout=budget, env=env)
        dt = time.time() - t0
        if p.returncode == 0:
            return case, "returned", dt, p.stdout.strip()[-80:]
        return case, "raised", dt, p.stderr.strip()[-160:]
    except subprocess.TimeoutExpired:
        return case, "timeout", budget, ""


def witness_of(case) -> str:
    if is_spec_case(case):
        return f"spec={case[0][5:]};input={case[2]!r};mode={case[3]}".replace(" ", "")
    return f"start={case[0]!r};a={case[1]!r};input={case[2]!r};mode={case[3]}".replace(" ", "")


def replay_script(case, budget):
    start, a, word, mode = case
    shown = text_of(case).replace("\n", " ; ")
    return f'''#!/usr/bin/env python3
"""C06 witness: parse request does not return within {budget} s.
grammar: {shown} input {word!r} ; mode {mode}.  Exit 1 = reproduced."""
import subprocess, sys, os
code = {CHILD % {"src": SRC, "spec": text_of(case), "mode": mode, "word": word}!r}
try:
    p = subprocess.run([sys.executable, "-c", code], capture_output=True, text=True, timeout={budget})
    print("returned:", p.stdout.strip()[-100:], p.stderr.strip()[-200:])
    sys.exit(0)
except subprocess.TimeoutExpired:
    print("VIOLATION reproduced: no result within {budget} s")
    sys.exit(1)
'''


def calibrate() -> float:
    """wall-clock time of a parse request that is known to terminate (process start + import + parse)"""
    t0 = time.time()
    run_case(("<a> <a>", '"x"', "xx", "first"), 600)
    return time.time() - t0


def run(tier="quick", seed=0, pid="C06"):
    cal = calibrate()
    budget = max(20 if tier == "quick" else 60, 12 * cal)      # scaled so that a loaded machine raises no alarm
    cases = list(itertools.product(STARTS, AS, INPUTS, MODES))
    if tier == "quick":
        cases = [c for c in cases if c[2] == "xx" and c[3] in ("first", "prefix")]
    skipped = [c for c in cases if in_known_class(c[0], c[1]) and c not in K_WITNESSES]
    cases = [c for c in cases if not in_known_class(c[0], c[1])] + list(K_WITNESSES)
    for name, (_, words) in SPEC_FAMILY.items():
        for w in (words if tier != "quick" else words[:2]):
            for m in (MODES if tier != "quick" else ("first", "forest", "prefix")):
                cases.append(("spec:" + name, "", w, m))
            cases.append(("spec:" + name, "", w, "forest_twice"))
            if name in PREFIX_FOREST_SPECS:
                cases.append(("spec:" + name, "", w, "prefix_forest"))
    results = []
    with ThreadPoolExecutor(max_workers=min(16, os.cpu_count() or 4)) as ex:
        results = list(ex.map(lambda c: run_case(c, budget), cases))
    violations, samples = [], []
    distinct = set()
    for case, status, dt, info in results:
        distinct.add(case)
        if len(samples) < 6:
            samples.append({"start": case[0], "a": case[1], "input": case[2], "mode": case[3], "status": status, "s": round(dt, 2)})
        if status == "timeout":
            wit = witness_of(case)
            violations.append({"name": "bounded:parse_returns_within_budget", "witness": wit,
                               "script": replay_script(case, budget)})
    nontrivial = len([c for c in distinct if c[2] != ""])
    return {
        "evaluations": len(results), "distinct_nontrivial": nontrivial, "exhaustive": True,
        "rule": f"all {len(STARTS)}x{len(AS)} grammars of the family x inputs x modes (quick: input 'xx'; modes first, prefix), plus {len(SPEC_FAMILY)} whole specs "
                "(capped {n,} over empty-deriving bodies, computed repetitions below left/right recursion and +, plain left recursion, an ambiguous rule) x 2-4 inputs x 3 modes, "
                f"each parse request in a child process with a {budget:.0f} s wall-clock budget (12 x calibration run of {cal:.1f} s, at least 20/60 s); "
                "grammars of the known class K (unbounded repetition over an empty-deriving body, decided by the harness's own "
                f"nullability table) are represented by {len(K_WITNESSES)} listed witnesses, the other {len(skipped)} K cases are skipped; "
                "non-trivial = non-empty input; distinct = distinct (start rule, <a> rule, input, mode)",
        "skipped_known_class_cases": len(skipped),
        "bound": f"grammar family of {len(STARTS) * len(AS)} specs, inputs up to length 2, budget {budget:.0f} s",
        "samples": samples, "violations": violations,
        "timeouts": sum(1 for r in results if r[1] == "timeout"), "raised": sum(1 for r in results if r[1] == "raised"),
    }


if __name__ == "__main__":
    if len(sys.argv) > 1 and sys.argv[1] == "witnesses":
        for c in K_WITNESSES:
            print(f"finding: property=C06 obligation=bounded:parse_returns_within_budget witness={witness_of(c)} — parse request does not return (unbounded Earley chart: an unbounded repetition whose body derives the empty word; states that differ only in children are all admitted because ParseState.__hash__ includes children while __eq__ does not)")
        sys.exit(0)
    r = run(sys.argv[1] if len(sys.argv) > 1 else "quick")
    for v in r["violations"]:
        print(f"finding: property=C06 obligation={v['name']} witness={v['witness']} — parse request does not return within the budget (unbounded Earley chart: empty-deriving symbol under a repetition; ParseState hash includes children, == does not)")
    r.pop("violations")
    print(json.dumps(r, indent=1)[:1500])
