from bounded.c04_c05 import run as _run


def run(tier="quick", seed=0, pid="C04"):
    return _run(tier, seed, "C04")
