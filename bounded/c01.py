from bounded.c01_c16 import run_pid


def run(tier="quick", seed=0, pid="C01"):
    return run_pid("C01", tier, seed)
