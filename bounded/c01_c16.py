"""Bounded halves of C01 (every produced tree is a derivation) and C16 (generator fields carry generator output).

Run-time contracts on the real pipeline:
  C01  post(Grammar.fuzz), post(Fandango.fuzz) for every returned tree, post(mutation / crossover / repair steps inside the
       search):  oracle.valid(grammar, tree)   (independent derivation checker over the grammar IR)
  C16  for every node of a generator symbol in every emitted tree: its text is a value the generator can return for the
       argument values recorded in the node's `sources` (the generators of the specs below are known functions, so the
       oracle recomputes them), and the text parses under the symbol's rule (covered by C01's validity).
Specs: the shared family plus search-heavy specs (computed repetitions, equality repairs, generators with one and two
arguments, generators next to constraints), node budgets {1, 5, 50}, population sizes {1, 10}, seeds from VERIF_SEED.
"""
from __future__ import annotations

import os
import random
import sys
import time

from bounded import family
from bounded.c04_c05 import with_budget
from bounded.oracle import valid

SEARCH_SPECS = {
    "computed_rep": '<start> ::= <count> ":" <body>\n<count> ::= r"[1-4]"\n<body> ::= <item>{int(<count>)} <trailer>\n<item> ::= r"[a-e]" ","\n<trailer> ::= r"[A-Z]{3}"\nwhere str(<trailer>) == "END"\n',
    "eq_repair": '<start> ::= <a> "=" <b>\n<a> ::= <d>{2}\n<b> ::= <d>{2}\n<d> ::= r"[0-9]"\nwhere str(<a>) == str(<b>)\n',
    "len_field": '<start> ::= <len> <payload>\n<len> ::= r"[0-9]"\n<payload> ::= r"[a-z]"*\nwhere int(<len>) == len(str(<payload>))\n',
    "bytes_regex_high": '<start> ::= <h> <p>\n<h> ::= b"\\x01"\n<p> ::= rb"[\\x80-\\xff]{1,2}"\n',
    # a computed repetition whose symbol also occurs BEFORE the repetition block, with few distinct values (structurally equal siblings)
    "computed_rep_symbol_before": '<start> ::= <n> <item> ":" <item>{int(<n>)} "."\n<n> ::= r"[2-6]"\n<item> ::= "x" | "y"\n',
    # a repeated GROUP with a lower bound >= 2 (several children per repetition)
    "group_rep_min2": '<start> ::= "[" (<k> "=" <v> ";"){2,4} "]"\n<k> ::= "a" | "b"\n<v> ::= r"[0-9]"\n',
    "nested_quant": '<start> ::= <row> ";" <row>\n<row> ::= <x> "," <x>\n<x> ::= "1" | "2"\nwhere forall <r> in <start>.<row>: str(<r>.<x>) == "1"\n',
}
SEARCH_SPECS.update({
    # computed repetitions over a parenthesised GROUP; the search starts from user-supplied inputs (strings) whose count has to change
    "computed_group_seeded": '<start> ::= <rec>\n<rec> ::= <n> ":" (<k> "=" <v>){int(<n>)}\n<n> ::= "1" | "2" | "3" | "4" | "5"\n<k> ::= "a" | "b" | "c"\n<v> ::= "x" | "y" | "z"\nwhere int(<n>) >= 3\n',
    "computed_symbol_seeded": '<start> ::= <n> ":" <it>{int(<n>)} "."\n<n> ::= "1" | "2" | "3" | "4" | "5"\n<it> ::= "p" | "q"\nwhere int(<n>) >= 3\n',
    # an operator directly inside an operator of the same kind (?, *, +), with an equality whose repair PARSES the other side's text
    "nested_option_eq": '<start> ::= <num> ";" <txt>\n<num> ::= <int> ("." <int> ("e" <int>)?)?\n<int> ::= <d>+\n<d> ::= "1" | "2" | "3"\n<txt> ::= r"[123](\\.[123]{1,2}){1,2}"\nwhere str(<num>) == str(<txt>)\n',
    "nested_star_eq": '<start> ::= <lst> ";" <txt>\n<lst> ::= "[" (<d> ("," <d>)* "|")* "]"\n<d> ::= "1" | "2"\n<txt> ::= r"\\[([12](,[12]){0,2}\\|){0,2}\\]"\nwhere str(<lst>) == str(<txt>)\n',
    "nested_plus_eq": '<start> ::= <lst> ";" <txt>\n<lst> ::= (<d> ("," <d>)+ "|")+\n<d> ::= "1" | "2"\n<txt> ::= r"([12](,[12]){1,2}\\|){1,2}"\nwhere str(<lst>) == str(<txt>)\n',
    # computed repetitions over a bare terminal, and over a group that ENDS in a terminal
    "computed_terminal": '<start> ::= <n> ":" "x"{int(<n>)} "."\n<n> ::= "1" | "2" | "3" | "4"\n',
    "computed_group_trailing_terminal": '<start> ::= <n> ":" (<k> "=" <v> ";"){int(<n>)} "."\n<n> ::= "1" | "2" | "3" | "4"\n<k> ::= "a" | "b"\n<v> ::= "x" | "y"\nwhere int(<n>) >= 3\n',
})
# inputs the search is started from (Fandango.fuzz(initial_population=[...strings...]): parsed, then evolved)
SEEDED = {
    "computed_group_seeded": ["1:a=x", "2:a=xb=y", "2:c=za=y", "1:b=z"],
    "computed_symbol_seeded": ["1:p.", "2:pq.", "2:qq."],
}
# recognisers of the languages whose repetition counts are COMPUTED (the independent derivation checker reads declared static
# bounds only): every emitted text must be accepted
import re as _re


def _counted(pattern, unit):
    rx = _re.compile(pattern)

    def ok(text):
        m = rx.fullmatch(text)
        return bool(m) and len(m.group(2)) == unit * int(m.group(1))
    return ok


WORD_ORACLES = {
    "computed_rep": _counted(r"([1-4]):((?:[a-e],)*)[A-Z]{3}", 2),
    "computed_rep_symbol_before": _counted(r"([2-6])[xy]:([xy]*)\.", 1),
    "computed_group_seeded": _counted(r"([1-5]):((?:[abc]=[xyz])*)", 3),
    "computed_symbol_seeded": _counted(r"([1-5]):([pq]*)\.", 1),
    "computed_terminal": _counted(r"([1-4]):(x*)\.", 1),
    "computed_group_trailing_terminal": _counted(r"([1-4]):((?:[ab]=[xy];)*)\.", 4),
    "nested_option_eq": _re.compile(r"[123]+(\.[123]+(e[123]+)?)?;[123](\.[123]{1,2}){1,2}").fullmatch,
    "nested_star_eq": _re.compile(r"\[([12](,[12])*\|)*\];\[([12](,[12]){0,2}\|){0,2}\]").fullmatch,
    "nested_plus_eq": _re.compile(r"([12](,[12])+\|)+;([12](,[12]){1,2}\|){1,2}").fullmatch,
}
# generator specs: name -> (spec text, symbol -> oracle(list of source texts) -> set of admissible texts or None for "any text matching the rule")
GEN_SPECS = {
    "gen_const": (family.SPECS["gen_const"], {"<a>": lambda src: {"7"}}),
    "gen_dependent": (family.SPECS["gen_dependent"], {"<d>": lambda src: {str(int(src[0]) * 2)}}),
    "gen_nested": (family.SPECS["gen_nested"], {"<outer>": lambda src: {src[0] + "!"}, "<inner>": lambda src: {"a"}}),
    # a generated field computed from another generated field (which has an argument of its own)
    "gen_chain": ('<start> ::= <b> ":" <a> ":" <h>\n<b> ::= r"[1-4]"\n<a> ::= r"[0-9]+" := str(int(<b>) * 2)\n<h> ::= r"[0-9]+" := str(int(<a>) + 1)\n',
                  {"<a>": lambda src: {str(int(src[0]) * 2)}, "<h>": lambda src: {str(int(src[0]) + 1)}}),
    # a generator whose value does not fit the rule for about half of the argument values: producing or re-running it must raise
    "gen_may_not_fit": ('<start> ::= <a> "=" <h>\n<a> ::= r"[0-9]"\n<h> ::= r"[0-5]" := str(int(<a>))\n', {"<h>": lambda src: {str(int(src[0]))}}),
    "gen_choice": ('import random\n<start> ::= <tok> "-" <tok>\n<tok> ::= r"[a-z]{2}" := random.choice(["aa", "bb"])\n', {"<tok>": lambda src: {"aa", "bb"}}),
    "gen_two_args": ('<start> ::= <x> "+" <y> "=" <sum>\n<x> ::= r"[0-9]"\n<y> ::= r"[0-9]"\n<sum> ::= r"[0-9]+" := str(int(<x>) + int(<y>))\n',
                     {"<sum>": lambda src: {str(int(src[0]) + int(src[1]))}}),
    "gen_with_constraint": ('<start> ::= <n> ":" <dbl> ":" <m>\n<n> ::= r"[1-4]"\n<m> ::= r"[1-4]"\n<dbl> ::= r"[0-9]+" := str(int(<n>) * 2)\nwhere int(<m>) == int(<n>) + 1\n',
                            {"<dbl>": lambda src: {str(int(src[0]) * 2)}}),
    "gen_hidden_args": ('def add(a, b):\n    return str(int(str(a)) + int(str(b)))\n\ndef half_lo(t):\n    return str(int(str(t)) // 2)\n\ndef half_hi(t):\n    return str(int(str(t)) - int(str(t)) // 2)\n\n'
                        '<start> ::= "sum=" <total>\n<total> ::= <dg>+ := add(<lhs>, <rhs>)\n<lhs> ::= <dg>+ := half_lo(<total>)\n<rhs> ::= <dg>+ := half_hi(<total>)\n<dg> ::= r"[0-9]"\n'
                        'where int(<lhs>) % 10 == 7\n',
                        {"<total>": lambda src: {str(int(src[0]) + int(src[1]))}}),
    "gen_token_pair": ('import random\n<start> ::= <request> ";" <response>\n<request> ::= "req=" <token>\n<response> ::= "rsp=" <token>\n'
                       '<token> ::= <dg>{2} := random.choice(["11", "22", "33"])\n<dg> ::= r"[0-9]"\n'
                       'where <request>.<token> == <response>.<token>\nwhere str(<request>.<token>).endswith("7")\n',
                       {"<token>": lambda src: {"11", "22", "33"}}),
    # a plain field has to echo a generated one (the generated side is the SOURCE of the equality repair); the generated values
    # have structure (digits) and contain the same sub-structure twice
    "gen_echo": ('import random\n<start> ::= <tag> ";" <body>\n<tag> ::= <number> := random.choice(["847847", "473473", "121121"])\n<body> ::= <number>\n'
                 '<number> ::= <lead> <digit>{0,5}\n<lead> ::= "1" | "2" | "3" | "4" | "5" | "6" | "7" | "8" | "9"\n<digit> ::= "0" | <lead>\n'
                 'where <body>.<number> == <tag>.<number>\nwhere int(<number>) % 7 == 0\n',
                 {"<tag>": lambda src: {"847847", "473473", "121121"}}),
    "gen_token_eq": ('import random\n<start> ::= <t1> "/" <t2>\n<t1> ::= <tok>\n<t2> ::= <tok>\n<tok> ::= r"[0-9]{3}" := random.choice(["111", "222", "333"])\nwhere str(<t1>) == str(<t2>)\n',
                     {"<tok>": lambda src: {"111", "222", "333"}}),
}


MAY_RAISE = {"gen_may_not_fit"}


def text_of(tree):
    """a printable key for a tree (a tree whose bit runs are not byte-aligned has no bytes view)"""
    try:
        return tree.to_string() if not tree.should_be_serialized_to_bytes() else repr(tree.to_bytes())
    except Exception:
        try:
            return "bits:" + str(tree.to_bits())
        except Exception:
            return "tree:" + repr(tree.to_tree())[:200]


def _with_recorded_arguments(tree):
    """the nodes of the tree, and -- transitively -- the argument trees recorded with generated nodes"""
    todo, seen = list(tree.flatten()), set()
    while todo:
        node = todo.pop()
        if id(node) in seen:
            continue
        seen.add(id(node))
        yield node
        for s in node.sources:
            todo.extend(s.flatten())


def check_generators(tree, oracles):
    """C16 contract on one emitted tree (and on the argument trees recorded with it: a nested generated field must stay
    traceable to the values it was computed from)"""
    problems = []
    for node in _with_recorded_arguments(tree):
        sym = node.symbol
        if not getattr(sym, "is_non_terminal", False):
            continue
        name = sym.name()
        if name not in oracles:
            continue
        src = [s.to_string() for s in node.sources]
        try:
            allowed = oracles[name](src)
        except Exception as e:
            problems.append(f"{name}: the recorded sources {src} are not arguments the generator accepts ({type(e).__name__})")
            continue
        text = node.to_string()
        if allowed is not None and text not in allowed:
            problems.append(f"{name} carries {text!r}, but the generator returns {sorted(allowed)} for the recorded arguments {src}")
    return problems


def operator_level(name, text, oracles, rnd, rounds, distinct=None):
    """C16 at operator level: (a) replacing ONE argument of a generator (each position in turn, the recorded source or a
    node of the tree) must re-run the generator; (b) repair followed by mutation must not edit generated text"""
    from fandango.evolution import GeneratorWithReturn
    from fandango.evolution.evaluation import Evaluator
    from fandango.evolution.mutation import SimpleMutation
    from fandango.evolution.population import PopulationManager
    grammar, constraints = _load_text(text)
    n_eval, probs = 0, []
    for k in range(rounds):
        random.seed(rnd.randint(0, 10 ** 9))
        try:
            tree = grammar.fuzz()
        except Exception:          # noqa: BLE001  (a generator value that does not fit its rule: raising is what C16 asks for)
            continue
        gen_nodes = [n for n in tree.flatten() if getattr(n.symbol, "is_non_terminal", False) and n.symbol.name() in oracles and n.sources]
        for gnode in gen_nodes:
            for pos_i, src in enumerate(gnode.sources):
                targets = [src] + [n for n in tree.flatten() if n.symbol == src.symbol and not n.read_only]
                for target in targets[:2]:
                    repl = grammar.fuzz(start=target.symbol)
                    if repl.to_string() == target.to_string():
                        continue
                    try:
                        new_tree = tree.replace(grammar, target, repl)
                    except Exception:
                        continue
                    n_eval += 1
                    if distinct is not None:
                        distinct.add((name, "replace-arg", pos_i, new_tree.to_string()))
                    for p in check_generators(new_tree, oracles):
                        probs.append(("generator_not_rerun_after_argument_replacement", f"after replacing argument #{pos_i} ({src.symbol.name()}): {p}"))
        if constraints:
            try:
                ev = Evaluator(grammar, constraints, 1.0, 5, 1.0)
                run = GeneratorWithReturn(ev.evaluate_individual(tree))
                list(run)
                _f, _failing, suggestion = run.return_value
                repaired, fixes = PopulationManager(grammar, "<start>").fix_individual(tree, suggestion)
            except Exception:
                continue
            for p in check_generators(repaired, oracles):
                probs.append(("repair_edits_generated_text", p))
            for j in range(8 if name != "gen_echo" else 25):
                try:
                    run = GeneratorWithReturn(SimpleMutation().mutate(repaired, grammar, ev.evaluate_individual))
                    list(run)
                    mutant = run.return_value
                except Exception:
                    continue
                n_eval += 1
                if distinct is not None:
                    distinct.add((name, "repair-mutate", mutant.to_string()))
                for p in check_generators(mutant, oracles):
                    probs.append(("mutation_edits_generated_text", p))
    return n_eval, probs


def _default_max_repetitions():
    import fandango.language.grammar.nodes as nodes
    return nodes.MAX_REPETITIONS


_DEFAULT_MAX_REPETITIONS = _default_max_repetitions()      # read at import, before anything ran


def repair_level(name, text, rnd, rounds, distinct=None):
    """C01 at operator level: the constraint-driven repair (fix_individual, incl. insertion / deletion of repetitions of a
    computed repetition) applied to freshly fuzzed trees must return derivations"""
    from fandango.evolution import GeneratorWithReturn
    from fandango.evolution.evaluation import Evaluator
    from fandango.evolution.population import PopulationManager
    from fandango.evolution.algorithm import Fandango as Search
    import fandango.language.grammar.nodes as nodes
    # earlier search runs of this process leave the module global MAX_REPETITIONS raised (the recorded C18 finding); fuzzed
    # trees would then carry hundreds of repetitions and the repair would only ever delete.  Start from the default.
    nodes.MAX_REPETITIONS = _DEFAULT_MAX_REPETITIONS
    grammar, constraints = _load_text(text)
    fan = Search(grammar=grammar, constraints=constraints, random_seed=rnd.randint(0, 10 ** 6))      # adds the repetition-bounds constraints
    n_eval, probs = 0, []
    for k in range(rounds):
        random.seed(rnd.randint(0, 10 ** 9))
        try:
            tree = grammar.fuzz()
            ev = fan.evaluator
            run = GeneratorWithReturn(ev.evaluate_individual(tree))
            list(run)
            _f, _failing, suggestion = run.return_value
            repaired, fixes = fan.population_manager.fix_individual(tree, suggestion)
        except Exception:
            continue
        n_eval += 1
        if distinct is not None:
            distinct.add((name, "repair", tree.to_string(), repaired.to_string()))
        ok, why = valid(grammar, repaired)
        if not ok:
            probs.append(("repair_returns_invalid_tree", f"{tree.to_string()!r} repaired to {repaired.to_string()!r}: {why}"))
    return n_eval, probs


def fandango_of(text, seed):
    from fandango import Fandango
    import fandango.language.grammar.nodes as nodes
    nodes.MAX_REPETITIONS = _DEFAULT_MAX_REPETITIONS        # every search run starts from the default cap (see repair_level)
    return Fandango(text, use_stdlib=False, use_cache=False)


def run_pid(pid, tier, seed):
    rnd = random.Random(seed)
    t0 = time.time()
    evaluations, distinct, samples, found = 0, set(), [], []
    timeouts = 0

    def record(name, kind, detail, text):
        found.append((name, kind, detail, text))

    if pid == "C01":
        # plain grammar fuzzing with node budgets
        for name, text in {**family.SPECS, **SEARCH_SPECS}.items():
            grammar, _ = family.load(name) if name in family.SPECS else _load_text(text)
            for budget in (1, 5, 50):
                for k in range(4 if tier == "quick" else 20):
                    random.seed(rnd.randint(0, 10 ** 9))
                    res, to = with_budget(lambda: grammar.fuzz(max_nodes=budget))
                    if to or res is None:
                        timeouts += to
                        continue
                    evaluations += 1
                    distinct.add((name, text_of(res)))
                    ok, why = valid(grammar, res)
                    if not ok:
                        record(name, "grammar_fuzz_invalid", why, text)
    specs = dict(SEARCH_SPECS) if pid == "C01" else {}
    gens = GEN_SPECS
    if pid == "C01":
        specs.update({k: v for k, v in family.SPECS.items() if k in family.CONSTRAINED_SPECS})
        specs.update({k: v[0] for k, v in gens.items()})
    else:
        specs.update({k: v[0] for k, v in gens.items()})
    for name, text in specs.items():
        for pop in ((1, 10) if tier == "thorough" else (10,)):
            for k in range(2 if tier == "quick" else 6):
                sd = rnd.randint(0, 10 ** 6)

                def go():
                    fan = fandango_of(text, sd)
                    random.seed(sd)
                    extra = {"initial_population": list(SEEDED[name])} if name in SEEDED else {}
                    try:
                        return fan, fan.fuzz(desired_solutions=6, population_size=pop, max_generations=12 if tier == "quick" else 40, random_seed=sd, **extra)
                    except Exception:          # noqa: BLE001
                        if name in MAY_RAISE:      # a generator value that does not fit its rule ends the run with an error: what C16 asks for
                            return fan, []
                        raise

                res, to = with_budget(go, 120)
                if to or res is None:
                    timeouts += 1
                    continue
                fan, sols = res
                for t in sols:
                    evaluations += 1
                    distinct.add((name, text_of(t)))
                    if pid == "C01":
                        ok, why = valid(fan.grammar, t)
                        if not ok:
                            record(name, "search_emits_invalid_tree", why, text)
                        if name in WORD_ORACLES and not WORD_ORACLES[name](t.to_string()):
                            record(name, "search_emits_text_outside_language", f"emitted {t.to_string()!r}: not a word of the spec's language (recogniser written for this spec; computed repetition counts included)", text)
                    else:
                        for p in check_generators(t, gens[name][1]):
                            record(name, "generator_field_not_generator_output", p, text)
                if len(samples) < 8 and sols:
                    samples.append({"spec": name, "population": pop, "solution": sols[0].to_string()[:40]})
    if pid == "C01":
        for name, text in SEARCH_SPECS.items():
            res, to = with_budget(lambda: repair_level(name, text, rnd, 80 if tier == "quick" else 400, distinct), 180)
            if to or res is None:
                timeouts += 1
                continue
            evaluations += res[0]
            for kind, detail in res[1]:
                record(name, kind, detail, text)
    if pid == "C16":
        for name, (text, oracles) in gens.items():
            n_eval, probs = operator_level(name, text, oracles, rnd, 6 if tier == "quick" else 30, distinct)
            evaluations += n_eval
            for kind, detail in probs:
                record(name, kind, detail, text)
    violations, seen = [], set()
    for name, kind, detail, text in found:
        if (name, kind) in seen:
            continue
        seen.add((name, kind))
        violations.append({"name": f"bounded:{'derivation' if pid == 'C01' else 'generator_output'}:{name}", "witness": f"spec={name};kind={kind}",
                           "detail": detail, "script": replay_script(pid, name, text)})
    return {
        "evaluations": evaluations, "distinct_nontrivial": len(distinct),
        "rule": (f"{pid}: grammar.fuzz with node budgets 1/5/50 over the shared family and search-heavy specs, and Fandango.fuzz (population "
                 "10; 1 and 10 thorough; 12/40 generations) over constraint, repair and generator specs; every emitted tree is checked; "
                 "distinct = distinct (spec, serialised tree); all non-trivial"),
        "bound": "seeds from VERIF_SEED; 2 (6 thorough) search runs per spec and population size; 80 (400) repairs of fuzzed trees per search spec", "samples": samples, "violations": violations,
        "search_runs_over_budget_not_judged": timeouts, "wall_s": round(time.time() - t0, 1),
    }


def _load_text(text):
    from fandango.language.parse.parse import parse
    return parse(text, use_stdlib=False, use_cache=False)


def replay_script(pid, name, text):
    root = os.path.dirname(os.path.dirname(os.path.abspath(__file__)))
    return f'''#!/usr/bin/env python3
"""{pid} witness: spec {name!r}.  Runs the search a few times and re-checks every emitted tree.  Exit 1 = reproduced."""
import os, sys
sys.path.insert(0, {root!r})
os.environ.setdefault("VERIF_REPO", "/repo")
sys.path.insert(0, os.path.join(os.environ["VERIF_REPO"], "src"))
from bounded import c01_c16
sys.exit(c01_c16.replay({pid!r}, {name!r}))
'''


def replay(pid, name):
    import random as _r
    text = {**family.SPECS, **SEARCH_SPECS, **{k: v[0] for k, v in GEN_SPECS.items()}}[name]
    print("spec:\n" + text)
    bad = 0
    for sd in range(12):
        fan = fandango_of(text, sd)
        _r.seed(sd)
        extra = {"initial_population": list(SEEDED[name])} if name in SEEDED else {}
        sols = fan.fuzz(desired_solutions=6, population_size=10, max_generations=30, random_seed=sd, **extra)
        for t in sols:
            if pid == "C01":
                ok, why = valid(fan.grammar, t)
                if not ok:
                    print("INVALID", repr(t.to_string()), why)
                    bad += 1
                if name in WORD_ORACLES and not WORD_ORACLES[name](t.to_string()):
                    print("NOT IN THE LANGUAGE (recogniser)", repr(t.to_string()))
                    bad += 1
            else:
                for p in check_generators(t, GEN_SPECS[name][1]):
                    print("GENERATOR", repr(t.to_string()), p)
                    bad += 1
        if pid == "C16":
            _n, probs = operator_level(name, text, GEN_SPECS[name][1], _r.Random(sd), 4)
            for kind, detail in probs[:3]:
                print("GENERATOR", kind, detail)
            bad += len(probs)
        if pid == "C01":
            for b in (1, 5, 50):
                t = fan.grammar.fuzz(max_nodes=b)
                ok, why = valid(fan.grammar, t)
                if not ok:
                    print("INVALID (grammar.fuzz)", why)
                    bad += 1
    print("VIOLATION reproduced" if bad else "not reproduced")
    return 1 if bad else 0


if __name__ == "__main__":
    import json
    r = run_pid(sys.argv[1], sys.argv[2] if len(sys.argv) > 2 else "quick", 0)
    for v in r["violations"]:
        print("VIOLATION", v["name"], v["witness"], "--", v["detail"][:300])
    r.pop("violations")
    print(json.dumps(r, indent=1, default=str)[:1000])
