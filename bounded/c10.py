"""C10 bounded half: model-based check of tree bookkeeping and non-aliasing under operation sequences.

Invariant G, recomputed from scratch after every operation on every tree involved:
   size == 1 + sum of children sizes (recursively);  hash(t) == hash(rebuild(t)) where rebuild constructs a brand-new
   tree from the current structure (symbols, senders/recipients, shape);  t == rebuild(t);  every child's parent link
   points to the node that lists it.
Non-aliasing: operations documented to return new trees (deepcopy, replace, crossover, prefix/split_end with copy) must
leave their inputs unchanged (structure AND node identities), share no node object with them, and editing the result
afterwards must not change the inputs.  Read-only accessors (indexing, slicing, iteration, flatten, find_*, value
conversion, get_path, get_choices_path) must leave structure, sizes, hashes and parent links unchanged.
Space: trees from 4 small specs (one with generators = read-only subtrees), all operation sequences of length <= 2
(3 thorough) from a catalogue of 14 operations, operands chosen by a seeded RNG.
"""
from __future__ import annotations

import itertools
import zlib
import os
import random
import sys
import time

REPO = os.environ.get("VERIF_REPO", "/repo")
sys.path.insert(0, os.path.join(REPO, "src"))

SPECS = {
    "rows": '<start> ::= <r> ";" <r>\n<r> ::= <x> "," <x>\n<x> ::= "1" | "2"\n',
    "rec": '<start> ::= "(" <start> ")" | <d>+\n<d> ::= "0" | "1"\n',
    "gen": '<start> ::= <n> ":" <g> ":" <k>\n<n> ::= "1" | "2"\n<k> ::= <d> <d>\n<d> ::= "a" | "b"\n<g> ::= r"[0-9]+" := str(int(<n>) * 3)\n',
    "gen_const": '<start> ::= <h> <body>\n<h> ::= r"[A-Z]{2}" := "HD"\n<body> ::= <d>{1,3}\n<d> ::= "x" | "y"\n',
    # a computed repetition: freshly fuzzed trees usually carry the wrong number of items, so `repair` inserts / deletes repetitions
    "counted": '<start> ::= <n> ":" <item>{int(<n>)} ";"\n<n> ::= r"[1-4]"\n<item> ::= "a" | "b"\n',
}


def nodes_of(t):
    out = [t]
    for c in t.children:
        out.extend(nodes_of(c))
    for s in t.sources:
        out.extend(nodes_of(s))
    return out


def shape(t):
    """structure used for 'unchanged' comparisons (no hashes, no caches)"""
    return (t.symbol.format_as_spec(), t.sender, t.recipient, t.read_only, tuple(shape(c) for c in t.children), tuple(shape(s) for s in t.sources))


def rebuild(t):
    from fandango.language.tree import DerivationTree
    return DerivationTree(t.symbol, [rebuild(c) for c in t.children], sender=t.sender, recipient=t.recipient,
                          sources=[rebuild(s) for s in t.sources], read_only=t.read_only)


def true_size(t):
    return 1 + sum(true_size(c) for c in t.children)


def check_G(t, where):
    from fandango.language.tree import SliceTree
    problems = []
    for n in nodes_of(t):
        if n.size() != true_size(n):
            problems.append(f"{where}: size() of {n.symbol.format_as_spec()} is {n.size()}, recomputed {true_size(n)}")
            break
    fresh = rebuild(t)
    if hash(t) != hash(fresh):
        problems.append(f"{where}: cached hash differs from the hash of a rebuilt copy")
    elif not (t == fresh):
        problems.append(f"{where}: tree is not equal to a rebuilt copy")
    for n in nodes_of(t):
        if isinstance(n, SliceTree):
            continue
        for c in n.children:
            if c.parent is not n:
                problems.append(f"{where}: child {c.symbol.format_as_spec()} of {n.symbol.format_as_spec()} has a parent link to another node")
                return problems
    return problems


class Snapshot:
    def __init__(self, t):
        self.t = t
        self.shape = shape(t)
        self.ids = [id(n) for n in nodes_of(t)]
        self.parents = [id(n.parent) if n.parent is not None else None for n in nodes_of(t)]
        self.hash = hash(rebuild(t))

    def changed(self):
        if shape(self.t) != self.shape:
            return "structure changed"
        if [id(n) for n in nodes_of(self.t)] != self.ids:
            return "node objects replaced"
        if [id(n.parent) if n.parent is not None else None for n in nodes_of(self.t)] != self.parents:
            return "parent links changed"
        return None


# ---- operations: (name, kind, fn(state, rnd) -> result tree or None) ------------------------------------
# state: dict with 'trees' (list of live trees), 'grammar'

def pick_inner(t, rnd, writable=False):
    cand = [n for n in nodes_of(t) if n.symbol.is_non_terminal and (not writable or not n.read_only)]
    return rnd.choice(cand) if cand else t


def op_deepcopy(st, rnd):
    import copy
    return ("new", copy.deepcopy(st["trees"][0]))


def op_deepcopy_method(st, rnd):
    return ("new", st["trees"][0].deepcopy(copy_parent=False))


def op_partial_copy(st, rnd):
    """a copy without the children (the documented options of DerivationTree.deepcopy): a new, consistent, childless node"""
    t = st["trees"][0]
    cand = [n for n in nodes_of(t) if n.children]
    if not cand:
        return None
    n = rnd.choice(cand)
    return ("new_side", n.deepcopy(copy_children=False, copy_params=False, copy_parent=False))


_SEARCH = {}
_CONSTRAINTS = {}        # id(grammar) -> constraints returned by the spec reader (incl. the repetition-bounds constraints)


def load_spec(text):
    from fandango.language.parse.parse import parse
    grammar, constraints = parse(text, use_stdlib=False, use_cache=False)
    _CONSTRAINTS[id(grammar)] = (grammar, list(constraints))
    return grammar


def search_for(grammar):
    """the search object of a grammar (adds the repetition-bounds constraints of computed repetitions); created BEFORE any tree
    of that grammar is fuzzed, as the search itself does"""
    from fandango.evolution.algorithm import Fandango as Search
    import fandango.language.grammar.nodes as nodes
    if id(grammar) not in _SEARCH:
        cap = nodes.MAX_REPETITIONS
        try:
            cs = _CONSTRAINTS.get(id(grammar), (None, []))[1]
            _SEARCH[id(grammar)] = (grammar, Search(grammar=grammar, constraints=cs, random_seed=0))
        finally:
            nodes.MAX_REPETITIONS = cap
    return _SEARCH[id(grammar)][1]


def op_repair(st, rnd):
    """constraint-driven repair of one individual (fix_individual): a new tree, the input untouched"""
    from fandango.evolution import GeneratorWithReturn
    import fandango.language.grammar.nodes as nodes
    t = st["trees"][0]
    cap = nodes.MAX_REPETITIONS
    try:
        fan = search_for(st["grammar"])
        fan.evaluator._fitness_cache.clear()
        run = GeneratorWithReturn(fan.evaluator.evaluate_individual(t))
        list(run)
        _f, _failing, suggestion = run.return_value
        repaired, _fixes = fan.population_manager.fix_individual(t, suggestion)
    finally:
        nodes.MAX_REPETITIONS = cap
    if repaired is t:
        return ("read", t)           # nothing to repair: the input is handed back, it must be unchanged
    return ("new", repaired)


def op_replace(st, rnd):
    t = st["trees"][0]
    other = st["trees"][-1]
    a = pick_inner(t, rnd, writable=True)
    cands = [n for n in nodes_of(other) if n.symbol == a.symbol]
    if not cands:
        return None
    return ("new", t.replace(st["grammar"], a, rnd.choice(cands)))


def op_crossover(st, rnd):
    from fandango.evolution.crossover import SimpleSubtreeCrossover
    random.seed(rnd.randint(0, 10 ** 6))
    r = SimpleSubtreeCrossover().crossover(st["grammar"], st["trees"][0], st["trees"][-1])
    if r is None:
        return None
    st["extra_new"] = [r[1]]
    return ("new", r[0])


def op_prefix_copy(st, rnd):
    t = st["trees"][0]
    leafs = [n for n in nodes_of(t) if n.parent is not None and n in n.parent.children]
    if not leafs:
        return None
    n = rnd.choice(leafs)
    return ("new_detached", n.prefix(copy_tree=True).get_root())


def op_split_end_copy(st, rnd):
    t = st["trees"][0]
    n = pick_inner(t, rnd)
    return ("new_detached", n.split_end(copy_tree=True).get_root())


def op_add_child(st, rnd):
    from fandango.language.tree import DerivationTree
    from fandango.language.symbols.terminal import Terminal
    t = st["trees"][0]
    n = pick_inner(t, rnd)
    n.add_child(DerivationTree(Terminal("z")))
    return ("edit", t)


def op_set_children(st, rnd):
    t = st["trees"][0]
    n = pick_inner(t, rnd)
    n.set_children(list(n.children[:-1]) if n.children else [])
    return ("edit", t)


def op_set_symbol(st, rnd):
    from fandango.language.symbols.non_terminal import NonTerminal
    t = st["trees"][0]
    n = pick_inner(t, rnd)
    n.symbol = NonTerminal("<renamed>")
    return ("edit", t)


def op_set_sender(st, rnd):
    t = st["trees"][0]
    n = pick_inner(t, rnd)
    n.sender = "P"
    n.recipient = "Q"
    return ("edit", t)


def op_read_index(st, rnd):
    t = st["trees"][0]
    n = pick_inner(t, rnd)
    if n.children:
        _ = n[0]
        _ = n[0:2]
        _ = n[-1:]
        _ = list(iter(n))
    return ("read", t)


def op_read_search(st, rnd):
    t = st["trees"][0]
    n = pick_inner(t, rnd)
    _ = t.flatten(); _ = t.find_all_trees(n.symbol); _ = t.find_direct_trees(n.symbol); _ = n.get_path(); _ = n.get_choices_path()
    _ = t.find_all_nodes(n.symbol); _ = t.get_non_terminal_symbols()
    return ("read", t)


def op_read_value(st, rnd):
    t = st["trees"][0]
    _ = t.to_string(); _ = t.to_bytes(); _ = t.value(); _ = str(t); _ = t.to_bits(); _ = t.to_string()
    return ("read", t)


def op_read_hash_eq(st, rnd):
    t = st["trees"][0]
    _ = hash(t); _ = (t == st["trees"][-1]); _ = t.size(); _ = len(t)
    return ("read", t)


OPS = [("deepcopy", op_deepcopy), ("deepcopy_method", op_deepcopy_method), ("partial_copy", op_partial_copy), ("repair", op_repair),
       ("replace", op_replace), ("crossover", op_crossover),
       ("prefix_copy", op_prefix_copy), ("split_end_copy", op_split_end_copy), ("add_child", op_add_child), ("set_children", op_set_children),
       ("set_symbol", op_set_symbol), ("set_sender", op_set_sender), ("read_index", op_read_index), ("read_search", op_read_search),
       ("read_value", op_read_value), ("read_hash_eq", op_read_hash_eq)]


def run_sequence(spec_name, grammar, seq, seed):
    """returns list of problems"""
    from fandango.language.tree import DerivationTree
    from fandango.language.symbols.terminal import Terminal
    rnd = random.Random(seed)
    random.seed(seed)
    search_for(grammar)
    a = grammar.fuzz()
    b = grammar.fuzz()
    trees = [a, b]
    problems = []
    for t in trees:
        hash(t)          # warm the caches so that stale entries show
    for name, fn in seq:
        st = {"trees": trees, "grammar": grammar}
        snaps = [Snapshot(t) for t in trees]
        try:
            res = fn(st, rnd)
        except Exception as e:
            # an operation may legitimately refuse (e.g. path errors on detached nodes); the inputs must still be consistent
            res = ("raised", None)
        if res is None:
            continue
        kind, out = res
        where = f"after {name}"
        if kind in ("new", "new_detached"):
            news = [out] + st.get("extra_new", [])
            for s in snaps:
                ch = s.changed()
                if ch:
                    problems.append(f"{where}: an input tree was modified ({ch})")
            for nw in news:
                shared = set(map(id, nodes_of(nw))) & set(i for s in snaps for i in s.ids)
                if shared:
                    problems.append(f"{where}: the result shares {len(shared)} node object(s) with an input tree")
                problems.extend(check_G(nw, where + " (result)"))
            # editing the result must not reach the inputs
            tgt = pick_inner(news[0], rnd)
            try:
                tgt.add_child(DerivationTree(Terminal("w")))
            except Exception:
                pass
            for s in snaps:
                ch = s.changed()
                if ch:
                    problems.append(f"{where}: editing the result changed an input tree ({ch})")
                problems.extend(check_G(s.t, where + " (input, after editing the result)"))
            trees = [news[0], trees[-1]]
        elif kind == "new_side":
            for s in snaps:
                ch = s.changed()
                if ch:
                    problems.append(f"{where}: an input tree was modified ({ch})")
            problems.extend(check_G(out, where + " (result)"))
            if out.children:
                problems.append(f"{where}: a copy requested without children has children")
        elif kind == "read":
            for s in snaps:
                ch = s.changed()
                if ch:
                    problems.append(f"{where}: a read-only accessor modified the tree ({ch})")
            for t in trees:
                problems.extend(check_G(t, where))
        else:
            for t in trees:
                problems.extend(check_G(t, where))
        if problems:
            break
    return problems


def all_shapes(max_nodes, labels=("<a>", "<b>")):
    """every ordered tree with at most max_nodes nodes whose nodes carry one of the labels"""
    from functools import lru_cache

    @lru_cache(maxsize=None)
    def forests(n):
        # ordered forests with exactly n nodes
        if n == 0:
            return [()]
        out = []
        for first in range(1, n + 1):
            for t in trees(first):
                for rest in forests(n - first):
                    out.append((t,) + rest)
        return out

    @lru_cache(maxsize=None)
    def trees(n):
        return [(lab, kids) for lab in labels for kids in forests(n - 1)]

    return [t for n in range(1, max_nodes + 1) for t in trees(n)]


def build_shape(sh):
    from fandango.language.symbols.non_terminal import NonTerminal
    from fandango.language.tree import DerivationTree
    lab, kids = sh
    return DerivationTree(NonTerminal(lab), [build_shape(k) for k in kids])


def check_equality_is_structural(tier):
    """two trees are equal exactly when symbols and shape coincide: all pairs of small trees (incl. pairs with the same
    pre-order sequence of symbols but another nesting)"""
    shapes = all_shapes(4 if tier == "quick" else 5)
    trees = [build_shape(s) for s in shapes]
    problems, n = [], 0
    for i, a in enumerate(trees):
        for j in range(i, len(trees)):
            b = trees[j]
            n += 1
            same = shapes[i] == shapes[j]
            eq = (a == b)
            if eq != same:
                problems.append(f"equality: trees {shapes[i]!r} and {shapes[j]!r} compare {'equal' if eq else 'unequal'}")
                return problems, n
            if same and hash(a) != hash(b):
                problems.append(f"equality: equal trees {shapes[i]!r} hash differently")
                return problems, n
    # leaves: terminals of different kinds with the same content are different symbols
    from fandango.language.symbols.non_terminal import NonTerminal
    from fandango.language.symbols.terminal import Terminal
    from fandango.language.tree import DerivationTree
    leaf_values = ["a", b"a", "b", b"b", 1, 0, "1", b"1", b"\x01", "", b""]
    leaf_trees = [DerivationTree(NonTerminal("<s>"), [DerivationTree(Terminal(v))]) for v in leaf_values]
    for i, a in enumerate(leaf_trees):
        for j in range(i, len(leaf_trees)):
            n += 1
            same = (type(leaf_values[i]), leaf_values[i]) == (type(leaf_values[j]), leaf_values[j])
            eq = (a == leaf_trees[j])
            if eq != same:
                problems.append(f"equality: a tree with the leaf {leaf_values[i]!r} and a tree with the leaf {leaf_values[j]!r} compare {'equal' if eq else 'unequal'}")
                return problems, n
    return problems, n


def run(tier="quick", seed=0, pid="C10"):
    from fandango.language.parse.parse import parse
    t0 = time.time()
    depth = 2 if tier == "quick" else 3
    evaluations, distinct, samples, violations = 0, set(), [], []
    reported = set()
    for sname, text in SPECS.items():
        grammar = load_spec(text)
        seqs = list(itertools.product(OPS, repeat=depth))
        if tier == "thorough":
            rnd = random.Random(seed)
            rnd.shuffle(seqs)
            seqs = seqs[:1200]
        for seq in seqs:
            for k in range(2):
                sd = seed * 7919 + k * 31 + zlib.crc32(repr(tuple(n for n, _ in seq)).encode()) % 1000
                evaluations += 1
                distinct.add((sname, tuple(n for n, _ in seq), k))
                try:
                    probs = run_sequence(sname, grammar, seq, sd)
                except Exception as e:
                    probs = []
                for p in probs:
                    kind = p.split(":")[0] + ":" + p.split(":")[1][:60] if ":" in p else p[:60]
                    key = kind
                    if key in reported:
                        continue
                    reported.add(key)
                    violations.append({"name": "bounded:tree_invariant_and_non_aliasing", "witness": f"kind={kind.replace(' ', '_')[:90]}",
                                       "detail": f"spec {sname}, operations {[n for n, _ in seq]}, seed {sd}: {p}",
                                       "script": replay_script(sname, [n for n, _ in seq], sd)})
            if len(samples) < 6 and rndsample(seq):
                samples.append({"spec": sname, "operations": [n for n, _ in seq]})
    eq_probs, eq_n = check_equality_is_structural(tier)
    evaluations += eq_n
    for p in eq_probs:
        violations.append({"name": "bounded:tree_invariant_and_non_aliasing", "witness": "kind=equality_is_not_structural",
                           "detail": p, "script": replay_equality_script(tier)})
    return {
        "evaluations": evaluations, "distinct_nontrivial": len(distinct),
        "rule": ("all pairs of ordered trees with <= 4 (5) nodes over two symbols: equal exactly when shape and symbols coincide; "
                 f"5 specs x all sequences of {depth} operations from a catalogue of {len(OPS)} (thorough: 1200 sampled sequences of 3) x 2 seeds; "
                 "after every operation the invariant is recomputed from scratch and inputs are compared with snapshots; "
                 "distinct = distinct (spec, operation sequence, seed index); all non-trivial (>= 2 operations)"),
        "bound": f"operation sequences of length {depth}; trees from grammar.fuzz()", "samples": samples or [{"spec": "rows", "operations": ["replace", "add_child"]}],
        "violations": violations, "wall_s": round(time.time() - t0, 1),
    }


def rndsample(seq):
    return zlib.crc32(repr(tuple(n for n, _ in seq)).encode()) % 29 == 0


def replay_script(sname, names, sd):
    root = os.path.dirname(os.path.dirname(os.path.abspath(__file__)))
    return f'''#!/usr/bin/env python3
"""C10 witness: spec {sname!r}, operations {names!r}, seed {sd}.  Exit 1 = reproduced."""
import os, sys
sys.path.insert(0, {root!r})
os.environ.setdefault("VERIF_REPO", "/repo")
from bounded import c10
sys.exit(c10.replay({sname!r}, {names!r}, {sd}))
'''


def replay_equality_script(tier):
    root = os.path.dirname(os.path.dirname(os.path.abspath(__file__)))
    return f'''#!/usr/bin/env python3
"""C10 witness: tree equality is not structural.  Exit 1 = reproduced."""
import os, sys
sys.path.insert(0, {root!r})
os.environ.setdefault("VERIF_REPO", "/repo")
from bounded import c10
probs, n = c10.check_equality_is_structural({tier!r})
for p in probs:
    print("VIOLATION reproduced:", p)
sys.exit(1 if probs else 0)
'''


def replay(sname, names, sd):
    grammar = load_spec(SPECS[sname])
    ops = dict(OPS)
    probs = run_sequence(sname, grammar, [(n, ops[n]) for n in names], sd)
    for p in probs:
        print("VIOLATION reproduced:", p)
    if not probs:
        print("not reproduced")
    return 1 if probs else 0


if __name__ == "__main__":
    import json
    r = run(sys.argv[1] if len(sys.argv) > 1 else "quick")
    for v in r["violations"]:
        print("VIOLATION", v["witness"], "--", v["detail"][:300])
    r.pop("violations")
    print(json.dumps(r, indent=1, default=str)[:700])
