"""Independent oracles over the grammar IR (written from the property statements; no code shared with the parser).

  matches(grammar, node, kids)      does the child sequence `kids` spell out one expansion of grammar node `node`?
  valid(grammar, tree)              is `tree` a derivation of its root symbol?  -> (ok, reason)
  language(grammar, start, n)       all words of the language with at most n atoms per word (bits count as atoms)
Terminals: text / bytes literals, single bits (0/1), regexes (instances checked with re.fullmatch).
"""
from __future__ import annotations

import re
from functools import lru_cache

from fandango.language.grammar.nodes.alternative import Alternative
from fandango.language.grammar.nodes.concatenation import Concatenation
from fandango.language.grammar.nodes.non_terminal import NonTerminalNode
from fandango.language.grammar.nodes.repetition import Option, Plus, Repetition, Star
from fandango.language.grammar.nodes.terminal import TerminalNode
from fandango.language.symbols.non_terminal import NonTerminal
from fandango.language.symbols.terminal import Terminal
from fandango.language.tree_value import TreeValueType


def helper_symbol(sym) -> bool:
    return isinstance(sym, NonTerminal) and (sym.name().startswith("<__") or sym.name().startswith("<*"))


def terminal_payload(sym: Terminal):
    """('bit', 0|1) | ('str', text) | ('bytes', b) of a terminal symbol's literal"""
    v = sym.value()
    if v.is_type(TreeValueType.TRAILING_BITS_ONLY):
        return ("bit", v.to_int())
    if v.is_type(TreeValueType.STRING):
        return ("str", str(v))
    return ("bytes", bytes(v))


def leaf_matches(node_sym: Terminal, leaf_sym) -> bool:
    if not isinstance(leaf_sym, Terminal):
        return False
    kind, lit = terminal_payload(node_sym)
    lk, lv = terminal_payload(leaf_sym)
    if node_sym.is_regex:
        if kind == "str":
            if lk == "str":
                return re.fullmatch(lit, lv, re.DOTALL) is not None
            if lk == "bytes":
                # a text regex matched inside a BYTES input is represented by a bytes leaf holding the encoding of the matched text
                for enc in ("utf-8", "latin-1"):
                    try:
                        if re.fullmatch(lit, lv.decode(enc), re.DOTALL) is not None:
                            return True
                    except UnicodeDecodeError:
                        pass
            return False
        if kind == "bytes":
            data = lv if lk == "bytes" else lv.encode("latin-1") if lk == "str" else None
            return data is not None and re.fullmatch(lit, data, re.DOTALL) is not None
        return False
    if (kind, lit) == (lk, lv):
        return True
    # a text literal parsed out of a bytes input is represented by a bytes leaf holding its encoding
    if kind == "str" and lk == "bytes":
        return lv == lit.encode("utf-8") or (all(ord(c) < 256 for c in lit) and lv == lit.encode("latin-1"))
    return False


def rep_bounds(node):
    if getattr(node, "bounds_constraint", None) is not None:
        # a COMPUTED count: the declared bounds depend on the tree; shape only here (the harnesses check the count with
        # recognisers of their specs' languages and with the spec's own repetition-bounds constraints)
        return 0, 10 ** 6
    lo = node.min
    hi = node.max          # open upper bound = the cap in force
    return lo, hi


def ends(grammar, node, kids, i, check_sub):
    """set of positions j such that kids[i:j] is one expansion of `node`"""
    if isinstance(node, TerminalNode):
        if i < len(kids) and not kids[i].children and leaf_matches(node.symbol, kids[i].symbol):
            return {i + 1}
        return set()
    if isinstance(node, NonTerminalNode):
        if i < len(kids) and kids[i].symbol == node.symbol and check_sub(kids[i]):
            return {i + 1}
        return set()
    if isinstance(node, Concatenation):
        cur = {i}
        for sub in node.nodes:
            nxt = set()
            for p in cur:
                nxt |= ends(grammar, sub, kids, p, check_sub)
            cur = nxt
            if not cur:
                break
        return cur
    if isinstance(node, Alternative):
        out = set()
        for alt in node.alternatives:
            out |= ends(grammar, alt, kids, i, check_sub)
        return out
    if isinstance(node, Repetition):      # Star, Plus, Option are Repetitions with fixed bounds
        lo, hi = rep_bounds(node)
        out = set()
        cur = {i}
        if lo == 0:
            out.add(i)
        for k in range(1, hi + 1):
            nxt = set()
            for p in cur:
                for q in ends(grammar, node.node, kids, p, check_sub):
                    if q > p or k <= lo:          # an empty iteration only helps to reach the minimum
                        nxt.add(q)
            if not nxt:
                break
            if k >= lo:
                out |= nxt
            if nxt == cur:
                # only empty iterations are possible from here on
                if k < lo:
                    out |= nxt if lo <= hi else set()
                break
            cur = nxt
        return out
    raise TypeError(f"unknown grammar node {type(node).__name__}")


def valid(grammar, tree, memo=None):
    """-> (True, '') or (False, reason).  A terminal leaf is valid; an inner node must carry a grammar symbol whose rule
    its children spell out."""
    memo = {} if memo is None else memo

    def check(t) -> bool:
        k = id(t)
        if k in memo:
            return memo[k][0]
        memo[k] = (True, "")       # (co-inductive guard; trees are finite)
        sym = t.symbol
        if isinstance(sym, Terminal):
            res = (not t.children, "terminal with children")
        elif helper_symbol(sym):
            res = (False, f"internal helper symbol {sym.name()} in a handed-out tree")
        elif sym not in grammar.rules:
            res = (False, f"symbol {sym.name()} has no rule")
        else:
            node = grammar.rules[sym]
            kids = list(t.children)
            e = ends(grammar, node, kids, 0, check)
            if len(kids) in e:
                res = (True, "")
            else:
                res = (False, f"children of {sym.name()} [{' '.join(c.symbol.format_as_spec() for c in kids)}] are not an expansion of {node.format_as_spec()}")
        memo[k] = res
        return res[0]

    ok = check(tree)
    if ok:
        return True, ""
    bad = [r for r in memo.values() if not r[0]]
    return False, bad[0][1] if bad else "invalid"


def serialise(tree):
    """the tree's own serialisation in its natural type"""
    if tree.should_be_serialized_to_bytes():
        return tree.to_bytes()
    return tree.to_string()


# ---------------------------------------------------------------------------------------------------
# bounded language enumeration (independent of the fuzzer): words as tuples of atoms

def regex_instances(pattern, alphabet, max_len, is_bytes):
    out = []
    def rec(prefix):
        s = bytes(prefix) if is_bytes else "".join(prefix)
        if re.fullmatch(pattern, s, re.DOTALL) is not None:
            out.append(s)
        if len(prefix) < max_len:
            for a in alphabet:
                rec(prefix + [a])
    rec([])
    return out


def language(grammar, start="<start>", max_atoms=6, regex_alphabet="ab01", regex_max_len=2, depth=12):
    """set of words (each a tuple of atoms: ('s', str) | ('b', bytes) | ('bit', 0|1)) derivable with at most max_atoms atoms"""
    start = NonTerminal(start) if isinstance(start, str) else start

    def cat(A, B):
        out = set()
        for a in A:
            for b in B:
                if len(a) + len(b) <= max_atoms:
                    out.add(a + b)
        return out

    def expand(node, d):
        if d <= 0:
            return set()
        if isinstance(node, TerminalNode):
            kind, lit = terminal_payload(node.symbol)
            if node.symbol.is_regex:
                if kind == "bytes":
                    inst = regex_instances(lit, [ord(c) for c in regex_alphabet] + [0xFF], regex_max_len, True)
                    return {(("b", x),) if x else () for x in inst}
                inst = regex_instances(lit, list(regex_alphabet), regex_max_len, False)
                return {(("s", x),) if x else () for x in inst}
            if kind == "bit":
                return {(("bit", lit),)}
            if kind == "str":
                return {(("s", lit),)} if lit != "" else {()}
            return {(("b", lit),)} if lit != b"" else {()}
        if isinstance(node, NonTerminalNode):
            return expand(grammar.rules[node.symbol], d - 1)
        if isinstance(node, Concatenation):
            cur = {()}
            for sub in node.nodes:
                cur = cat(cur, expand(sub, d))
                if not cur:
                    break
            return cur
        if isinstance(node, Alternative):
            out = set()
            for alt in node.alternatives:
                out |= expand(alt, d)
            return out
        if isinstance(node, Repetition):
            lo, hi = rep_bounds(node)
            body = expand(node.node, d)
            out = set()
            cur = {()}
            if lo == 0:
                out.add(())
            for k in range(1, hi + 1):
                cur = cat(cur, body)
                if not cur:
                    break
                if k >= lo:
                    before = len(out)
                    out |= cur
                    if len(out) == before and k > lo + max_atoms:
                        break
            return out
        raise TypeError(type(node).__name__)

    return expand(grammar.rules[start], depth)


def word_value(word):
    """serialise an atom tuple the way a tree with these leaves would be serialised: ('str', s) | ('bytes', b) | None"""
    has_bin = any(k in ("b", "bit") for k, _ in word)
    if not has_bin:
        return "str", "".join(v for _, v in word)
    out = bytearray()
    bits = []
    for k, v in word:
        if k == "bit":
            bits.append(v)
            continue
        if bits:
            if len(bits) % 8:
                return None, None          # not byte aligned: no serialisation
            for q in range(0, len(bits), 8):
                out.append(int("".join(map(str, bits[q:q + 8])), 2))
            bits = []
        out += v.encode("utf-8") if k == "s" else v
    if bits:
        if len(bits) % 8:
            return None, None
        for q in range(0, len(bits), 8):
            out.append(int("".join(map(str, bits[q:q + 8])), 2))
    return "bytes", bytes(out)
