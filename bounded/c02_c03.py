"""C02 / C03 bounded half (run-time contracts on the real Evaluator; never counted as proved).

The deductive part proves the two directions on `Evaluator._evaluate_constraints` / `evaluate_individual` through loop
contracts that are tied to the shape of the accumulation loop.  A refactoring of that loop makes those obligations
*undecided* (exit 2), not violated.  This harness decides the same two clauses by running the real functions, so that such
a change is still reported with a failing input:

  A  `_evaluate_constraints(tree, cs)` over EVERY list cs of at most N stub constraints whose `fitness()` is one of
     {satisfied (solved == total == k), unsatisfied (solved < total), raises}:
         result == 1.0   <=>   no stub raises and every stub is satisfied                  (C02: =>,  C03: <=)
         0.0 <= result <= 1.0
  B  `evaluate_individual(tree)` of an Evaluator built by the real spec reader from 2..3 hard constraints, for ALL words
     of two small grammars, against the reference evaluator of bounded/c07.py (written from the documentation):
         the tree is yielded   <=>   every hard constraint holds on it (a raising sub-expression fails its constraint)
The evaluator objects are reused across trees, so memoised paths are exercised.  FANDANGO_RAISE_ALL_EXCEPTIONS is unset
by ./check (the suite sets it; users do not).
"""
from __future__ import annotations

import itertools
import logging
import os
import sys
import time

REPO = os.environ.get("VERIF_REPO", "/repo")
sys.path.insert(0, os.path.join(REPO, "src"))

from bounded import c07  # noqa: E402


class Stub:
    """a constraint whose fitness is fixed; only what `_evaluate_constraints` calls is provided"""

    def __init__(self, kind, total):
        self.kind, self.total = kind, total

    def fitness(self, tree, scope=None, population=None, local_variables=None):
        from fandango.constraints.fitness import ConstraintFitness
        from fandango.language.tree import DerivationTree  # noqa: F401
        from fandango.constraints.failing_tree import NopSuggestion
        if self.kind == "raise":
            raise ValueError("stub constraint raises")
        solved = self.total if self.kind == "sat" else self.total - 1
        return ConstraintFitness(solved, self.total, self.kind == "sat", NopSuggestion(), [])

    def format_as_spec(self):
        return f"<stub {self.kind}/{self.total}>"

    def __repr__(self):
        return f"{self.kind}/{self.total}"


def _nop_suggestion_import_ok():
    try:
        from fandango.constraints.failing_tree import NopSuggestion  # noqa: F401
        return True
    except Exception:
        return False


def mk_evaluator(grammar, constraints):
    from fandango.evolution.evaluation import Evaluator
    return Evaluator(grammar, list(constraints), 1.0, 0, 0.0)


def part_a(pid, tier):
    from fandango.language.parse.parse import parse
    g, _ = parse(c07.GRAMMAR_ROWS, use_stdlib=False, use_cache=False)
    tree = g.parse("1,2;3,1")
    ev = mk_evaluator(g, [])
    n_max = 4 if tier == "quick" else 6
    kinds = [("sat", 1), ("sat", 3), ("unsat", 1), ("unsat", 4), ("raise", 1)]
    evaluations, bad = 0, []
    seen = set()
    for n in range(0, n_max + 1):
        for combo in itertools.product(kinds, repeat=n):
            stubs = [Stub(k, t) for k, t in combo]
            evaluations += 1
            try:
                res = ev._evaluate_constraints(tree, stubs)
                f = res[0]
            except Exception as e:      # the function itself must not raise (C02: a raising constraint counts as unsatisfied)
                f = f"raises {type(e).__name__}: {e}"
            want_one = all(k == "sat" for k, _ in combo)
            kind = None
            if isinstance(f, str):
                kind = "evaluation_raises"
            elif (f == 1.0) and not want_one:
                kind = "unsatisfied_or_raising_constraint_scores_1.0"
            elif (f != 1.0) and want_one:
                kind = "all_satisfied_scores_below_1.0"
            elif not (0.0 <= f <= 1.0):
                kind = "fitness_outside_unit_interval"
            relevant = (kind is not None) and ((pid == "C02") == (kind != "all_satisfied_scores_below_1.0"))
            if relevant and kind not in seen:
                seen.add(kind)
                bad.append((kind, [list(c) for c in combo], f))
    return evaluations, bad


PROGRAM_SETS = [
    ("rows", ["int(<x>) >= 2", "str(<r>) != '2,2'"]),
    ("rows", ["int(<r>.<x>) <= 2", "len(*<start>.<r>) == 2", "exists <e> in <start>.<r>: str(<e>) == '1,2'"]),
    ("rows", ["forall <e> in <start>.<r>: int(<e>.<x>) <= 2", "sum(int(e) for e in *<r>..<x>) >= 6"]),
    ("list", ["int(<d>) >= 1", "len(*<start>.<item>) <= 2"]),                               # first one raises on 'x'
    ("list", ["len(*<start>.<item>) <= 2", "int(<d>) == 1", "len(*<item>..<d>) >= 2"]),     # middle one raises on 'x'
    ("list", ["exists <e> in <start>..<d>: int(<e>) == 2", "int(<item>.<d>) <= 1"]),
    ("list", ["int(<d>) in (1, 2)"]),                                                        # expression constraint, raises for SOME matches
    ("list", ["12 % int(<d>) == 0 or False", "len(*<start>.<item>) <= 2"]),
]

# (C) end-to-end: specs run through the real search; every emitted OUTPUT STRING is judged by a string-level oracle that shares
# nothing with the search (computed repetition count, `where` constraint)
def _two_records_ok(o):
    import re
    m = re.fullmatch(r"([0-9]):([abc]*);([0-9]):([abc]*);\.", o)
    return bool(m) and len(m.group(2)) == int(m.group(1)) and len(m.group(4)) == int(m.group(3)) and int(m.group(1)) + int(m.group(3)) == 7


SEARCH_CASES = {
    "counted_items": ('<start> ::= <n> ":" <item>{int(<n>)} ";"\n<n> ::= "1" | "2" | "3" | "4" | "5"\n<item> ::= <c> <c>\n<c> ::= "a" | "b" | "c" | "d"\n'
                      'where str(<start>).count("a") >= 3\n',
                      lambda o: o.endswith(";") and ":" in o and len(o.split(":", 1)[1][:-1]) == 2 * int(o.split(":", 1)[0]) and o.count("a") >= 3),
    "fields_divide": ('def divides12(f):\n    return 12 % int(str(f)) == 0\n\n<start> ::= <f> "," <f> "," <f>\n<f> ::= "0" | "2" | "3" | "4" | "5"\nwhere divides12(<f>)\n',
                      lambda o: all(x != "0" and 12 % int(x) == 0 for x in o.split(","))),
    # TWO records with a computed count each, tied by a constraint over both counts (crossover moves item runs between records)
    "two_counted_records_sum": ('<start> ::= <rec>{2} "."\n<rec> ::= <n> ":" <item>{int(<n>)} ";"\n<n> ::= <dg>\n<dg> ::= "0" | "1" | "2" | "3" | "4" | "5" | "6" | "7" | "8" | "9"\n'
                                '<item> ::= "a" | "b" | "c"\nwhere sum(int(str(x)) for x in *<n>) == 7\n',
                                lambda o: _two_records_ok(o)),
    # plain expressions whose value is a match object or None (None is falsy: no match = not satisfied)
    "expression_returning_none": ('import re\n<start> ::= <w> "=" <v>\n<w> ::= r"[a-cx-z]{2}"\n<v> ::= r"[0-9]{2}"\n'
                                  'where re.search(r"^[abc]", str(<w>))\nwhere re.fullmatch(r"[1-9][0-9]", str(<v>))\n',
                                  lambda o: o[0] in "abc" and o.split("=")[1][0] != "0"),
    "len_prefixed": ('<start> ::= <len> <payload>\n<len> ::= r"[0-9]"\n<payload> ::= r"[a-z]"*\nwhere int(<len>) == len(str(<payload>))\nwhere str(<payload>).count("z") >= 1\n',
                     lambda o: o[0].isdigit() and int(o[0]) == len(o) - 1 and o.count("z") >= 1),
}


# (D, C03) inputs that satisfy a spec with a COMPUTED REPETITION -- including inputs in which that repetition does not occur at
# all (untaken alternative) -- must be accepted by the real evaluator of the search (string-level oracle)
ACCEPT_CASES = {
    "records_or_short": ('<start> ::= "s" <d> | <n> ":" <i>{int(<n>)}\n<d> ::= "0" | "7"\n<n> ::= "1" | "2" | "3"\n<i> ::= "a" | "b"\n',
                         ["s7", "s0", "1:a", "2:ab", "3:aba", "2:a", "1:ab"],
                         lambda o: o in ("s7", "s0") or (o[0] in "123" and o[1] == ":" and len(o) - 2 == int(o[0]))),
    "counted_with_where": ('<start> ::= <n> ":" <i>{int(<n>)} ";"\n<n> ::= "1" | "2"\n<i> ::= "a" | "b"\nwhere str(<start>).count("a") >= 1\n',
                           ["1:a;", "2:ab;", "2:bb;", "1:b;", "2:a;"],
                           lambda o: len(o) - 3 == int(o[0]) and o.count("a") >= 1),
}


def part_d(pid, tier):
    from fandango.evolution.algorithm import Fandango as Search
    from fandango.language.parse.parse import parse
    evaluations, distinct, bad = 0, set(), []
    for name, (text, inputs, oracle) in ACCEPT_CASES.items():
        grammar, constraints = parse(text, use_stdlib=False, use_cache=False)
        fan = Search(grammar=grammar, constraints=constraints, random_seed=0)
        for w in inputs:
            t = grammar.parse(w)
            if t is None:
                continue
            want = bool(oracle(w))
            evaluations += 1
            distinct.add((name, w))
            gen = fan.evaluator.evaluate_individual(t)
            out = []
            try:
                while True:
                    out.append(next(gen))
            except StopIteration as stop:
                fit = stop.value[0]
            except Exception as e:          # noqa: BLE001
                out, fit = [], f"raises {type(e).__name__}"
            got = bool(out)
            kind = None
            if want and not got:
                kind = "satisfying_input_is_not_accepted"
            elif got and not want:
                kind = "violating_input_is_accepted"
            relevant = kind is not None and ((pid == "C03") == (kind == "satisfying_input_is_not_accepted"))
            if relevant:
                bad.append((name, w, kind, fit))
                break
    return evaluations, distinct, bad


def part_c(pid, tier, seed):
    if pid != "C02":
        return 0, set(), []
    import random
    from fandango import Fandango
    from bounded.c04_c05 import with_budget
    try:
        import fandango.language.grammar.nodes as nodes
        default_cap = nodes.MAX_REPETITIONS
    except Exception:
        nodes, default_cap = None, None
    rnd = random.Random(seed)
    evaluations, distinct, bad = 0, set(), []
    seen = set()
    for name, (text, oracle) in SEARCH_CASES.items():
        for k in range(2 if tier == "quick" else 8):
            sd = rnd.randint(0, 10 ** 6)

            def go():
                if nodes is not None:
                    nodes.MAX_REPETITIONS = default_cap       # earlier runs of this process leave the module global raised (C18 finding)
                fan = Fandango(text, use_stdlib=False, use_cache=False, logging_level=logging.CRITICAL)
                return [str(t) for t in fan.fuzz(desired_solutions=30, max_generations=12, population_size=20, random_seed=sd)]

            outs, to = with_budget(go, 180)
            if to or outs is None:
                continue
            for o in outs:
                evaluations += 1
                distinct.add((name, o))
                try:
                    ok = bool(oracle(o))
                except Exception:
                    ok = False
                if not ok and name not in seen:
                    seen.add(name)
                    bad.append((name, text, sd, o))
    return evaluations, distinct, bad



def all_refs():
    """reference evaluators: those of bounded/c07 plus the ones only used here"""
    R = lambda t: c07.all_nodes(t, "<r>")          # noqa: E731
    refs = dict(c07.P_rows() + c07.P_list())
    refs["str(<r>) != '2,2'"] = lambda t: c07.truthy_all([(m,) for m in R(t)], lambda m: str(m) != "2,2")
    return refs


def part_b(pid, tier):
    from fandango.language.parse.parse import parse
    refs = {"rows": all_refs(), "list": all_refs()}
    gtexts = {"rows": c07.GRAMMAR_ROWS, "list": c07.GRAMMAR_LIST}
    evaluations, distinct, bad, samples, undecided = 0, set(), [], [], []
    seen = set()
    for gname, progs in PROGRAM_SETS:
        gtext = gtexts[gname]
        ws = c07.words(gtext, 81 if tier == "quick" else 400)
        if tier == "quick":
            ws = ws[:: max(1, len(ws) // 40)]
        try:
            g, cs = parse(gtext + "".join(f"where {p}\n" for p in progs), use_stdlib=False, use_cache=False)
        except Exception as e:
            undecided.append(f"spec reader rejects {progs!r}: {type(e).__name__}")
            continue
        ev = mk_evaluator(g, cs)
        for w in ws:
            t = g.parse(w)
            if t is None:
                continue
            want = all(bool(refs[gname][p](t)) for p in progs)
            evaluations += 1
            distinct.add((tuple(progs), w))
            try:
                gen = ev.evaluate_individual(t)
                yielded = []
                try:
                    while True:
                        yielded.append(next(gen))
                except StopIteration as stop:
                    fit = stop.value[0]
                got = len(yielded) > 0
            except Exception as e:
                got, fit = f"raises {type(e).__name__}: {e}", None
            kind = None
            if isinstance(got, str):
                kind = "evaluation_raises"
            elif got and not want:
                kind = "tree_violating_a_hard_constraint_is_emitted"
            elif want and not got:
                kind = "satisfying_tree_is_not_emitted"
            relevant = kind is not None and ((pid == "C02") == (kind != "satisfying_tree_is_not_emitted"))
            if relevant and (tuple(progs), kind) not in seen:
                seen.add((tuple(progs), kind))
                bad.append((kind, gname, progs, w, fit))
        if len(samples) < 6:
            samples.append({"grammar": gname, "constraints": progs, "trees": len(ws)})
    return evaluations, distinct, bad, samples, undecided


def run(tier="quick", seed=0, pid="C02"):
    import contextlib
    logging.getLogger("fandango").setLevel(logging.CRITICAL)
    t0 = time.time()
    with open(os.devnull, "w") as null, contextlib.redirect_stderr(null):     # swallowed exceptions are printed to stderr by the repo
        ea, bad_a = part_a(pid, tier)
        eb, distinct, bad_b, samples, undecided = part_b(pid, tier)
        ec, distinct_c, bad_c = part_c(pid, tier, seed)
        ed, distinct_d, bad_d = part_d(pid, tier)
    violations = []
    for kind, combo, f in bad_a:
        violations.append({
            "name": "bounded:class_fitness_one_iff_all_satisfied", "witness": f"stubs;kind={kind}",
            "detail": f"_evaluate_constraints over stub constraints {combo!r} returned {f!r}",
            "script": replay_script("a", pid, combo)})
    for kind, gname, progs, w, fit in bad_b:
        violations.append({
            "name": "bounded:emitted_iff_all_hard_constraints_hold", "witness": f"constraints={'&'.join(p.replace(' ', '') for p in progs)};kind={kind}",
            "detail": f"{kind}: constraints {progs!r} on input {w!r} (fitness {fit!r})",
            "script": replay_script("b", pid, [gname, progs, w])})
    for name, text, sd, o in bad_c:
        violations.append({
            "name": "bounded:emitted_output_satisfies_spec", "witness": f"search={name};kind=emitted_output_violates_the_spec",
            "detail": f"search case {name}, seed {sd}: emitted output {o!r} violates the spec (string-level oracle)",
            "script": replay_script("c", pid, [name, sd])})
    for name, w, kind, fit in bad_d:
        violations.append({
            "name": "bounded:accepted_iff_input_satisfies_spec", "witness": f"case={name};kind={kind}",
            "detail": f"{kind}: spec {name}, input {w!r} (fitness {fit!r})",
            "script": replay_script("d", pid, [name, w])})
    return {
        "evaluations": ea + eb + ec + ed, "distinct_nontrivial": (ea - 1) + len(distinct) + len(distinct_c) + len(distinct_d),
        "rule": (f"{pid}: (A) every list of up to {4 if tier == 'quick' else 6} stub constraints from 5 behaviours (satisfied 1/1, 3/3; unsatisfied 0/1, 3/4; "
                 "raising) through the real Evaluator._evaluate_constraints; (B) 6 sets of 2-3 hard constraints x the words of two small "
                 "grammars through the real spec reader and Evaluator.evaluate_individual against the reference evaluator of bounded/c07; "
                 "(C, C02 only) 3 specs (computed repetition + where, helper that raises for one value, length prefix) through the real "
                 "Fandango.fuzz, 2 (8) seeds x 30 solutions, every emitted output judged by a string-level oracle; "
                 "(D) inputs of two specs with computed repetitions (incl. inputs in which the repetition does not occur) through the search's "
                 "own evaluator, accepted iff a string-level oracle says they satisfy the spec; "
                 "distinct = distinct non-empty stub lists + distinct (constraint set, word) + distinct (search case, output) + distinct (case, input)"),
        "bound": "lists of at most 4 (6 thorough) stubs; two grammars, words up to 9 atoms", "samples": samples,
        "violations": violations, "undecided": undecided, "wall_s": round(time.time() - t0, 1),
    }


def replay_script(part, pid, data):
    root = os.path.dirname(os.path.dirname(os.path.abspath(__file__)))
    return f'''#!/usr/bin/env python3
"""{pid} witness (bounded/c02_c03 part {part}): {data!r}.  Exit 1 = reproduced."""
import os, sys
sys.path.insert(0, {root!r})
os.environ.setdefault("VERIF_REPO", "/repo")
os.environ.pop("FANDANGO_RAISE_ALL_EXCEPTIONS", None)
from bounded import c02_c03
sys.exit(c02_c03.replay({part!r}, {pid!r}, {data!r}))
'''


def replay(part, pid, data):
    import logging
    logging.getLogger("fandango").setLevel(logging.CRITICAL)
    from fandango.language.parse.parse import parse
    if part == "a":
        g, _ = parse(c07.GRAMMAR_ROWS, use_stdlib=False, use_cache=False)
        tree = g.parse("1,2;3,1")
        stubs = [Stub(k, t) for k, t in data]
        try:
            f = mk_evaluator(g, [])._evaluate_constraints(tree, stubs)[0]
        except Exception as e:
            print(f"_evaluate_constraints raises {type(e).__name__}: {e}")
            print("VIOLATION reproduced")
            return 1
        want_one = all(k == "sat" for k, _ in data)
        print(f"stub constraints {stubs!r}: class fitness {f!r}; 1.0 expected: {want_one}")
        if (f == 1.0) != want_one or not (0.0 <= f <= 1.0):
            print("VIOLATION reproduced")
            return 1
        print("not reproduced")
        return 0
    if part == "d":
        name, w = data
        saved = dict(ACCEPT_CASES)
        ACCEPT_CASES.clear()
        ACCEPT_CASES[name] = (saved[name][0], [w], saved[name][2])
        try:
            _, _, bad = part_d(pid, "quick")
        finally:
            ACCEPT_CASES.clear()
            ACCEPT_CASES.update(saved)
        print("spec:\n" + saved[name][0])
        for b in bad:
            print("VIOLATION reproduced:", b)
        if not bad:
            print("not reproduced")
        return 1 if bad else 0
    if part == "c":
        name, sd = data
        text, oracle = SEARCH_CASES[name]
        from fandango import Fandango
        fan = Fandango(text, use_stdlib=False, use_cache=False, logging_level=logging.CRITICAL)
        outs = [str(t) for t in fan.fuzz(desired_solutions=30, max_generations=12, population_size=20, random_seed=sd)]
        bad = []
        for o in outs:
            try:
                ok = bool(oracle(o))
            except Exception:
                ok = False
            if not ok:
                bad.append(o)
        print("spec:\n" + text)
        print(f"{len(outs)} emitted outputs, violating the spec: {bad[:8]}")
        if bad:
            print("VIOLATION reproduced")
            return 1
        print("not reproduced")
        return 0
    gname, progs, w = data
    gtext = {"rows": c07.GRAMMAR_ROWS, "list": c07.GRAMMAR_LIST}[gname]
    refs = all_refs()
    g, cs = parse(gtext + "".join(f"where {p}\n" for p in progs), use_stdlib=False, use_cache=False)
    t = g.parse(w)
    want = all(bool(refs[p](t)) for p in progs)
    gen = mk_evaluator(g, cs).evaluate_individual(t)
    out = []
    try:
        while True:
            out.append(next(gen))
    except StopIteration as stop:
        fit = stop.value[0]
    print(f"constraints {progs!r} on {w!r}: emitted={bool(out)} fitness={fit!r}; all hard constraints hold (documented semantics): {want}")
    if bool(out) != want:
        print("VIOLATION reproduced")
        return 1
    print("not reproduced")
    return 0


if __name__ == "__main__":
    import json
    os.environ.pop("FANDANGO_RAISE_ALL_EXCEPTIONS", None)
    r = run(sys.argv[1] if len(sys.argv) > 1 else "quick", pid=sys.argv[2] if len(sys.argv) > 2 else "C02")
    for v in r["violations"]:
        print("VIOLATION", v["name"], v["witness"], "--", v["detail"][:260])
    for u in r["undecided"]:
        print("UNDECIDED", u)
    r.pop("violations")
    print(json.dumps(r, indent=1, default=str)[:900])
