"""Command line: verify the functions under contract (development driver; ./check wraps this)."""
from __future__ import annotations

import argparse
import importlib
import json
import os
import sys
import time

from .contract import REGISTRY
from .smt import solve_all
from .source import SourceIndex
from .verify import verify_function

CONTRACT_MODULES = ["contracts.evaluation", "contracts.constraints", "contracts.parser_state", "contracts.parser_cache", "contracts.tree_value", "contracts.tree", "contracts.printer", "contracts.search_loop", "contracts.io_buffer", "contracts.fuzz", "contracts.search"]


def load_contracts(mods=None):
    for m in mods or CONTRACT_MODULES:
        importlib.import_module(m)
    return REGISTRY


def main(argv=None):
    ap = argparse.ArgumentParser()
    ap.add_argument("--only", default="")
    ap.add_argument("--timeout", type=float, default=60)
    ap.add_argument("--jobs", type=int, default=0)
    ap.add_argument("-v", action="store_true")
    args = ap.parse_args(argv)
    reg = load_contracts()
    index = SourceIndex()
    todo = [c for c in reg.values() if not (c.trusted or c.abstract or c.inline)]
    if args.only:
        todo = [c for c in todo if args.only in c.target]
    all_vcs = []
    for c in todo:
        rep = verify_function(index, c, reg)
        print(f"== {c.target}: {rep.status} paths={rep.paths} vcs={len(rep.vcs)} {rep.seconds:.1f}s {rep.message[:2000]}")
        if args.v:
            for d in rep.dropped:
                print("   dropped:", d)
            for d in rep.assumed:
                print("   assumed:", d)
        all_vcs.extend(rep.vcs)
    t0 = time.time()
    res = solve_all(all_vcs, args.timeout, args.jobs)
    by = {}
    for r in res:
        by.setdefault(r.name, []).append(r)
    bad = 0
    for name, rs in by.items():
        ok = all(r.ok for r in rs)
        st = ",".join(sorted({r.status for r in rs}))
        tt = sum(r.seconds for r in rs)
        print(f"{'OK ' if ok else 'BAD'} {name}  [{len(rs)} vc, {st}, {tt:.1f}s, {','.join(sorted({r.backend for r in rs}))}]")
        if not ok:
            bad += 1
            for r in rs:
                if not r.ok:
                    keys = [k for k in r.model if "!" not in k]
                    print("     path", r.path, r.status, r.reason, {k: r.model[k] for k in keys[:12]})
    slow = sorted(res, key=lambda r: -r.seconds)[:8]
    for r in slow:
        print(f"   slow: {r.seconds:6.1f}s {r.backend} {r.status} {r.name} path={r.path}")
    print(f"solve wall {time.time()-t0:.1f}s; {len(res)} VCs; {bad} failing obligations")
    return 1 if bad else 0


if __name__ == "__main__":
    sys.exit(main())
