"""Symbolic values of the pyvc engine.

Concrete Python values (int, bool, float, str, bytes, None, tuple) are used as they are.  Everything below is
the symbolic counter-part.  Mutable values (SObj, SList, SDict, SSet) are ordinary Python objects: a path is
executed from the start for every decision prefix, so in-place mutation models Python's aliasing directly.
"""
from __future__ import annotations

from typing import Any, Callable, Optional

import z3

RNE = z3.RNE()
F64 = z3.Float64()
BVW = 64  # width of machine-ranged integers (only for ints that flow into float arithmetic)


class Unsupported(Exception):
    """The engine cannot model a construct: the function is *undecided*, never silently accepted."""


class SInt:
    """Integer: mathematical (z3 Int) or machine-ranged (64-bit vector with statically tracked bounds)."""

    __slots__ = ("term", "lo", "hi")

    def __init__(self, term, lo: Optional[int] = None, hi: Optional[int] = None):
        self.term = term
        self.lo = lo
        self.hi = hi

    @property
    def is_bv(self) -> bool:
        return z3.is_bv(self.term)

    def as_int(self):
        if self.is_bv:
            return z3.BV2Int(self.term, is_signed=True)
        return self.term

    def __repr__(self):
        return f"SInt({self.term})"


class SBool:
    __slots__ = ("term",)

    def __init__(self, term):
        self.term = term

    def __repr__(self):
        return f"SBool({self.term})"


class SFloat:
    __slots__ = ("term",)

    def __init__(self, term):
        self.term = term

    def __repr__(self):
        return f"SFloat({self.term})"


class SStr:
    """str (z3 String / Seq(Char)) -- also used for bytes with kind='bytes' (a sequence of code points < 256)."""

    __slots__ = ("term", "kind")

    def __init__(self, term, kind: str = "str"):
        self.term = term
        self.kind = kind

    def __repr__(self):
        return f"SStr[{self.kind}]({self.term})"


class SSeq:
    """Immutable abstract sequence over a z3 Seq sort (used for ghost views)."""

    __slots__ = ("term",)

    def __init__(self, term):
        self.term = term


_oid = [0]


def next_oid() -> int:
    _oid[0] += 1
    return _oid[0]


def reset_oids() -> None:
    _oid[0] = 0


class SObj:
    """A heap object with concrete identity and named fields."""

    def __init__(self, cls: str, fields: Optional[dict[str, Any]] = None, fresh: bool = True, label: str = ""):
        self.cls = cls
        self.fields: dict[str, Any] = dict(fields or {})
        self.oid = next_oid()
        self.fresh = fresh
        self.label = label or f"{cls}#{self.oid}"
        self.lazy: Optional[Callable[[str], Any]] = None  # field name -> value, for pre-existing objects
        self.ident = None  # optional z3 Int term naming the object (for hash())

    def __repr__(self):
        return f"<{self.label}>"


class SOpaque:
    """A value of which only its identity is known (a tree, a suggestion, an evaluation result...)."""

    def __init__(self, kind: str, ident=None, attrs: Optional[dict[str, Any]] = None, truthy=None, fresh: bool = False):
        self.kind = kind
        self.ident = ident
        self.attrs = attrs or {}
        self.truthy = truthy
        self.fresh = fresh
        self.oid = next_oid()

    def __repr__(self):
        return f"<opaque {self.kind} {self.ident}>"


class SList:
    """Python list.  Either concrete structure (items) or abstract (length + element function)."""

    def __init__(self, items: Optional[list] = None, length=None, elem: Optional[Callable[[Any], Any]] = None,
                 fresh: bool = True, label: str = "", kind: str = "list"):
        self.items = items
        self.length = length if items is None else None
        self.elem = elem
        self.fresh = fresh
        self.oid = next_oid()
        self.label = label or f"list#{self.oid}"
        self.kind = kind  # 'list' or 'tuple' (abstract tuples)
        self.ghost: dict[str, Any] = {}

    @property
    def concrete(self) -> bool:
        return self.items is not None

    def __repr__(self):
        if self.items is not None:
            return f"SList({self.items})"
        return f"SList(<{self.label}> len={self.length})"


class SSet:
    """set of ints (hash keys): z3 Array Int -> Bool."""

    def __init__(self, term, fresh: bool = False, label: str = "set"):
        self.term = term
        self.fresh = fresh
        self.oid = next_oid()
        self.label = label


class SDict:
    """dict.  `keys` is a z3 Array key-sort -> Bool for symbolic keys; `store` keeps the values written on
    this path (most recent first); `base` gives the value shape for keys present before the call."""

    def __init__(self, keys=None, base: Optional[Callable[[Any], Any]] = None, fresh: bool = False,
                 label: str = "dict", concrete: Optional[dict] = None):
        self.keys = keys
        self.base = base
        self.store: list[tuple[Any, Any]] = []
        self.fresh = fresh
        self.oid = next_oid()
        self.label = label
        self.concrete = concrete  # concrete-key python dict (e.g. small literal dicts)
        self.ghost: dict[str, Any] = {}


class SExc:
    def __init__(self, cls: str, args: tuple = (), opaque: bool = False):
        self.cls = cls
        self.args = args
        self.opaque = opaque

    def __repr__(self):
        return f"SExc({self.cls})"


class SClass:
    def __init__(self, name: str):
        self.name = name

    def __repr__(self):
        return f"<class {self.name}>"


class SFunc:
    """Reference to a function: repository function (target), bound method, builtin, lambda or contract stub."""

    def __init__(self, kind: str, name: str, self_obj=None, node=None, module=None, cls=None, closure=None, py=None):
        self.kind = kind  # 'repo' | 'builtin' | 'lambda' | 'py'
        self.name = name
        self.self_obj = self_obj
        self.node = node
        self.module = module
        self.cls = cls
        self.closure = closure
        self.py = py

    def __repr__(self):
        return f"<func {self.kind}:{self.name}>"


class SModule:
    def __init__(self, name: str):
        self.name = name


class SEnumMember:
    def __init__(self, enum: str, member: str, value=None):
        self.enum = enum
        self.member = member
        self.value = value

    def __eq__(self, other):
        return isinstance(other, SEnumMember) and (self.enum, self.member) == (other.enum, other.member)

    def __hash__(self):
        return hash((self.enum, self.member))

    def __repr__(self):
        return f"{self.enum}.{self.member}"


# ---------------------------------------------------------------------------------------------------
# helpers

def is_symbolic(v) -> bool:
    return isinstance(v, (SInt, SBool, SFloat, SStr))


def to_term_int(v):
    if isinstance(v, bool):
        return z3.IntVal(int(v))
    if isinstance(v, int):
        return z3.IntVal(v)
    if isinstance(v, SInt):
        return v.as_int()
    if isinstance(v, SBool):
        return z3.If(v.term, z3.IntVal(1), z3.IntVal(0))
    raise Unsupported(f"not an int: {v!r}")


def to_term_bool(v):
    if isinstance(v, bool):
        return z3.BoolVal(v)
    if isinstance(v, SBool):
        return v.term
    raise Unsupported(f"not a bool: {v!r}")


class FloatMode:
    """'ieee'  : binary64 exactly (z3 FloatingPoint, round-to-nearest-even)
    'real'  : the standard model of floating-point arithmetic over the reals -- a sound OVER-approximation:
              fl(e) is any real r with |r - e| <= 2^-53 |e| + 2^-1075, sign(r) = sign(e), r = e when e is an
              integer of magnitude <= 2^53, and r <= c / r >= c for every declared representable anchor c with
              e <= c / e >= c (monotonicity of rounding).  No-overflow is a side obligation of every operation.
              A `sat` answer in this mode is NOT a counterexample (only `unsat` is meaningful)."""
    mode = "ieee"
    abstract = False   # with mode 'real': every float operation yields an UNCONSTRAINED real (no rounding facts, no side
                       # obligations) -- for code whose float values only steer budgets and never enter the property
    cx = None          # current path context (side obligations / assumptions of the real model go there)
    anchors: tuple = ()


U53 = None


def _real(x):
    from fractions import Fraction
    if isinstance(x, float):
        fr = Fraction(x)
        return z3.RealVal(f"{fr.numerator}/{fr.denominator}")
    return z3.RealVal(x)


def fpval(x: float):
    if FloatMode.mode == "real":
        return _real(float(x))
    return z3.FPVal(x, F64)


def real_round(e, what: str = "op"):
    """result of rounding the exact real `e` in the relaxed model"""
    cx = FloatMode.cx
    r = z3.Real(cx._name("fl"))
    if FloatMode.abstract:
        return r
    u = _real(2.0 ** -53)
    eta = z3.RealVal("1/" + str(2 ** 1075))
    ae = z3.If(e >= 0, e, -e)
    cx.assume(z3.And(r <= e + u * ae + eta, r >= e - u * ae - eta))
    cx.assume(z3.Implies(e >= 0, r >= 0))
    cx.assume(z3.Implies(e <= 0, r <= 0))
    cx.assume(z3.Implies(z3.And(z3.IsInt(e), ae <= z3.RealVal(2 ** 53)), r == e))
    for c in tuple(FloatMode.anchors) + tuple(cx.ghost.get("anchors", ())):
        ct = c if isinstance(c, z3.ExprRef) else _real(c)
        cx.assume(z3.Implies(e <= ct, r <= ct))
        cx.assume(z3.Implies(e >= ct, r >= ct))
    cx.oblige(f"{cx.tag}#fp_side:no_overflow", ae <= z3.RealVal(2 ** 1000), kind="call_pre")
    return r


def add_anchor(cx, term, m: int, name: str = "anchor") -> None:
    """declare the real term `term` to be a binary64 number for the monotonicity rule of the relaxed model; the
    sufficient condition  term * 2^m is an integer of magnitude <= 2^53 (m <= 1000)  becomes an obligation"""
    if FloatMode.mode != "real":
        return
    assert 0 <= m <= 1000
    scaled = term * z3.RealVal(2 ** m)
    a = z3.If(scaled >= 0, scaled, -scaled)
    cx.oblige(f"{cx.tag}#fp_side:anchor_representable:{name}", z3.And(z3.IsInt(scaled), a <= z3.RealVal(2 ** 53)), kind="call_pre")
    cx.ghost.setdefault("anchors", []).append(term)


def to_term_float(v):
    """Python float(v) for int/bool/float operands, exactly (requires |int| < 2**53 for symbolic ints)."""
    if isinstance(v, SFloat):
        return v.term
    if isinstance(v, z3.ExprRef) and (z3.is_fp(v) or z3.is_real(v)):
        return v
    if isinstance(v, bool):
        return fpval(float(v))
    if isinstance(v, (int, float)):
        if isinstance(v, int) and abs(v) >= 2 ** 53:
            raise Unsupported("int too large for exact float conversion")
        return fpval(float(v))
    if FloatMode.mode == "real":
        if isinstance(v, SInt):
            if v.lo is None or v.hi is None or max(abs(v.lo), abs(v.hi)) >= 2 ** 53:
                cx = FloatMode.cx
                t = v.as_int()
                if FloatMode.abstract:
                    return z3.Real(cx._name("fl_of_int"))
                cx.oblige(f"{cx.tag}#fp_side:int_exactly_representable", z3.And(t <= 2 ** 53, t >= -(2 ** 53)), kind="call_pre")
            return z3.ToReal(v.as_int())
        if isinstance(v, SBool):
            return z3.If(v.term, z3.RealVal(1), z3.RealVal(0))
        raise Unsupported(f"not convertible to float: {v!r}")
    if isinstance(v, SInt):
        if v.is_bv:
            if v.lo is None or v.hi is None or max(abs(v.lo), abs(v.hi)) >= 2 ** 53:
                raise Unsupported("machine int without a bound < 2**53 flows into a float")
            return z3.fpSignedToFP(RNE, v.term, F64)
        raise Unsupported(
            "a mathematical (unbounded) int flows into float arithmetic; declare it machine-ranged in the contract")
    if isinstance(v, SBool):
        return z3.If(v.term, fpval(1.0), fpval(0.0))
    raise Unsupported(f"not convertible to float: {v!r}")


def bvint(term, lo: int, hi: int) -> SInt:
    return SInt(term, lo, hi)


def mk_bv(x: int):
    return z3.BitVecVal(x, BVW)
