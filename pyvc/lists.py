"""Abstract lists: opaque lists (length only) and record lists (per-field functions of the index)."""
from __future__ import annotations

from typing import Any, Callable, Optional

import z3

from .ops import cmp, int_binop, list_len, to_term_int
from .values import SBool, SFloat, SInt, SList, SObj, SOpaque, Unsupported

class _KindSort(dict):
    def __getitem__(self, k):
        if k == "float":
            from .values import FloatMode
            return z3.RealSort() if FloatMode.mode == "real" else z3.Float64()
        return dict.__getitem__(self, k)


KIND_SORT = _KindSort({"int": z3.IntSort(), "bool": z3.BoolSort()})


def wrap(kind: str, term):
    if kind == "int":
        return SInt(term)
    if kind == "bool":
        return SBool(term)
    if kind == "float":
        return SFloat(term)
    raise Unsupported(kind)


def unwrap(kind: str, v):
    from .values import to_term_bool, to_term_float
    if kind == "int":
        return to_term_int(v)
    if kind == "bool":
        return to_term_bool(v)
    if kind == "float":
        return to_term_float(v)
    raise Unsupported(kind)


def record_list(cx, base: str, length, cls: str, fields: dict[str, str], other: Optional[dict] = None,
                fresh: bool = True) -> SList:
    """A list of `cls` records; field f of element j is the term  <base>_f(j)  (an uninterpreted function)."""
    fns = {}
    for f, kind in fields.items():
        uf = cx.func(f"{base}_{f}", z3.IntSort(), KIND_SORT[kind])
        fns[f] = (kind, (lambda j, uf=uf: uf(j)))
    l = SList(None, length=length, fresh=fresh, label=base)
    l.ghost["rec_cls"] = cls
    l.ghost["rec_fields"] = fns
    l.ghost["rec_other"] = dict(other or {})
    l.elem = lambda j, l=l: rec_elem(cx, l, j)
    return l


def rec_elem(cx, l: SList, j) -> SObj:
    jt = to_term_int(j)
    fields = {}
    for f, (kind, fn) in l.ghost["rec_fields"].items():
        fields[f] = wrap(kind, fn(jt))
    for f, mk in l.ghost["rec_other"].items():
        fields[f] = mk(cx, jt)
    o = SObj(l.ghost["rec_cls"], fields, fresh=True)
    if "seq" in l.ghost:
        o.ident = l.ghost["seq"][jt]
    o.ghost_index = (l, jt)  # type: ignore[attr-defined]
    return o


def field_fn(l: SList, f: str) -> Callable:
    return l.ghost["rec_fields"][f][1]


def _set_seq(l: SList, new_seq) -> None:
    """replace the sequence a seq-backed list stands for (in place: the list object keeps its identity)"""
    make = l.ghost.get("seq_make")
    if make is not None:
        fresh = make(new_seq)
        keep = {k: v for k, v in l.ghost.items() if k not in fresh.ghost}
        l.ghost = dict(fresh.ghost)
        l.ghost.update(keep)
        l.ghost["seq"] = new_seq
        l.elem = fresh.elem
        l.length = fresh.length
    else:
        l.ghost["seq"] = new_seq
        l.length = SInt(z3.Length(new_seq), 0, None)
        l.elem = lambda j, t=new_seq: SInt(t[to_term_int(j)])


def _seq_unit(x):
    if isinstance(x, SObj) and getattr(x, "ident", None) is not None:
        return z3.Unit(x.ident)
    if isinstance(x, (int, SInt)) and not isinstance(x, bool):
        return z3.Unit(to_term_int(x))
    raise Unsupported("element without identity appended to a list that is tracked as a sequence of identities")


def append(cx, l: SList, x) -> None:
    if l.concrete:
        l.items.append(x)
        return
    if "seq" in l.ghost:
        _set_seq(l, z3.Concat(l.ghost["seq"], _seq_unit(x)))
        return
    old_len = l.length
    if "arrays" in l.ghost:
        # a heap list adopts the object: its fields move into the list's arrays at the new index
        if not isinstance(x, SObj):
            raise Unsupported("append of a non-object to a heap list")
        ol = to_term_int(old_len)
        extra = {}
        proxy = FieldProxy(l, ol, extra)
        old_fields = x.fields
        for f, v in (old_fields.items() if not isinstance(old_fields, FieldProxy) else old_fields.items()):
            if f in l.ghost["arrays"]:
                proxy[f] = v
            else:
                extra[f] = v
        x.fields = proxy            # type: ignore[assignment]
        x.elem_of = (l, ol)         # type: ignore[attr-defined]
        if getattr(x, "ident", None) is not None:
            cx.assume(l.ghost["id_fn"](ol) == x.ident)
        l.length = int_binop("+", old_len, 1)
        return
    if "rec_fields" in l.ghost:
        if not isinstance(x, SObj):
            raise Unsupported("append of a non-record to a record list")
        ol = to_term_int(old_len)
        new = {}
        for f, (kind, fn) in l.ghost["rec_fields"].items():
            if f not in x.fields:
                raise Unsupported(f"record field {f} missing on appended object")
            xt = unwrap(kind, x.fields[f])
            new[f] = (kind, (lambda j, fn=fn, xt=xt, ol=ol: z3.If(j == ol, xt, fn(j))))
        l.ghost["rec_fields"] = new
    elif l.elem is not None and "elem_term" in l.ghost:
        kind, fn = l.ghost["elem_term"]
        ol = to_term_int(old_len)
        xt = unwrap(kind, x)
        l.ghost["elem_term"] = (kind, (lambda j, fn=fn, xt=xt, ol=ol: z3.If(j == ol, xt, fn(j))))
    l.length = int_binop("+", old_len, 1)


def extend(cx, l: SList, other) -> None:
    if l.concrete and isinstance(other, SList) and other.concrete:
        l.items.extend(other.items)
        return
    if isinstance(other, tuple):
        other = SList(list(other))
    if not isinstance(other, SList):
        raise Unsupported("extend with a non-list")
    if not l.concrete and "seq" in l.ghost:
        # a list tracked as a sequence of identities: the other list must be one too (found by tools/mutants_fuzz.py: a stale
        # sequence would make every invariant over it trivially preserved)
        other_seq = other.ghost.get("seq") if not other.concrete else None
        if other.concrete:
            other_seq = z3.Empty(l.ghost["seq"].sort())
            for x in other.items:
                other_seq = z3.Concat(other_seq, _seq_unit(x))
        if other_seq is None:
            raise Unsupported("extend of a sequence-tracked list by a list that is not tracked as a sequence")
        _set_seq(l, z3.Concat(l.ghost["seq"], other_seq))
        return
    was_empty_concrete = False
    if l.concrete:
        if l.items:
            raise Unsupported("extend of a non-empty concrete list by an abstract list")
        # becomes abstract (opaque elements)
        l.items = None
        l.length = 0
        l.elem = None
        was_empty_concrete = True
    if "rec_fields" in l.ghost or "elem_term" in l.ghost:
        raise Unsupported("extend on a record/term list")
    # lists of containers (contracts/search.py) are tracked by the sequence they flatten to
    if "flat" in other.ghost and ("flat" in l.ghost or was_empty_concrete):
        mine = l.ghost.get("flat")
        l.ghost["flat"] = other.ghost["flat"] if mine is None else z3.Concat(mine, other.ghost["flat"])
        l.elem = None
    else:
        l.ghost.pop("flat", None)
    l.length = int_binop("+", l.length, list_len(other))


def term_list(cx, base: str, length, kind: str, fresh: bool = True) -> SList:
    """list of int/bool/float whose element j is <base>(j)"""
    uf = cx.func(base, z3.IntSort(), KIND_SORT[kind])
    l = SList(None, length=length, fresh=fresh, label=base)
    l.ghost["elem_term"] = (kind, lambda j: uf(j))
    l.elem = lambda j, l=l: wrap(l.ghost["elem_term"][0], l.ghost["elem_term"][1](to_term_int(j)))
    return l


def to_abstract_terms(cx, l: SList, kind: str) -> SList:
    """view a concrete list of scalars as a term list (needed when a loop starts appending symbolically)"""
    if not l.concrete:
        return l
    items = list(l.items)
    n = len(items)

    def fn(j, items=items):
        t = unwrap(kind, items[-1]) if items else None
        if not items:
            return z3.FreshConst(KIND_SORT[kind])
        for k in range(len(items) - 2, -1, -1):
            t = z3.If(j == k, unwrap(kind, items[k]), t)
        return t

    l.items = None
    l.length = n
    l.ghost["elem_term"] = (kind, fn)
    l.elem = lambda j, l=l: wrap(l.ghost["elem_term"][0], l.ghost["elem_term"][1](to_term_int(j)))
    return l


# ---------------------------------------------------------------------------------------------------
# lists of heap objects whose fields are kept in per-list arrays (element j's field f is  arr_f[j])

NONE_REF = -7


class FieldProxy:
    """dict-like view of the fields of element `idx` of a heap list"""

    def __init__(self, owner: SList, idx, extra: dict):
        self.owner = owner
        self.idx = idx
        self.extra = extra

    def _arr(self):
        return self.owner.ghost["arrays"]

    def __contains__(self, k):
        return k in self._arr() or k in self.extra

    def __getitem__(self, k):
        if k in self.extra:
            return self.extra[k]
        kind, arr = self._arr()[k]
        t = z3.Select(arr, self.idx)
        if kind == "ref":
            return SRef(t)
        if kind == "optint":
            return SOptInt(t, z3.Select(self._arr()[k + "@none"][1], self.idx))
        return wrap(kind, t)

    def __setitem__(self, k, v):
        if k not in self._arr():
            self.extra[k] = v
            return
        kind, arr = self._arr()[k]
        if kind == "ref":
            if v is None:
                t = z3.IntVal(NONE_REF)
            elif isinstance(v, SRef):
                t = v.term
            elif getattr(v, "ident", None) is not None:
                t = v.ident
            else:
                raise Unsupported("storing an object without identity into a heap list element")
            self._arr()[k] = (kind, z3.Store(arr, self.idx, t))
        elif kind == "optint":
            nk = k + "@none"
            if v is None:
                self._arr()[nk] = ("bool", z3.Store(self._arr()[nk][1], self.idx, z3.BoolVal(True)))
            else:
                self._arr()[nk] = ("bool", z3.Store(self._arr()[nk][1], self.idx, z3.BoolVal(False)))
                self._arr()[k] = (kind, z3.Store(arr, self.idx, to_term_int(v)))
        else:
            self._arr()[k] = (kind, z3.Store(arr, self.idx, unwrap(kind, v)))

    def get(self, k, d=None):
        return self[k] if k in self else d

    def items(self):
        return [(k, self[k]) for k in list(self._arr()) if not k.endswith("@none")] + list(self.extra.items())

    def values(self):
        return [v for _, v in self.items()]

    def update(self, d):
        for k, v in d.items():
            self[k] = v


class SRef:
    """a reference read from a heap array: only its identity term is known"""

    def __init__(self, term):
        self.term = term
        self.ident = term


class SOptInt:
    def __init__(self, term, isnone):
        self.term = term
        self.isnone = isnone


def heap_list(cx, base: str, length, cls: str, fields: dict, fresh: bool = False, ident_fn=None) -> SList:
    """abstract list of distinct heap objects of class `cls`; fields: name -> 'int' | 'bool' | 'ref' | 'optint'"""
    arrays = {}
    for f, kind in fields.items():
        sort = z3.BoolSort() if kind == "bool" else z3.IntSort()
        arrays[f] = (kind, z3.Array(cx._name(f"{base}.{f}"), z3.IntSort(), sort))
        if kind == "optint":
            arrays[f + "@none"] = ("bool", z3.Array(cx._name(f"{base}.{f}@none"), z3.IntSort(), z3.BoolSort()))
    idf = ident_fn or cx.func(base + "_id", z3.IntSort(), z3.IntSort())
    l = SList(None, length=length, fresh=fresh, label=base)
    l.ghost["arrays"] = arrays
    l.ghost["id_fn"] = idf
    l.ghost["elem_cls"] = cls

    def elem(j, l=l):
        jt = to_term_int(j)
        o = SObj(cls, {}, fresh=fresh, label=f"{base}[{jt}]")
        o.fields = FieldProxy(l, jt, {})          # type: ignore[assignment]
        o.ident = idf(jt)
        o.elem_of = (l, jt)                       # type: ignore[attr-defined]
        return o

    l.elem = elem
    return l


def heap_slice(cx, src: SList, lo, hi) -> SList:
    """src[lo:hi] of a heap list: a NEW list object that lists the SAME element objects"""
    n = to_term_int(list_len(src))
    a = to_term_int(lo) if lo is not None else z3.IntVal(0)
    b = to_term_int(hi) if hi is not None else n
    a = z3.If(a < 0, z3.If(n + a < 0, 0, n + a), z3.If(a > n, n, a))
    b = z3.If(b < 0, z3.If(n + b < 0, 0, n + b), z3.If(b > n, n, b))
    length = SInt(z3.If(b > a, b - a, 0), 0, None)
    out = SList(None, length=length, fresh=True, label=src.label + "[slice]")
    out.ghost["slice_of"] = (src, a)
    out.ghost["arrays_view"] = src
    out.elem = lambda j, src=src, a=a: src.elem(SInt(a + to_term_int(j)))
    return out
