"""Abstract lists: opaque lists (length only) and record lists (per-field functions of the index)."""
from __future__ import annotations

from typing import Any, Callable, Optional

import z3

from .ops import cmp, int_binop, list_len, to_term_int
from .values import SBool, SFloat, SInt, SList, SObj, SOpaque, Unsupported

class _KindSort(dict):
    def __getitem__(self, k):
        if k == "float":
            from .values import FloatMode
            return z3.RealSort() if FloatMode.mode == "real" else z3.Float64()
        return dict.__getitem__(self, k)


KIND_SORT = _KindSort({"int": z3.IntSort(), "bool": z3.BoolSort()})


def wrap(kind: str, term):
    if kind == "int":
        return SInt(term)
    if kind == "bool":
        return SBool(term)
    if kind == "float":
        return SFloat(term)
    raise Unsupported(kind)


def unwrap(kind: str, v):
    from .values import to_term_bool, to_term_float
    if kind == "int":
        return to_term_int(v)
    if kind == "bool":
        return to_term_bool(v)
    if kind == "float":
        return to_term_float(v)
    raise Unsupported(kind)


def record_list(cx, base: str, length, cls: str, fields: dict[str, str], other: Optional[dict] = None,
                fresh: bool = True) -> SList:
    """A list of `cls` records; field f of element j is the term  <base>_f(j)  (an uninterpreted function)."""
    fns = {}
    for f, kind in fields.items():
        uf = cx.func(f"{base}_{f}", z3.IntSort(), KIND_SORT[kind])
        fns[f] = (kind, (lambda j, uf=uf: uf(j)))
    l = SList(None, length=length, fresh=fresh, label=base)
    l.ghost["rec_cls"] = cls
    l.ghost["rec_fields"] = fns
    l.ghost["rec_other"] = dict(other or {})
    l.elem = lambda j, l=l: rec_elem(cx, l, j)
    return l


def rec_elem(cx, l: SList, j) -> SObj:
    jt = to_term_int(j)
    fields = {}
    for f, (kind, fn) in l.ghost["rec_fields"].items():
        fields[f] = wrap(kind, fn(jt))
    for f, mk in l.ghost["rec_other"].items():
        fields[f] = mk(cx, jt)
    o = SObj(l.ghost["rec_cls"], fields, fresh=True)
    o.ghost_index = (l, jt)  # type: ignore[attr-defined]
    return o


def field_fn(l: SList, f: str) -> Callable:
    return l.ghost["rec_fields"][f][1]


def append(cx, l: SList, x) -> None:
    if l.concrete:
        l.items.append(x)
        return
    old_len = l.length
    if "rec_fields" in l.ghost:
        if not isinstance(x, SObj):
            raise Unsupported("append of a non-record to a record list")
        ol = to_term_int(old_len)
        new = {}
        for f, (kind, fn) in l.ghost["rec_fields"].items():
            if f not in x.fields:
                raise Unsupported(f"record field {f} missing on appended object")
            xt = unwrap(kind, x.fields[f])
            new[f] = (kind, (lambda j, fn=fn, xt=xt, ol=ol: z3.If(j == ol, xt, fn(j))))
        l.ghost["rec_fields"] = new
    elif l.elem is not None and "elem_term" in l.ghost:
        kind, fn = l.ghost["elem_term"]
        ol = to_term_int(old_len)
        xt = unwrap(kind, x)
        l.ghost["elem_term"] = (kind, (lambda j, fn=fn, xt=xt, ol=ol: z3.If(j == ol, xt, fn(j))))
    l.length = int_binop("+", old_len, 1)


def extend(cx, l: SList, other) -> None:
    if l.concrete and isinstance(other, SList) and other.concrete:
        l.items.extend(other.items)
        return
    if isinstance(other, tuple):
        other = SList(list(other))
    if not isinstance(other, SList):
        raise Unsupported("extend with a non-list")
    if l.concrete:
        if l.items:
            raise Unsupported("extend of a non-empty concrete list by an abstract list")
        # becomes abstract (opaque elements)
        l.items = None
        l.length = 0
        l.elem = None
    if "rec_fields" in l.ghost or "elem_term" in l.ghost:
        raise Unsupported("extend on a record/term list")
    l.length = int_binop("+", l.length, list_len(other))


def term_list(cx, base: str, length, kind: str, fresh: bool = True) -> SList:
    """list of int/bool/float whose element j is <base>(j)"""
    uf = cx.func(base, z3.IntSort(), KIND_SORT[kind])
    l = SList(None, length=length, fresh=fresh, label=base)
    l.ghost["elem_term"] = (kind, lambda j: uf(j))
    l.elem = lambda j, l=l: wrap(l.ghost["elem_term"][0], l.ghost["elem_term"][1](to_term_int(j)))
    return l


def to_abstract_terms(cx, l: SList, kind: str) -> SList:
    """view a concrete list of scalars as a term list (needed when a loop starts appending symbolically)"""
    if not l.concrete:
        return l
    items = list(l.items)
    n = len(items)

    def fn(j, items=items):
        t = unwrap(kind, items[-1]) if items else None
        if not items:
            return z3.FreshConst(KIND_SORT[kind])
        for k in range(len(items) - 2, -1, -1):
            t = z3.If(j == k, unwrap(kind, items[k]), t)
        return t

    l.items = None
    l.length = n
    l.ghost["elem_term"] = (kind, fn)
    l.elem = lambda j, l=l: wrap(l.ghost["elem_term"][0], l.ghost["elem_term"][1](to_term_int(j)))
    return l
