"""./check <property-id> [--tier quick|thorough]

exit 0  every obligation generated from /repo's current source is discharged (known findings are printed) and the
        bounded part, if any, found nothing
exit 1  VIOLATION property=<id> replay=<path>            (a failed obligation / a firing run-time contract)
exit 2  undecided: solver `unknown`, function out of reach of the engine, function missing, vacuous precondition
exit 3  the checker itself crashed
`unknown`, timeouts and tracebacks are never mapped to a violation.
"""
from __future__ import annotations

import argparse
import importlib
import json
import os
import re
import subprocess
import sys
import time
import traceback

ROOT = os.path.dirname(os.path.dirname(os.path.abspath(__file__)))
REPO = os.environ.get("VERIF_REPO", "/repo")
sys.path.insert(0, ROOT)

from pyvc.contract import REGISTRY  # noqa: E402
from pyvc.smt import solve_all  # noqa: E402
from pyvc.source import SourceIndex  # noqa: E402
from pyvc.verify import verify_function  # noqa: E402
from pyvc.plan import PLAN, TRUSTED_BASE  # noqa: E402

PY = os.path.join(ROOT, ".venv", "bin", "python")


def sanitize(s: str) -> str:
    return re.sub(r"[^A-Za-z0-9_.-]+", "_", s)[:150]


def load_known(pid: str):
    findings, fixed = [], []
    path = os.path.join(ROOT, "KNOWN_FINDINGS.txt")
    if not os.path.exists(path):
        return findings, fixed
    for line in open(path, encoding="utf-8"):
        line = line.strip()
        if not line or line.startswith("#"):
            continue
        if line.startswith("finding:"):
            m = re.match(r"finding:\s*property=(\S+)\s+obligation=(\S+)\s+witness=(.*?)\s+—\s+(.*)$", line)
            if m and m.group(1) == pid:
                findings.append({"obligation": m.group(2), "witness": m.group(3), "text": m.group(4)})
        elif line.startswith("fixed:"):
            m = re.match(r"fixed:\s*property=(\S+)\s+(\S+)\s+(.*)$", line)
            if m and m.group(1) == pid:
                fixed.append({"commit": m.group(2), "text": m.group(3)})
    return findings, fixed


def run_replay(pid: str, name: str, script_text: str):
    d = os.path.join(ROOT, "out", "replay")
    os.makedirs(d, exist_ok=True)
    path = os.path.join(d, f"{pid}-{sanitize(name)}.py")
    with open(path, "w", encoding="utf-8") as f:
        f.write(script_text)
    env = dict(os.environ)
    env["VERIF_REPO"] = REPO
    env["PYTHONPATH"] = os.path.join(REPO, "src")
    env.pop("FANDANGO_RAISE_ALL_EXCEPTIONS", None)
    try:
        p = subprocess.run([PY, path], capture_output=True, text=True, timeout=300, env=env)
        return path, p.returncode, (p.stdout + p.stderr)[-3000:]
    except subprocess.TimeoutExpired:
        return path, 124, "replay timed out after 300 s"


def write_unreplayed(pid: str, name: str, results, why: str) -> str:
    d = os.path.join(ROOT, "out", "replay")
    os.makedirs(d, exist_ok=True)
    path = os.path.join(d, f"{pid}-{sanitize(name)}.txt")
    with open(path, "w", encoding="utf-8") as f:
        f.write(f"failed obligation: {name}\nproperty: {pid}\n{why}\n\nverifier output per path:\n")
        for r in results:
            f.write(f"  path={r.path} status={r.status} backend={r.backend} {r.seconds:.1f}s {r.reason}\n")
            if r.model:
                named = {k: v for k, v in r.model.items() if "!" not in k}
                f.write(f"    model (named inputs): {json.dumps(named)[:2000]}\n")
    return path


def _explore_one(key):
    from pyvc.source import SourceIndex as _SI
    return verify_function(_SI(), REGISTRY[key], REGISTRY)


def explore_all(index, todo):
    """path exploration of every function under contract, in parallel (forked workers share the loaded contracts)"""
    import multiprocessing as mp
    keys = [c.key or c.target for c in todo]
    if len(keys) <= 1 or os.environ.get("PYVC_SERIAL"):
        return [verify_function(index, c, REGISTRY) for c in todo]
    ctx = mp.get_context("fork")
    with ctx.Pool(min(len(keys), os.cpu_count() or 4)) as pool:
        return pool.map(_explore_one, keys, chunksize=1)


def proof_part(pid: str, tier: str, plan: dict, out: dict) -> int:
    """returns worst exit code of the proof part and fills `out`"""
    for m in plan.get("contracts", []):
        importlib.import_module(m)
    index = SourceIndex()
    todo = [c for c in REGISTRY.values() if pid in c.properties and not (c.trusted or c.abstract or c.inline)]
    if tier == "quick":
        todo = [c for c in todo if not getattr(c, "thorough_only", False)]
    timeout = float(os.environ.get("PYVC_TIMEOUT", "120" if tier == "quick" else "600"))
    functions = []
    all_vcs = []
    code = 0
    by_key = {}
    reports = explore_all(index, todo)
    for c, rep in zip(todo, reports):
        by_key[c.key or c.target] = c
        functions.append({
            "function": c.target, "contract": type(c).__name__, "float_model": c.float_mode, "source_sha256_16": rep.sha,
            "paths": rep.paths, "vcs": len(rep.vcs), "status": rep.status, "message": rep.message[:600],
            "extraction_dropped": rep.dropped, "assumed_in_body": rep.assumed, "explore_s": round(rep.seconds, 2),
        })
        if rep.status in ("unsupported", "missing"):
            print(f"UNDECIDED property={pid} function={c.target}: {rep.status}: {rep.message[:300]}")
            code = max(code, 2)
        elif rep.status == "error":
            print(f"CHECKER-ERROR property={pid} function={c.target}: {rep.message[:1500]}")
            code = max(code, 3)
        elif not rep.vcs:
            print(f"UNDECIDED property={pid} function={c.target}: zero obligations generated")
            code = max(code, 2)
        all_vcs.extend(rep.vcs)
    if plan.get("lemmas"):
        from pyvc.lemmas import lemma_vcs
        all_vcs.extend(lemma_vcs())
    trusted_used = sorted({(k, (type(c).__doc__ or "").strip().split("\n")[0]) for k, c in REGISTRY.items() if c.trusted})
    t0 = time.time()
    results = solve_all(all_vcs, timeout)
    solve_wall = time.time() - t0
    by_name: dict = {}
    for r in results:
        by_name.setdefault(r.name, []).append(r)
    findings, fixed = load_known(pid)
    known_names = {f["obligation"]: f for f in findings}
    discharged = 0
    n_obl = 0
    per_backend: dict = {}
    solver_s = 0.0
    obligations_out = []
    violations = 0
    known_hit = []
    for name, rs in by_name.items():
        n_obl += 1
        solver_s += sum(r.seconds for r in rs)
        for r in rs:
            per_backend[r.backend] = per_backend.get(r.backend, 0) + 1
        key = name.split("#")[0]
        c = by_key.get(key)
        ok = all(r.ok for r in rs)
        status = "discharged"
        if ok:
            discharged += 1
        else:
            cover_fail = [r for r in rs if r.expect == "sat" and r.status == "unsat"]
            sat = [r for r in rs if r.expect == "unsat" and r.status == "sat"]
            unknown = [r for r in rs if r.status == "unknown"]
            if cover_fail:
                status = "vacuous"
                print(f"UNDECIDED property={pid} obligation={name}: precondition/cover is unsatisfiable (vacuous contract)")
                code = max(code, 2)
            elif sat and all(r.relaxed for r in sat):
                status = "undecided-relaxed-model"
                print(f"UNDECIDED property={pid} obligation={name}: not provable in the relaxed float model (a model there is not a counterexample)")
                code = max(code, 2)
            elif sat:
                status = "failed"
                if name in known_names:
                    f = known_names[name]
                    status = "known-finding"
                    known_hit.append(name)
                    print(f"KNOWN-FINDING: property={pid} obligation={name} witness={f['witness']} — {f['text']}")
                else:
                    violations += 1
                    code = max(code, 1)
                    reported = False
                    if c is not None:
                        for r in sat:
                            try:
                                script = c.replay(name, r.model)
                            except Exception as e:  # replay builder trouble must not hide the violation
                                script = None
                                print(f"note: replay builder failed: {e}")
                            if script:
                                path, rc, outp = run_replay(pid, name, script)
                                if rc == 1:
                                    print(outp.strip()[-800:])
                                    print(f"VIOLATION property={pid} replay={path}")
                                    reported = True
                                    break
                    if not reported:
                        path = write_unreplayed(pid, name, rs, "the verifier's counterexample could not be turned into a failing run of the real code")
                        print(f"VIOLATION property={pid} replay={path} obligation={name} no-failing-input-found")
            elif unknown:
                status = "unknown"
                print(f"UNDECIDED property={pid} obligation={name}: solver gave no verdict ({unknown[0].reason[:200]})")
                code = max(code, 2)
        obligations_out.append({"name": name, "vcs": len(rs), "status": status,
                                "backends": sorted({r.backend for r in rs}), "solver_s": round(sum(r.seconds for r in rs), 2)})
    # ledger ---------------------------------------------------------------------------------------
    ledger_path = os.path.join(ROOT, "obligations.baseline.json")
    missing = []
    if os.path.exists(ledger_path):
        ledger = json.load(open(ledger_path)).get(pid, {}).get(tier, {})
        for name in ledger:
            if name not in by_name:
                missing.append(name)
        if missing:
            print(f"UNDECIDED property={pid}: {len(missing)} obligation(s) of the committed ledger were not generated, e.g. {missing[:3]}")
            code = max(code, 2)
    for f in findings:
        if f["obligation"] not in known_hit and f["obligation"] in by_name:
            print(f"note: known finding {f['obligation']} no longer fails on this tree")
    out.update({
        "obligations": n_obl, "discharged": discharged, "vcs": len(results), "functions": functions,
        "obligation_list": obligations_out, "by_backend": per_backend, "solver_cpu_s": round(solver_s, 1),
        "solve_wall_s": round(solve_wall, 1), "assumed_contracts": [f"{k}: {d}" for k, d in trusted_used],
        "known_findings_hit": known_hit, "fixed_entries": fixed, "ledger_missing": missing, "violations": violations,
        "timeout_s": timeout,
    })
    return code


def bounded_part(pid: str, tier: str, seed: int, plan: dict, out: dict) -> int:
    code = 0
    parts = []
    findings, _ = load_known(pid)
    known = {(f["obligation"], f["witness"]): f for f in findings}
    for modname in plan.get("bounded", []):
        mod = importlib.import_module(modname)
        res = mod.run(tier=tier, seed=seed, pid=pid)
        for v in res.get("violations", []):
            name = v["name"]
            if (name, v.get("witness", "")) in known:
                f = known[(name, v.get("witness", ""))]
                print(f"KNOWN-FINDING: property={pid} obligation={name} witness={f['witness']} — {f['text']}")
                res.setdefault("known_findings_hit", []).append(name)
                continue
            script = v.get("script")
            if script:
                path, rc, outp = run_replay(pid, name + "-" + sanitize(v.get("witness", ""))[:40], script)
                if rc == 1:
                    print(outp.strip()[-600:])
                    print(f"VIOLATION property={pid} replay={path}")
                else:
                    print(f"note: bounded witness for {name} did not reproduce in a fresh interpreter (rc={rc}); treated as undecided")
                    code = max(code, 2)
                    continue
            else:
                path = write_unreplayed(pid, name, [], v.get("detail", ""))
                print(f"VIOLATION property={pid} replay={path} no-failing-input-found")
            code = max(code, 1)
            out["violations"] = out.get("violations", 0) + 1
        for u in res.get("undecided", []):
            print(f"UNDECIDED property={pid} bounded={modname}: {u}")
            code = max(code, 2)
        res.pop("violations", None)
        parts.append({"module": modname, **res})
    out["bounded"] = parts
    return code


def main(argv=None) -> int:
    ap = argparse.ArgumentParser()
    ap.add_argument("pid")
    ap.add_argument("--tier", default=os.environ.get("VERIF_TIER", "quick"), choices=["quick", "thorough"])
    ap.add_argument("--replay", default=None)
    args = ap.parse_args(argv)
    if args.replay:
        env = dict(os.environ)
        env["VERIF_REPO"] = REPO
        env["PYTHONPATH"] = os.path.join(REPO, "src")
        return subprocess.call([PY, args.replay], env=env) if args.replay.endswith(".py") else subprocess.call(["cat", args.replay])
    os.environ["VERIF_TIER"] = args.tier
    seed = int(os.environ.get("VERIF_SEED", "0") or 0)
    pid = args.pid
    if pid not in PLAN:
        print(f"property {pid} is not claimed (see MANIFEST.json not_applicable)")
        return 2
    plan = PLAN[pid]
    t0 = time.time()
    cov: dict = {}
    code = 0
    try:
        if plan.get("contracts"):
            code = max(code, proof_part(pid, args.tier, plan, cov))
        if plan.get("bounded"):
            code = max(code, bounded_part(pid, args.tier, seed, plan, cov))
        if plan.get("other"):
            mod = importlib.import_module(plan["other"])
            code = max(code, mod.run(pid=pid, tier=args.tier, seed=seed, cov=cov))
    except Exception:
        traceback.print_exc()
        print(f"CHECKER-ERROR property={pid}")
        return 3
    if cov.get("violations", 0) and code == 2:
        code = 1        # a violation was found and reported; other obligations being undecided does not hide it
    wall = time.time() - t0
    level = plan["level"]
    coverage = dict(cov)
    coverage["checker_cmd"] = f"./check {pid} --tier {args.tier}"
    coverage["trusted_base"] = TRUSTED_BASE + plan.get("trusted_extra", [])
    samples = [o["name"] for o in cov.get("obligation_list", [])][:12]
    ev_n, distinct = 0, 0
    rules = []
    for b in cov.get("bounded", []):
        ev_n += b.get("evaluations", 0)
        distinct += b.get("distinct_nontrivial", 0)
        samples.extend(b.get("samples", [])[:6])
        if b.get("rule"):
            rules.append(b["rule"])
    if cov.get("other_samples"):
        samples.extend(cov["other_samples"][:10])
    coverage["samples"] = samples or ["(none)"]
    if level in ("exploration",) or ev_n:
        coverage["evaluations"] = ev_n
        coverage["distinct_nontrivial"] = distinct
        coverage["rule"] = " || ".join(rules)
    if level == "other" and "explanation" not in coverage:
        coverage["explanation"] = plan.get("explanation", "")
    evidence = {
        "property_id": pid, "tier": args.tier, "seed": seed, "level": level, "coverage": coverage,
        "assumptions": plan.get("assumptions", []) + cov.get("assumed_contracts", []),
        "wall_s": round(wall, 2), "violations": cov.get("violations", 0),
    }
    os.makedirs(os.path.join(ROOT, "evidence"), exist_ok=True)
    with open(os.path.join(ROOT, "evidence", f"{pid}.json"), "w", encoding="utf-8") as f:
        json.dump(evidence, f, indent=1, default=str)
    print(f"[{pid}] tier={args.tier} exit={code} obligations={cov.get('obligations', 0)} discharged={cov.get('discharged', 0)} "
          f"bounded_evaluations={ev_n} wall={wall:.1f}s")
    return code


if __name__ == "__main__":
    sys.exit(main())
