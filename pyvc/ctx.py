"""Per-path context: path condition, decisions, obligations, fresh symbols, heap write log."""
from __future__ import annotations

import os
from dataclasses import dataclass, field
from typing import Any, Callable, Optional

import z3

from .values import (BVW, F64, SBool, SDict, SFloat, SInt, SList, SObj, SOpaque, SSet, SStr, Unsupported,
                     reset_oids)


class PathInfeasible(Exception):
    pass


class PathStop(Exception):
    """Deliberate end of a path (e.g. after an iteration of a loop cut by its invariant)."""


@dataclass
class Obligation:
    name: str
    assumptions: list
    goal: Any
    path: tuple
    kind: str = "post"  # post | inv_init | inv_pres | call_pre | frame | cover | canary | lemma
    expect: str = "unsat"  # cover/canary obligations expect 'sat'
    note: str = ""


@dataclass
class PathResult:
    decisions: tuple
    obligations: list
    outcome: Any
    events: list
    error: Optional[str] = None


FEAS_TIMEOUT_MS = int(os.environ.get("PYVC_FEAS_MS", "400"))


class Ctx:
    def __init__(self, prefix: list[bool], tag: str = ""):
        reset_oids()
        self.prefix = list(prefix)
        self.pos = 0
        self.alternatives: list[list[bool]] = []
        self.pc: list = []
        self.obligations: list[Obligation] = []
        self.counter = 0
        self.events: list = []
        self.writes: list[tuple[Any, str, Any]] = []  # heap write log (object, field, value)
        self.tag = tag
        self.solver = z3.Solver()
        self.solver.set("timeout", FEAS_TIMEOUT_MS)
        self.has_fp = False
        self.notes: list[str] = []
        self.dropped: list[str] = []
        self.assumed: list[str] = []
        self.ghost: dict[str, Any] = {}
        self.loop_frames: list = []
        from .values import FloatMode
        FloatMode.cx = self

    # ---- fresh symbols ---------------------------------------------------------------------------
    def _name(self, base: str) -> str:
        self.counter += 1
        return f"{base}!{self.counter}"

    def int(self, base: str = "i", lo: Optional[int] = None, hi: Optional[int] = None, named: bool = False) -> SInt:
        t = z3.Int(base if named else self._name(base))
        if lo is not None:
            self.assume(t >= lo)
        if hi is not None:
            self.assume(t <= hi)
        return SInt(t, lo, hi)

    def bvint(self, base: str, lo: int, hi: int, named: bool = True) -> SInt:
        """Machine-ranged int lo <= x <= hi (for ints that flow into float arithmetic)."""
        from .values import FloatMode
        if FloatMode.mode == "real":
            return self.int(base, lo, hi, named=named)
        t = z3.BitVec(base if named else self._name(base), BVW)
        self.assume(z3.And(t >= z3.BitVecVal(lo, BVW), t <= z3.BitVecVal(hi, BVW)))  # signed compare
        return SInt(t, lo, hi)

    def bool(self, base: str = "b", named: bool = False) -> SBool:
        return SBool(z3.Bool(base if named else self._name(base)))

    def float(self, base: str = "f", named: bool = False) -> SFloat:
        self.has_fp = True
        from .values import FloatMode
        if FloatMode.mode == "real":
            return SFloat(z3.Real(base if named else self._name(base)))
        return SFloat(z3.FP(base if named else self._name(base), F64))

    def str(self, base: str = "s", named: bool = False, kind: str = "str") -> SStr:
        return SStr(z3.String(base if named else self._name(base)), kind)

    def const(self, base: str, sort, named: bool = False):
        return z3.Const(base if named else self._name(base), sort)

    def func(self, base: str, *sorts, named: bool = False):
        return z3.Function(base if named else self._name(base), *sorts)

    def opaque(self, kind: str, base: Optional[str] = None, **attrs) -> SOpaque:
        ident = z3.Int(self._name(base or kind))
        return SOpaque(kind, ident, attrs)

    def obj(self, cls: str, fresh: bool = False, label: str = "", **fields) -> SObj:
        o = SObj(cls, fields, fresh=fresh, label=label)
        o.ident = z3.Int(self._name(label or cls))
        return o

    def opaque_list(self, length, label: str = "", elem: Optional[Callable] = None, fresh: bool = False) -> SList:
        return SList(None, length=length, elem=elem, fresh=fresh, label=label)

    def int_set(self, base: str, fresh: bool = False) -> SSet:
        return SSet(z3.Array(self._name(base), z3.IntSort(), z3.BoolSort()), fresh=fresh, label=base)

    def int_dict(self, base: str, value: Optional[Callable[[Any], Any]] = None, fresh: bool = False) -> SDict:
        return SDict(z3.Array(self._name(base), z3.IntSort(), z3.BoolSort()), value, fresh=fresh, label=base)

    # ---- path condition --------------------------------------------------------------------------
    def assume(self, f) -> None:
        if isinstance(f, bool):
            if not f:
                raise PathInfeasible()
            return
        if isinstance(f, SBool):
            f = f.term
        self.pc.append(f)
        self.solver.add(f)

    def oblige(self, name: str, goal, kind: str = "post", note: str = "", expect: str = "unsat") -> None:
        if isinstance(goal, SBool):
            goal = goal.term
        if isinstance(goal, bool):
            goal = z3.BoolVal(goal)
        self.obligations.append(
            Obligation(name, list(self.pc), goal, tuple(self.prefix[: self.pos]), kind=kind, note=note, expect=expect))

    def check_now(self, goal) -> bool:
        """quick entailment test used for pruning only (never for discharging an obligation)"""
        self.solver.push()
        self.solver.add(z3.Not(goal))
        r = self.solver.check()
        self.solver.pop()
        return r == z3.unsat

    def _feasible(self, cond) -> bool:
        self.solver.push()
        self.solver.add(cond)
        r = self.solver.check()
        self.solver.pop()
        return r != z3.unsat  # unknown counts as feasible (sound: an infeasible path only yields trivial VCs)

    def branch(self, cond, label: str = "") -> bool:
        """Decide a symbolic condition on this path; registers the other side for later exploration."""
        if isinstance(cond, bool):
            return cond
        if isinstance(cond, SBool):
            cond = cond.term
        c = z3.simplify(cond)
        if z3.is_true(c):
            return True
        if z3.is_false(c):
            return False
        if self.pos < len(self.prefix):
            d = self.prefix[self.pos]
        else:
            t_ok = self._feasible(c)
            f_ok = self._feasible(z3.Not(c))
            if t_ok and f_ok:
                d = True
                self.alternatives.append(self.prefix[: self.pos] + [False])
            elif t_ok:
                d = True
            elif f_ok:
                d = False
            else:
                raise PathInfeasible()
            self.prefix.append(d)
        self.pos += 1
        self.assume(c if d else z3.Not(c))
        return d

    def choose(self, label: str = "choice") -> bool:
        """Non-deterministic boolean choice (e.g. 'the callee raises')."""
        return self.branch(z3.Bool(self._name(label)))

    # ---- heap log --------------------------------------------------------------------------------
    def log_write(self, obj, fieldname: str, value=None) -> None:
        self.writes.append((obj, fieldname, value))
        for lf in self.loop_frames:
            lf.note_write(obj, fieldname)

    def event(self, kind: str, value=None) -> None:
        self.events.append((kind, value))

    def drop(self, what: str) -> None:
        if what not in self.dropped:
            self.dropped.append(what)

    def assume_note(self, what: str) -> None:
        if what not in self.assumed:
            self.assumed.append(what)


def explore(run_path: Callable[[Ctx], Any], max_paths: int = 4000) -> list[PathResult]:
    """Run `run_path` once per feasible decision prefix."""
    work: list[list[bool]] = [[]]
    results: list[PathResult] = []
    while work:
        prefix = work.pop()
        cx = Ctx(prefix)
        outcome = None
        err = None
        try:
            outcome = run_path(cx)
        except PathInfeasible:
            err = "infeasible"
        except PathStop:
            pass
        work.extend(cx.alternatives)
        results.append(PathResult(tuple(cx.prefix[: cx.pos]), cx.obligations, outcome, cx.events, err))
        results[-1].cx = cx  # type: ignore[attr-defined]
        if len(results) > max_paths:
            raise Unsupported(f"more than {max_paths} paths")
    return results
