"""Which machinery decides which property (single source for ./check and MANIFEST.json)."""

TRUSTED_BASE = [
    "pyvc: my own ast->SMT symbolic executor; its encoding of the Python subset (ints as mathematical integers, "
    "machine-ranged ints as 64-bit vectors with static bounds, objects with concrete identity per path, "
    "lists/dicts/sets as abstract values, exceptions as path ends) is trusted",
    "float model 'ieee': z3/cvc5 FloatingPoint(11,53) with round-nearest-even = CPython float; int/int true division = "
    "correctly rounded quotient (operands < 2**53)",
    "float model 'real': the standard model of floating-point arithmetic (|fl(e)-e| <= 2^-53|e| + 2^-1075, sign and "
    "integer exactness, monotone rounding against declared representable anchors); only `unsat` is used from it",
    "z3 5.1 and cvc5 1.0.3 (an obligation counts as discharged when either answers unsat)",
    "logging calls (LOGGER.*, print_exception, print, warnings.warn) are treated as no-ops that do not raise",
    "FANDANGO_RAISE_ALL_EXCEPTIONS is unset (production behaviour)",
]

PLAN = {
    "C20": {
        "level": "proof",
        "contracts": ["contracts.io_buffer"],
        "bounded": ["bounded.c20"],
    },
    "C01": {
        "level": "proof",
        "contracts": ["contracts.fuzz", "contracts.search"],
        "bounded": ["bounded.c01"],
        "assumptions": [
            "precondition of every fuzz() contract: the Gmutator probabilities of the node's settings are 0 / False (the default); with a positive probability the code deliberately produces non-derivations",
            "`Derives`, `CatUpTo`, `RepUpTo` are inductive predicates given by their introduction rules (the definition of 'derivation'); the rules enter as assumptions instantiated at the terms of each proof",
            "exrex.getone(p) returns a text matching p (external library); bytes regexes are read through Latin-1 on both sides, as Terminal.check does",
            "distance_to_completion and node budgets are abstracted to unconstrained reals (no NaN): they steer which expansion is chosen, never what counts as a derivation",
            "random.random / randint / choice are non-deterministic choices within their documented ranges",
            "structural induction over the call depth: each fuzz() is checked against the abstract contract of its callees; termination of the recursion is not claimed",
            "crossover, mutation, repetition repair and fix_individual are NOT under contract (bounded half only); of the repair of computed repetition counts only DerivationTree.find_by_origin's first statement is (prefix contract: every child and every source is searched, whatever its symbol -- the loop over the node's own tags that follows is outside the engine's reach)",
        ],
    },
    "C16": {
        "level": "exploration",
        "contracts": ["contracts.fuzz"],
        "bounded": ["bounded.c16"],
        "assumptions": [
            "the value of a generator is whatever Grammar.generate_string (the user's expression, run through eval) returns; Grammar.parse is the subject of C04",
            "the tree returned by a recursive replace_multiple call is named by a function of the node it is called on (each node is visited once per call)",
            "only NonTerminalNode.fuzz (generator branch), Grammar.generate and replace_multiple are under contract; parsing, copying and the search operators are covered by the bounded half only",
        ],
    },
    "C15": {
        "level": "proof",
        "contracts": ["contracts.printer"],
        "bounded": ["bounded.c15"],
    },
    "C19": {
        "level": "exploration",
        "bounded": ["bounded.c19"],
    },
    "C08": {
        "level": "exploration",
        "bounded": ["bounded.c08"],
    },
    "C13": {
        "level": "exploration",
        "bounded": ["bounded.c13"],
    },
    "C04": {
        "level": "exploration",
        "contracts": ["contracts.fuzz"],
        "bounded": ["bounded.c04"],
    },
    "C05": {
        "level": "exploration",
        "bounded": ["bounded.c05"],
    },
    "C10": {
        "level": "proof",
        "contracts": ["contracts.tree"],
        "bounded": ["bounded.c10"],
    },
    "C09": {
        "level": "proof",
        "contracts": ["contracts.tree_value"],
        "bounded": ["bounded.c09"],
    },
    "C12": {
        "level": "proof",
        "contracts": ["contracts.parser_cache"],
        "bounded": ["bounded.c12"],
    },
    "C06": {
        "level": "exploration",
        "contracts": ["contracts.parser_state"],
        "bounded": ["bounded.c06_termination"],
    },
    "C18": {
        "level": "other",
        "other": "props.c18",
    },
    "C07": {
        "level": "proof",
        "contracts": ["contracts.evaluation", "contracts.constraints", "contracts.search"],
        "bounded": ["bounded.c07"],
        "lemmas": True,
        "assumptions": [
            "selector contracts: match lists are sequences of tree identities in document order; FindS / FindDirectS / flat-maps are given by their defining clauses, instantiated at the loop index",
            "DerivationTree.find_all_trees (recursive) is an assumed contract; ItemSearch, SelectiveSearch, AnnotatedSearch and the text->search translation are covered by the bounded half only",
            "the fitness overrides use quantify()/find() through an abstract result list; its link to the selector contracts is by name, not mechanised",
        ],
    },
    "C11": {
        "level": "proof",
        "contracts": ["contracts.evaluation", "contracts.constraints"],
        "bounded": ["bounded.c11"],
        "lemmas": True,
    },
    "C02": {
        "level": "proof",
        "contracts": ["contracts.evaluation", "contracts.constraints"],
        "bounded": ["bounded.c02_c03"],
        "lemmas": True,
    },
    "C03": {
        "level": "proof",
        "lemmas": True,
        "contracts": ["contracts.evaluation", "contracts.search_loop"],
        "bounded": ["bounded.c02_c03"],
    },
}

MANIFEST_TEXT = {
    "C20": {
        "text": "PARTIAL CLAIM: receive-buffer lemmas only. Proved on the real code for all buffers, messages and indices: "
                "FandangoIO.add_receive appends the message's characters/bytes in order, one fragment each, tagged (sender, "
                "receiver), leaving earlier entries untouched; clear_by_party keeps exactly the entries that are not (from the "
                "party and at an index <= to_idx), unchanged; _find_next_fragment returns the first index >= start with that "
                "sender. Everything else in C20 (the run loop, threads, sockets, timeouts, arrival interleavings, validity of the "
                "interaction tree) is NOT decided by this family and not claimed as proved. Bounded stand-in (never counted as "
                "proved): scripted in-process protocol runs of five specs (request/reply/ack with constraints across messages; two "
                "remote parties; one message type addressed to several parties; pipelined remote messages; a remote message with a "
                "computed repetition count) over peer behaviours (valid, wrong type, constraint violating, garbage, truncated) and "
                "fragmentations / interleavings of the remote data, judged against recognisers of the protocols: recorded "
                "interaction is a correctly attributed prefix of the protocol, sends equal the recorded fuzzer messages, recorded "
                "remote data equals delivered data, bad remote messages are never recorded.",
        "note": "sequential reasoning: `with self.receive_lock` is treated as transparent; get_full_fragments is not covered; the "
                "property's schedule/fault quantifiers are outside contract-based deductive verification here.",
        "technique": "contract-based deductive verification of three buffer functions (sequence theory, loop invariants), z3+cvc5; bounded run-time contract check of scripted protocol runs as a stand-in for the run loop",
    },
    "C15": {
        "text": "Printer contracts on the real format_as_spec of Star/Plus/Option/Repetition/Alternative/NonTerminalNode by ghost "
                "binding level (ATOM < POSTFIX < SEQ < ALT, from the reader's grammar): a postfix operator prints its operand as a "
                "single symbol (grouped unless literal, <nonterminal> or parenthesised alternative) for every operand class, open "
                "upper bounds stay open, party annotations are printed; all VCs discharged. Bounded half: print -> re-read -> "
                "compare bounded languages and constraint verdicts over ~40 specs and literals with quotes/backslashes/non-ASCII.",
        "note": "TerminalNode/Concatenation printers and the reader's grammar are assumed; quoting of literals and constraint "
                "printing are only in the bounded half (4 recorded findings there).",
        "technique": "contract-based deductive verification (string theory, ghost binding level) + bounded round-trip check",
    },
    "C01": {
        "text": "PROOF for the grammar-fuzzing core, BOUNDED for the search operators. Proved on the real source, for all grammars, "
                "budgets and random choices: every fuzz() of language/grammar/nodes (Concatenation, Alternative, Repetition incl. "
                "{n,} with the global cap, Plus, Option, TerminalNode for literals / str regexes / bytes regexes, NonTerminalNode for "
                "plain and generator rules) appends to the parent exactly a derivation of its node -- Derives(node, appended "
                "children), an inductive predicate whose introduction rules are the definition of 'children spell out one expansion, "
                "repetition counts within bounds' -- and Grammar.fuzz returns the detached derivation of the start symbol. Each "
                "function is checked against the callee's contract only (structural induction on call depth, partial correctness). "
                "Bounded half (not counted as proved): trees returned by Grammar.fuzz and by Fandango.fuzz (evolutionary search, "
                "repair, crossover, mutation, generators) over the spec family are checked by an independent derivation checker.",
        "note": "precondition: the Gmutator probabilities of the nodes' settings are 0 (default; positive values deliberately "
                "produce non-derivations); assumed: exrex.getone returns a match, Grammar.generate / is_use_generator / "
                "generator_dependencies / __getitem__ / __contains__, NonTerminalNode(...) construction, set_all_read_only; float "
                "budgets abstracted to unconstrained reals (no NaN); replace_multiple, crossover, mutation, repetition repair "
                "are covered by the bounded half only; termination of the recursion not claimed.",
        "technique": "contract-based deductive verification: own VC generator over the real source (sequence theory, loop invariants, "
                     "inductive derivation predicate), z3+cvc5; plus a bounded run-time contract check of the search pipeline",
    },
    "C16": {
        "text": "Proved on the real source (generator branch of NonTerminalNode.fuzz, for all grammars and budgets): the child "
                "appended for a generator rule IS the tree returned by grammar.generate(symbol, parameters), the parameters being "
                "exactly one fuzzed derivation per generator dependency in iteration order; its children are marked read-only and it "
                "carries the node's parties. Grammar.generate itself: the tree returned is the parse, under the generator's symbol, "
                "of the value the generator expression returned; a value of another type raises TypeError, a value that does not "
                "parse raises FandangoParseError (nothing is ever put in its place); its sources are deep copies of the argument "
                "trees. DerivationTree.replace_multiple on a generator-defined node: the generator is re-run (on the NEW argument "
                "trees) if and only if one of the recorded argument trees changed (unless the node sits below another generator's "
                "output), sources are re-derived iff only a child changed. The rest of C16 (regeneration when arguments change, sources after parsing/copying, "
                "search operators) is a bounded stand-in: in every tree emitted by the search for 7 generator specs (constant, random, one and two "
                "arguments, nested, next to constraints and equality repairs) each generator-defined node carries a value the "
                "generator returns for the argument values recorded in the node's sources, and its children are read-only.",
        "note": "category stays exploration: only the generator branch of NonTerminalNode.fuzz is under a verified contract "
                "(Grammar.generate_string = the user's generator expression, Grammar.parse (C04), is_use_generator, generator_dependencies, set_all_read_only, deepcopy assumed); the oracle of the bounded "
                "half recomputes the known generator functions of the specs; bounded over specs and seeds.",
        "technique": "contract-based deductive verification of NonTerminalNode.fuzz (generator branch) Grammar.generate and replace_multiple (generator path) + bounded run-time contract check with a recomputing oracle",
    },
    "C04": {
        "text": "One proved side lemma: IterativeParser._collapse returns trees without internal helper symbols (<__...>): a helper "
                "node is replaced by its collapsed children, any other node is rebuilt with its own symbol over its collapsed "
                "children (recursion by callee contract). Everything else is a bounded stand-in, not a proof: the postcondition of Grammar.parse_forest / Fandango.parse (every yielded tree is a "
                "derivation per an independent checker over the grammar IR, no helper symbols, serialisation == input, API trees "
                "satisfy constraints re-evaluated by fresh constraint objects) is checked at run time on the real functions over 29 "
                "specs x (words of an independently enumerated language, single-edit near misses).",
        "note": "no contract-level proof of the table-driven Earley parser is within reach of the VC generator; bound: words up to 5 "
                "atoms (11 for bit specs); parse calls over 20 s are left to C06.",
        "technique": "bounded run-time contract check of the real parser against an independent derivation checker; one side lemma (_collapse) by contract-based deductive verification",
    },
    "C05": {
        "text": "Bounded stand-in: for fuzzed trees of 29 specs parse(serialise(t)) yields a tree with identical serialisation and "
                "cli.utils.validate does not raise; every word of the independently enumerated bounded language is accepted. "
                "Three specs fail (recorded known findings: empty-matching regex, non-ASCII text next to bits, validate on text+bits).",
        "note": "bounded enumeration (words up to 5 atoms), seeds from VERIF_SEED; no proof.",
        "technique": "bounded run-time contract check (round trip) with an independent language enumerator",
    },
    "C08": {
        "text": "Bounded stand-in: the text Fandango would exec for a Python snippet (real front end: parse_tree, splitter, "
                "PythonProcessor, ast.unparse) re-parsed by CPython must have the same AST as CPython's parse of the original, or "
                "the snippet must be rejected with an error; ~850 snippets (expression forms, statement forms, nesting depth 2, "
                "fragments of the repository's .fan files). Five kinds of silent alteration remain (known findings).",
        "note": "enumeration over hand-listed construct forms, not a proof; constant-only f-strings are treated as equal to the plain string.",
        "technique": "bounded run-time contract check (AST preservation) over an enumerated corpus",
    },
    "C10": {
        "text": "Per-function contracts on the real tree code, all VCs discharged for any number of children (loop invariants over "
                "array-backed child fields): set_children/add_child establish parent links and call invalidate_hash; "
                "invalidate_hash clears the cached hash, recomputes size = 1 + sum of child sizes and recurses to the ancestors; "
                "symbol/sender/recipient setters invalidate; __hash__ covers symbol, sender, recipient and the children's hashes "
                "and is cached; __getitem__ (index and slice) writes no field of a pre-existing node.",
        "note": "composition of the local facts into the global invariant over arbitrary operation sequences is not mechanised; "
                "deepcopy, replace_multiple, mutation and crossover are not yet under contract; child.__hash__ is assumed to only "
                "fill the child's own cache; hash collisions excluded by assumption.",
        "technique": "contract-based deductive verification: own VC generator, heap arrays per child list, loop invariants, z3",
    },
    "C13": {
        "text": "Bounded stand-in: on the real IterativeParser, for every word (1..7 units) of 26 specs and ALL compositions into "
                "fragments, the complete parses after the last fragment equal those of the whole word; can_continue() is False "
                "only if no bounded-language word extends the prefix.",
        "note": "exhaustive over compositions, bounded over words (6/40 per spec); no proof (same reason as C04).",
        "technique": "bounded run-time contract check, exhaustive over fragmentations of short words",
    },
    "C19": {
        "text": "Bounded stand-in: PacketForecaster.predict(history) must offer exactly the follow set of the message-level "
                "grammar and report completeness exactly for full interactions; follow sets come from an independent "
                "enumeration of the message-level language over the grammar IR; 15 protocol specs, all histories up to depth 4/6.",
        "note": "bounded; histories are recorded as trees by an INCOMPLETE parse as in the repository's own tests; slicing to a "
                "subset of parties (slice_parties) is not exercised.",
        "technique": "bounded run-time contract check against an independent follow-set oracle",
    },
    "C06": {
        "text": "Termination of the Earley work-list is reduced to a proof obligation on the real ParseState.__eq__/__hash__ "
                "(equal states must hash equally, else Column.add admits unboundedly many states): generated and sent to the "
                "solver on every run - it FAILS on this tree and is a recorded known finding (D6). Everything else about "
                "termination is only a bounded stand-in: each parse request of a 50-grammar family runs under a wall-clock "
                "budget in a child process. Evidence level is therefore exploration, not proof.",
        "note": "bounded part: finite family, budget = max(20 s, 12 x calibration); grammars of the known class are represented "
                "by 8 listed witnesses; the variant argument for the work-list loop itself is not mechanised.",
        "technique": "contract obligation (hash/eq consistency) over the real source via own VC generator + bounded run-time check under a budget",
    },
    "C09": {
        "text": "Contracts on the real TreeValue.append/_reduce_trailing_bits/to_bytes/to_string/to_bits and "
                "DerivationTree.value: bit content of the result = concatenation of the operands' bit contents, raises exactly "
                "when text/bytes follow a non-aligned run of bits, the three views agree, the operand `other` is not written, "
                "value() is the in-order fold of the children (loop invariant). All VCs discharged for all payloads (symbolic strings / "
                "bit sequences), per kind combination. Bounded half (not counted as proved): the three views of trees built from leaf "
                "sequences over text / bytes / bit runs in up to five nestings against a reference computed from the leaf list alone; "
                "it shows that the per-function contracts do NOT compose to nesting independence when a subtree is unaligned by itself "
                "(recorded known finding).",
        "note": "codecs (utf-8, latin-1, bit packing, '08b' rendering) are uninterpreted functions with assumed homomorphism / "
                "inverse laws applied as ground instances; three comprehension expressions in to_bits and the 0/1 assertion in "
                "__init__ get their meaning from the contract (expr_hooks); terminal leaves' stored values and to_int are not covered.",
        "technique": "contract-based deductive verification: own VC generator over the real source, sequence theory, z3; plus a bounded run-time check against a leaf-list reference",
    },
    "C12": {
        "text": "Object invariant of the parser's forest cache (an entry holds the complete forest of its key) as an obligation "
                "at EVERY yield of the real generator Parser.parse_forest and at return, plus ownership (a yielded tree is never "
                "the cached object) and one yielded tree per forest entry on hit and miss path; all discharged. "
                "Bounded half (not counted as proved): random request histories (forest/first/abandoned/parse_multiple/fuzz, modes, "
                "str and bytes renderings, other start symbols, damaged hand-outs) on one shared grammar object compared with "
                "the same request on a new object, over the spec family and three history-sensitive specs.",
        "note": "the iterative (Earley) parser is an assumed contract: the forest is a function of (word, start, mode, hookin_parent); "
                "deepcopy/collapse/to_derivation_tree return new trees (assumed); Repetition.iteration counters only feed "
                "origin tags, outside tree equality.",
        "technique": "contract-based deductive verification: generator invariants at yield points, own VC generator, z3; plus a bounded model-based history check",
    },
    "C18": {
        "text": "Frame condition over module- and class-level state decided by effect inference over the AST of the whole "
                "package on every run: nothing written by code reachable from the Fandango entry points is also read by "
                "reachable code, except an allowed list; the one violation on this tree (nodes.MAX_REPETITIONS) is a recorded "
                "known finding with a native replay.",
        "note": "sound for the listed syntactic write forms (global, module.attr, Class.attr, in-place mutation of module-level "
                "containers / mutable class attributes / mutable defaults); blind to setattr/globals()/exec; call graph by "
                "simple name (over-approximation); global `random` state excluded by the property's 'fixed seeds'.",
        "technique": "frame condition by effect inference over the real source (AST), no solver",
    },
    "C07": {
        "text": "Verdict algebra proved function by function on the real source: every fitness() override (expression, "
                "comparison, conjunction, disjunction, implication, forall, exists) returns a result whose `success` equals "
                "the documented semantics stated over ghost per-combination / per-child verdicts (a raising combination "
                "fails; lazy = eager; no match = success), keeps the representation invariant 0<=solved<=total, total>=1, "
                "success<=>solved==total, and does not write the caller's scope/locals dicts. Selector classes (contracts/search.py), "
                "proved against the documented match lists as sequences in document order: <sym> (scope binding first, else every "
                "match), base.attr and base..attr (flat-maps of find_direct / find over the base's matches, find and find_direct "
                "variants), *base and |base| (one container with all matches), quantify over *base (one container per match), "
                "find_all, the default quantify, DerivationTree.find_direct_trees. Bounded half: 38 constraint programs x all "
                "words of two grammars against a reference evaluator (covers the text->search translation, ItemSearch, "
                "SelectiveSearch, which are not under contract).",
        "note": "pyvc encoding trusted; GeneticBase.combinations, Container.evaluate/get_trees, Constraint.eval (user Python), "
                "Comparison.compare and the recursive DerivationTree.find_all_trees are assumed contracts; the fitness overrides use "
                "quantify through an abstract result list (the link to the selector contracts is by name, not mechanised); "
                "RepetitionBoundsConstraint.fitness is not verified against the abstract contract.",
        "technique": "contract-based deductive verification: own VC generator over the real source, loop invariants, induction lemmas, z3+cvc5",
    },
    "C11": {
        "text": "Memo soundness decomposed into proved obligations: key completeness (get_hash covers root, tree, scope "
                "content, locals content), every value stored in self.cache carries the verdict of its key and the "
                "representation invariant (memo invariant, per override), no fitness() writes the caller's dicts (read "
                "frame), and Evaluator.evaluate_individual returns the stored tuple on a hit without yielding. Bounded half (not "
                "counted as proved): long-lived constraint objects of 7 specs (incl. computed repetition bounds, nested quantifiers, "
                "raising expressions) evaluated repeatedly and interleaved over a pool of trees, each outcome compared with that of "
                "brand-new objects.",
        "note": "That equal keys imply equal arguments (no 64-bit hash collision) is an explicit assumption "
                "`hash_key_faithful`; tree-hash staleness is the subject of C10; determinism of user Python assumed.",
        "technique": "contract-based deductive verification: own VC generator over the real source, z3+cvc5",
    },
    "C02": {
        "text": "Every VC generated from the current source of ConstraintFitness.fitness, Evaluator._evaluate_constraints and "
                "Evaluator.evaluate_individual is discharged: a tree is yielded only if every hard constraint and every "
                "repetition bound returned success without raising (for all counts < 2^W and per-constraint totals <= 2^G, "
                "W/G recorded in the evidence). Proof for all inputs in that range, no iteration bound. "
                "Bounded half (not counted as proved): the same clause checked at run time on the real "
                "_evaluate_constraints over all lists of <= 4 stub constraints and on evaluate_individual over the words of "
                "two grammars against a reference evaluator, so a refactoring that unhooks the loop contract is still refuted.",
        "note": "pyvc encoding of Python trusted; per-constraint fitness() implementations enter through the abstract "
                "Constraint.fitness contract; evaluate_soft_constraints, DerivationTree.get_root/__hash__ assumed; "
                "float reasoning in the relaxed standard model for the '<1 stays <1' direction.",
        "technique": "contract-based deductive verification: own VC generator over the real source, z3+cvc5; plus a bounded run-time contract check",
    },
    "C03": {
        "text": "Postcondition 'all hard constraints and repetition bounds satisfied, key unseen, no soft constraints => the "
                "individual is yielded' of the real Evaluator.evaluate_individual, discharged in exact IEEE-754 binary64 "
                "for all h, r < 2^W; the loop of _evaluate_constraints by invariant (exact sum of ones). "
                "Bounded half (not counted as proved): all-satisfied => 1.0 / emitted, on stub lists and real specs.",
        "note": "pyvc encoding of Python trusted; z3/cvc5 FloatingPoint theory = CPython float arithmetic; counts bounded "
                "by 2^W (W=8 quick, 10 thorough).",
        "technique": "contract-based deductive verification: own VC generator over the real source, z3+cvc5 (FP theory); plus a bounded run-time contract check",
    },
}

NOT_APPLICABLE = {
    "C14": "cross-language equivalence of a generated C++ parser and its Python twin: no contract language or verifier "
           "available here spans both; running both on a corpus would be differential testing, a different family",
    "C17": "two-process reproducibility is a hyperproperty of whole runs, not expressible as a function contract; a "
           "syntactic ban on nondeterminism sources would raise false alarms",
}
for _i in range(1, 21):
    _pid = f"C{_i:02d}"
    if _pid not in PLAN and _pid not in NOT_APPLICABLE:
        NOT_APPLICABLE[_pid] = "check not built yet in this session (planned in DESIGN.md); not claimed until its check exists"
