"""Lemma library: facts about sums over index ranges, proved by induction (base + step VC) on every run with
uninterpreted summands, then instantiated at use sites (sound: the summands there are instances)."""
from __future__ import annotations

import z3

from .smt import VC, to_smt2

I = z3.IntSort()


def _sum_axioms(S, f):
    j = z3.Int("j!ax")
    return [S(0) == 0, z3.ForAll([j], z3.Implies(j >= 0, S(j + 1) == S(j) + f(j)), patterns=[S(j + 1)])]


def lemma_vcs() -> list:
    """VCs of the lemma library (kind 'lemma')."""
    a = z3.Function("lem_a", I, I)
    b = z3.Function("lem_b", I, I)
    Sa = z3.Function("lem_Sa", I, I)
    Sb = z3.Function("lem_Sb", I, I)
    n = z3.Int("lem_n")
    j = z3.Int("lem_j")
    ax = _sum_axioms(Sa, a) + _sum_axioms(Sb, b)

    def le_upto(m):
        return z3.ForAll([j], z3.Implies(z3.And(j >= 0, j < m), a(j) <= b(j)))

    def eq_upto(m):
        return z3.ForAll([j], z3.Implies(z3.And(j >= 0, j < m), a(j) == b(j)))

    def P(m):
        return z3.Implies(le_upto(m), z3.And(Sa(m) <= Sb(m), (Sa(m) == Sb(m)) == eq_upto(m)))

    def ge1_upto(m):
        return z3.ForAll([j], z3.Implies(z3.And(j >= 0, j < m), b(j) >= 1))

    def Q(m):
        return z3.Implies(ge1_upto(m), Sb(m) >= m)

    def nonneg_upto(m):
        return z3.ForAll([j], z3.Implies(z3.And(j >= 0, j < m), a(j) >= 0))

    def R(m):
        return z3.Implies(nonneg_upto(m), Sa(m) >= 0)

    def unit_upto(m):
        return z3.ForAll([j], z3.Implies(z3.And(j >= 0, j < m), z3.And(a(j) >= 0, a(j) <= 1)))

    def ones_upto(m):
        return z3.ForAll([j], z3.Implies(z3.And(j >= 0, j < m), a(j) == 1))

    def U(m):
        return z3.Implies(unit_upto(m), z3.And(Sa(m) >= 0, Sa(m) <= m, (Sa(m) == m) == ones_upto(m)))

    # float sum of values in {0.0, 1.0} in the relaxed model: fl is any function that is exact on integers <= 2^53
    R_ = z3.RealSort()
    fl = z3.Function("lem_fl", R_, R_)
    v = z3.Function("lem_v", I, R_)
    FS = z3.Function("lem_FS", I, R_)
    C = z3.Function("lem_C", I, I)
    kq = z3.Int("lem_k")

    def fl_exact(k):        # rounding is exact on the integers of magnitude <= 2^53 (every such real is ToReal(k) for an Int k)
        return z3.Implies(z3.And(k <= 2 ** 53, k >= -(2 ** 53)), fl(z3.ToReal(k)) == z3.ToReal(k))

    fax = [z3.ForAll([kq], fl_exact(kq)),
           FS(0) == 0, C(0) == 0,
           z3.ForAll([j], z3.Implies(j >= 0, FS(j + 1) == fl(FS(j) + v(j))), patterns=[FS(j + 1)]),
           z3.ForAll([j], z3.Implies(j >= 0, C(j + 1) == C(j) + z3.If(v(j) == 1, 1, 0)), patterns=[C(j + 1)])]

    def zero_one_upto(m):
        return z3.ForAll([j], z3.Implies(z3.And(j >= 0, j < m), z3.Or(v(j) == 0, v(j) == 1)))

    def all_one_upto(m):
        return z3.ForAll([j], z3.Implies(z3.And(j >= 0, j < m), v(j) == 1))

    def F(m):
        return z3.Implies(z3.And(zero_one_upto(m), m <= 2 ** 53),
                          z3.And(FS(m) == z3.ToReal(C(m)), C(m) >= 0, C(m) <= m, (C(m) == m) == all_one_upto(m)))

    out = []
    out.append(VC("lemma:float_sum_of_zero_one_is_exact_count#base", to_smt2(fax, F(z3.IntVal(0))), kind="lemma", target="pyvc/lemmas.py"))
    # step: the axioms enter through their GROUND INSTANCES at n (a weaker hypothesis, so the VC proved is the stronger
    # one); with the quantified axioms the query is decided in 0.02 s or not at all depending on the solver's seed
    arg = FS(n) + v(n)
    fax_n = [fl_exact(C(n)), fl_exact(C(n) + 1), FS(n + 1) == fl(arg), C(n + 1) == C(n) + z3.If(v(n) == 1, 1, 0)]
    out.append(VC("lemma:float_sum_of_zero_one_is_exact_count#step", to_smt2(fax_n + [n >= 0, F(n)], F(n + 1)), kind="lemma", target="pyvc/lemmas.py"))
    for name, prop in (("sum_le_and_eq_iff_pointwise", P), ("sum_ge_count", Q), ("sum_nonneg", R), ("sum_of_zero_one", U)):
        out.append(VC(f"lemma:{name}#base", to_smt2(ax, prop(z3.IntVal(0))), kind="lemma", target="pyvc/lemmas.py"))
        out.append(VC(f"lemma:{name}#step", to_smt2(ax + [n >= 0, prop(n)], prop(n + 1)), kind="lemma", target="pyvc/lemmas.py"))
    return out


def sum_pair(cx, A: dict, B: dict) -> None:
    """instances of the lemmas for two recorded sums over the same range (A pointwise <= B is a hypothesis of the
    instance, not an assumption)"""
    n = A["n"]
    j = z3.Int(cx._name("lj"))
    rng = z3.And(j >= 0, j < n)
    fa, fb = A["fn"], B["fn"]
    le = z3.ForAll([j], z3.Implies(rng, fa(j) <= fb(j)))
    eq = z3.ForAll([j], z3.Implies(rng, fa(j) == fb(j)))
    cx.assume(z3.Implies(z3.And(n >= 0, le), z3.And(A["S"](n) <= B["S"](n), (A["S"](n) == B["S"](n)) == eq)))


def sum_ge_count(cx, B: dict) -> None:
    n = B["n"]
    j = z3.Int(cx._name("lj"))
    ge1 = z3.ForAll([j], z3.Implies(z3.And(j >= 0, j < n), B["fn"](j) >= 1))
    cx.assume(z3.Implies(z3.And(n >= 0, ge1), B["S"](n) >= n))


def sum_nonneg(cx, A: dict) -> None:
    n = A["n"]
    j = z3.Int(cx._name("lj"))
    nn = z3.ForAll([j], z3.Implies(z3.And(j >= 0, j < n), A["fn"](j) >= 0))
    cx.assume(z3.Implies(z3.And(n >= 0, nn), A["S"](n) >= 0))


def sum01(cx, A: dict) -> None:
    """count lemma: summands in {0,1} => 0 <= S(n) <= n and (S(n) == n <=> all summands are 1)"""
    n = A["n"]
    j = z3.Int(cx._name("lj"))
    rng = z3.And(j >= 0, j < n)
    unit = z3.ForAll([j], z3.Implies(rng, z3.And(A["fn"](j) >= 0, A["fn"](j) <= 1)))
    ones = z3.ForAll([j], z3.Implies(rng, A["fn"](j) == 1))
    cx.assume(z3.Implies(z3.And(n >= 0, unit), z3.And(A["S"](n) >= 0, A["S"](n) <= n, (A["S"](n) == n) == ones)))


def float_sum01(cx, A: dict):
    """instance of float_sum_of_zero_one_is_exact_count for a recorded float sum (relaxed model); returns the count function"""
    n = A["n"]
    j = z3.Int(cx._name("lj"))
    C = cx.func("CountOnes", I, I)
    rng = z3.And(j >= 0, j < n)
    zero_one = z3.ForAll([j], z3.Implies(rng, z3.Or(A["fn"](j) == 0, A["fn"](j) == 1)))
    all_one = z3.ForAll([j], z3.Implies(rng, A["fn"](j) == 1))
    cx.assume(z3.Implies(z3.And(n >= 0, n <= 2 ** 53, zero_one),
                         z3.And(A["S"](n) == z3.ToReal(C(n)), C(n) >= 0, C(n) <= n, (C(n) == n) == all_one)))
    return C
