"""Operators on symbolic values (Python semantics for the modelled subset)."""
from __future__ import annotations

import ast
from typing import Any

import z3

from .values import (BVW, F64, RNE, FloatMode, real_round, SBool, SEnumMember, SExc, SFloat, SInt, SList, SObj, SOpaque, SStr,
                     Unsupported, fpval, mk_bv, to_term_bool, to_term_float, to_term_int)


class PyRaise(Exception):
    def __init__(self, exc: SExc):
        super().__init__(exc.cls)
        self.exc = exc


def is_intlike(v) -> bool:
    return isinstance(v, (int, SInt, SBool)) and not isinstance(v, float)


def is_floatlike(v) -> bool:
    return isinstance(v, (float, SFloat))


def is_num(v) -> bool:
    return is_intlike(v) or is_floatlike(v)


def _concrete(v) -> bool:
    return isinstance(v, (int, float, bool, str, bytes, type(None), tuple)) and not _has_sym(v)


def _has_sym(v) -> bool:
    if isinstance(v, tuple):
        return any(_has_sym(x) for x in v)
    return isinstance(v, (SInt, SBool, SFloat, SStr, SObj, SOpaque, SList))


def _bounds(v):
    if isinstance(v, bool):
        return int(v), int(v)
    if isinstance(v, int):
        return v, v
    if isinstance(v, SInt):
        return v.lo, v.hi
    if isinstance(v, SBool):
        return 0, 1
    return None, None


def _bv_operand(v):
    if isinstance(v, SInt) and v.is_bv:
        return v.term
    if isinstance(v, bool):
        return mk_bv(int(v))
    if isinstance(v, int):
        return mk_bv(v)
    if isinstance(v, SBool):
        return z3.If(v.term, mk_bv(1), mk_bv(0))
    return None


def _any_bv(*vs) -> bool:
    return any(isinstance(v, SInt) and v.is_bv for v in vs)


LIMIT = 2 ** 62


def int_binop(op: str, a, b):
    """int (op) int for + - * with machine-ranged ints kept as bit-vectors when bounds allow."""
    if _any_bv(a, b):
        ta, tb = _bv_operand(a), _bv_operand(b)
        (alo, ahi), (blo, bhi) = _bounds(a), _bounds(b)
        if ta is not None and tb is not None and None not in (alo, ahi, blo, bhi):
            if op == "+":
                lo, hi, t = alo + blo, ahi + bhi, ta + tb
            elif op == "-":
                lo, hi, t = alo - bhi, ahi - blo, ta - tb
            else:
                cands = [alo * blo, alo * bhi, ahi * blo, ahi * bhi]
                lo, hi, t = min(cands), max(cands), ta * tb
            if -LIMIT < lo and hi < LIMIT:
                return SInt(t, lo, hi)
        # fall back to mathematical ints
    ta, tb = to_term_int(a), to_term_int(b)
    t = {"+": ta + tb, "-": ta - tb, "*": ta * tb}[op]
    return SInt(t)


def truediv(cx, a, b):
    """Python `/`.  int/int is the correctly rounded quotient; exact when both operands convert exactly."""
    if is_intlike(b):
        zero = cmp("==", b, 0)
    else:
        if isinstance(b, SFloat):
            zero = SBool(b.term == 0) if FloatMode.mode == "real" else SBool(z3.fpIsZero(b.term))
        else:
            zero = (b == 0)
    if cx.branch(zero if not isinstance(zero, SBool) else zero.term, "div-by-zero"):
        raise PyRaise(SExc("ZeroDivisionError"))
    cx.has_fp = True
    if FloatMode.mode == "real":
        ta, tb = to_term_float(a), to_term_float(b)
        q = z3.Real(cx._name("quot"))
        cx.assume(q * tb == ta)
        # theorems of real arithmetic given as hints (consequences of q*tb == ta)
        cx.assume(z3.Implies(z3.And(tb >= 1, ta >= 0), z3.And(q >= 0, q <= ta)))
        cx.assume(z3.Implies(z3.And(tb > 0, ta >= 0), q >= 0))
        cx.assume(z3.Implies(ta == tb, q == 1))
        return SFloat(real_round(q, "div"))
    return SFloat(z3.fpDiv(RNE, to_term_float(a), to_term_float(b)))


def binop(cx, op: ast.operator, a, b):
    if isinstance(op, ast.Add):
        o = "+"
    elif isinstance(op, ast.Sub):
        o = "-"
    elif isinstance(op, ast.Mult):
        o = "*"
    else:
        o = None
    # concrete fast path
    if _concrete(a) and _concrete(b):
        try:
            return _py_binop(op, a, b)
        except ZeroDivisionError:
            raise PyRaise(SExc("ZeroDivisionError"))
        except TypeError:
            raise PyRaise(SExc("TypeError"))
    if isinstance(op, ast.Div):
        if is_num(a) and is_num(b):
            return truediv(cx, a, b)
    if o and is_intlike(a) and is_intlike(b):
        return int_binop(o, a, b)
    if o and is_num(a) and is_num(b):
        cx.has_fp = True
        ta, tb = to_term_float(a), to_term_float(b)
        if FloatMode.mode == "real":
            e = {"+": ta + tb, "-": ta - tb, "*": ta * tb}[o]
            if o == "*":
                ev_ = z3.Real(cx._name("prod"))
                cx.assume(ev_ == e)
                # theorems of real arithmetic given as hints
                cx.assume(z3.Implies(z3.And(ta >= 0, tb >= 0), ev_ >= 0))
                cx.assume(z3.Implies(z3.And(ta >= 0, ta <= 1, tb >= 0), ev_ <= tb))
                cx.assume(z3.Implies(z3.And(tb >= 0, tb <= 1, ta >= 0), ev_ <= ta))
                e = ev_
            return SFloat(real_round(e, o))
        return SFloat({"+": z3.fpAdd, "-": z3.fpSub, "*": z3.fpMul}[o](RNE, ta, tb))
    if isinstance(op, (ast.FloorDiv, ast.Mod)) and is_intlike(a) and is_intlike(b):
        if cx.branch(cmp("==", b, 0).term if isinstance(cmp("==", b, 0), SBool) else cmp("==", b, 0)):
            raise PyRaise(SExc("ZeroDivisionError"))
        ta, tb = to_term_int(a), to_term_int(b)
        # Python floor semantics; z3 div/mod are Euclidean: equal for positive divisors
        if isinstance(b, int) and b > 0:
            return SInt(ta / tb) if isinstance(op, ast.FloorDiv) else SInt(ta % tb, 0, b - 1)
        # symbolic divisor of unknown sign: floor(a / b) = (-a) div (-b) for b < 0 (SMT-LIB div is floor for positive divisors);
        # a % b = a - b * (a // b) has the sign of b.  Cross-checked against CPython by tools/crosscheck.py.
        q = z3.If(tb > 0, ta / tb, (-ta) / (-tb))
        if isinstance(op, ast.FloorDiv):
            return SInt(q)
        return SInt(ta - tb * q)
    if isinstance(op, ast.Add):
        if isinstance(a, SList) or isinstance(b, SList):
            return list_concat(cx, a, b)
        if isinstance(a, (SStr, str, bytes)) and isinstance(b, (SStr, str, bytes)):
            return str_concat(a, b)
        if isinstance(a, tuple) and isinstance(b, tuple):
            return a + b
    if isinstance(op, ast.Mod) and isinstance(a, str):
        return SOpaque("str")
    if isinstance(a, SOpaque) and a.attrs.get("binop") is not None:
        r = a.attrs["binop"](op, b)
        if isinstance(r, str) and r == "raise":
            raise PyRaise(SExc("Exception", opaque=True))
        return r
    from .values import SClass, SFunc

    def _is_type(v):
        return isinstance(v, SClass) or (isinstance(v, SFunc) and v.kind == "builtin" and v.name in ("int", "float", "str", "bytes", "bool", "list", "dict", "tuple", "set"))

    if isinstance(op, ast.BitOr) and _is_type(a) and _is_type(b):
        return SOpaque("UnionType", None, fresh=True)   # `float | int` builds a new types.UnionType object
    raise Unsupported(f"binop {type(op).__name__} on {type(a).__name__}, {type(b).__name__}")


def _py_binop(op, a, b):
    import operator as O
    table = {ast.Add: O.add, ast.Sub: O.sub, ast.Mult: O.mul, ast.Div: O.truediv, ast.FloorDiv: O.floordiv,
             ast.Mod: O.mod, ast.Pow: O.pow, ast.LShift: O.lshift, ast.RShift: O.rshift, ast.BitOr: O.or_,
             ast.BitAnd: O.and_, ast.BitXor: O.xor}
    return table[type(op)](a, b)


def str_term(v):
    if isinstance(v, SStr):
        return v.term
    if isinstance(v, str):
        return z3.StringVal(v)
    if isinstance(v, bytes):
        return z3.StringVal(v.decode("latin-1"))
    raise Unsupported(f"not a string: {v!r}")


def str_kind(v) -> str:
    if isinstance(v, SStr):
        return v.kind
    return "bytes" if isinstance(v, bytes) else "str"


def str_concat(a, b):
    if str_kind(a) != str_kind(b):
        raise PyRaise(SExc("TypeError"))
    return SStr(z3.Concat(str_term(a), str_term(b)), str_kind(a))


def list_concat(cx, a, b):
    if not (isinstance(a, SList) and isinstance(b, SList)):
        raise PyRaise(SExc("TypeError"))
    if a.concrete and b.concrete:
        return SList(list(a.items) + list(b.items))
    if "seq" in a.ghost or "seq" in b.ghost:
        sa, sb = as_seq(a), as_seq(b)
        if sa is not None and sb is not None:
            make = a.ghost.get("seq_make") or b.ghost.get("seq_make")
            return make(z3.Concat(sa, sb)) if make is not None else seq_list(z3.Concat(sa, sb))
    la, lb = list_len(a), list_len(b)
    n = int_binop("+", la, lb)

    def elem(i, a=a, b=b, la=la):
        raise Unsupported("element access on a concatenated abstract list")

    out = SList(None, length=n, elem=elem)
    out.ghost["concat"] = (a, b)
    return out


INTSEQ = z3.SeqSort(z3.IntSort())


def as_seq(l: SList):
    """z3 Seq(Int) view of a list of ints (seq-backed abstract list or concrete list), or None"""
    if "seq" in l.ghost:
        return l.ghost["seq"]
    if l.concrete:
        t = z3.Empty(INTSEQ)
        for x in l.items:
            try:
                t = z3.Concat(t, z3.Unit(to_term_int(x))) if len(l.items) > 1 or True else t
            except Unsupported:
                return None
        return z3.simplify(t) if l.items else t
    return None


def seq_list(term, fresh: bool = True, label: str = "seq") -> SList:
    l = SList(None, length=None, fresh=fresh, label=label)
    l.ghost["seq"] = term
    l.length = SInt(z3.Length(term), 0, None)
    l.elem = lambda j, term=term: SInt(term[to_term_int(j)])
    return l


def list_len(l: SList):
    if l.concrete:
        return len(l.items)
    if "seq" in l.ghost:
        return SInt(z3.Length(l.ghost["seq"]), 0, None)
    return l.length


def cmp(op: str, a, b):
    """Comparison -> bool or SBool."""
    if _concrete(a) and _concrete(b):
        import operator as O
        return {"==": O.eq, "!=": O.ne, "<": O.lt, "<=": O.le, ">": O.gt, ">=": O.ge}[op](a, b)
    if is_intlike(a) and is_intlike(b):
        if _any_bv(a, b) and _bv_operand(a) is not None and _bv_operand(b) is not None:
            ta, tb = _bv_operand(a), _bv_operand(b)
        else:
            ta, tb = to_term_int(a), to_term_int(b)
        t = {"==": ta == tb, "!=": ta != tb, "<": ta < tb, "<=": ta <= tb, ">": ta > tb, ">=": ta >= tb}[op]
        return SBool(t)
    if is_num(a) and is_num(b):
        ta, tb = to_term_float(a), to_term_float(b)
        if FloatMode.mode == "real":
            return SBool({"==": ta == tb, "!=": ta != tb, "<": ta < tb, "<=": ta <= tb, ">": ta > tb, ">=": ta >= tb}[op])
        t = {"==": z3.fpEQ(ta, tb), "!=": z3.Not(z3.fpEQ(ta, tb)), "<": z3.fpLT(ta, tb), "<=": z3.fpLEQ(ta, tb),
             ">": z3.fpGT(ta, tb), ">=": z3.fpGEQ(ta, tb)}[op]
        return SBool(t)
    if isinstance(a, (SStr, str, bytes)) and isinstance(b, (SStr, str, bytes)) and op in ("==", "!="):
        if str_kind(a) != str_kind(b):
            return op == "!="
        t = str_term(a) == str_term(b)
        return SBool(t if op == "==" else z3.Not(t))
    if op in ("==", "!="):
        r = generic_eq(a, b)
        if isinstance(r, bool):
            return r if op == "==" else not r
        return SBool(r.term if op == "==" else z3.Not(r.term))
    raise Unsupported(f"compare {op} on {type(a).__name__}, {type(b).__name__}")


def generic_eq(a, b):
    if a is None or b is None:
        if a is None and b is None:
            return True
        other = b if a is None else a
        if isinstance(other, SOpaque) and other.attrs.get("maybe_none") is not None:
            return SBool(other.attrs["maybe_none"])
        return False
    if isinstance(a, SEnumMember) or isinstance(b, SEnumMember):
        return a == b
    if isinstance(a, SList) and isinstance(b, SList):
        if a.concrete and b.concrete:
            if len(a.items) != len(b.items):
                return False
            acc = []
            for x, y in zip(a.items, b.items):
                r = cmp("==", x, y)
                if r is False:
                    return False
                if r is not True:
                    acc.append(r.term)
            return SBool(z3.And(*acc)) if acc else True
        if a is b:
            return True
        if "seq" in a.ghost or "seq" in b.ghost:
            sa, sb = as_seq(a), as_seq(b)
            if sa is not None and sb is not None:
                return SBool(sa == sb)
        if a.concrete and not a.items:
            r = cmp("==", list_len(b), 0)
            return r
        if b.concrete and not b.items:
            return cmp("==", list_len(a), 0)
        raise Unsupported("equality of abstract lists")
    if isinstance(a, tuple) and isinstance(b, tuple):
        if len(a) != len(b):
            return False
        acc = []
        for x, y in zip(a, b):
            r = cmp("==", x, y)
            if r is False:
                return False
            if r is not True:
                acc.append(r.term)
        return SBool(z3.And(*acc)) if acc else True
    if isinstance(a, SOpaque) and a.attrs.get("eq") is not None:
        return a.attrs["eq"](b)
    if isinstance(b, SOpaque) and b.attrs.get("eq") is not None:
        return b.attrs["eq"](a)
    if isinstance(a, (SObj, SOpaque)) and isinstance(b, (SObj, SOpaque)):
        if a is b:
            return True
        ia, ib = getattr(a, "ident", None), getattr(b, "ident", None)
        if isinstance(a, SObj) and isinstance(b, SObj) and (a.fresh or b.fresh):
            return False  # identity comparison of distinct objects, one freshly allocated
        if isinstance(a, SObj) and isinstance(b, SObj) and ia is not None and ib is not None \
                and (a.fields.get("@eq_unknown") or b.fields.get("@eq_unknown")):
            # objects whose dynamic class (and hence __eq__) is unknown: the result is an unconstrained function of the two
            # identities, except that an object equals itself
            f = z3.Function("DynEq", z3.IntSort(), z3.IntSort(), z3.BoolSort())
            return SBool(z3.Or(ia == ib, f(ia, ib)))
        raise Unsupported(f"== between objects {a!r} and {b!r} needs the class's __eq__ contract")
    if type(a) != type(b) and _concrete(a) != _concrete(b):
        # e.g. symbolic int vs None/str
        if (is_num(a) and is_num(b)):
            pass
        else:
            return False
    raise Unsupported(f"== on {type(a).__name__}, {type(b).__name__}")


def truth(cx, v):
    """Python truthiness -> bool or z3 Bool term."""
    if isinstance(v, SBool):
        return v.term
    if isinstance(v, (bool, int, float, str, bytes, tuple, type(None))):
        return bool(v)
    if isinstance(v, SInt):
        return to_term_int(v) != 0 if not v.is_bv else v.term != mk_bv(0)
    if isinstance(v, SFloat):
        return (v.term != 0) if FloatMode.mode == "real" else z3.Not(z3.fpIsZero(v.term))
    if isinstance(v, SList):
        n = list_len(v)
        if isinstance(n, int):
            return n > 0
        r = cmp(">", n, 0)
        return r.term if isinstance(r, SBool) else r
    if isinstance(v, SStr):
        return z3.Length(v.term) > 0
    if isinstance(v, SOpaque):
        if v.truthy is not None:
            return v.truthy
        if v.attrs.get("maybe_none") is not None:
            return z3.Not(v.attrs["maybe_none"])
        if v.kind in ("tuple", "dictview", "str") and v.ident is not None:
            # emptiness of an opaque sequence is a function of its content identity
            return z3.Function("nonempty_seq", z3.IntSort(), z3.BoolSort())(v.ident)
        raise Unsupported(f"truthiness of opaque {v.kind}")
    if isinstance(v, SObj):
        if "__len__" in v.fields:
            return truth(cx, v.fields["__len__"])
        return True  # instances of the modelled classes define neither __bool__ nor __len__ unless stated
    from .values import SDict, SSet, SFunc, SClass
    if isinstance(v, (SFunc, SClass)):
        return True
    if isinstance(v, SDict):
        if v.concrete is not None and not v.store:
            return len(v.concrete) > 0
        if "nonempty" in v.ghost:
            return v.ghost["nonempty"]
        raise Unsupported("truthiness of abstract dict")
    raise Unsupported(f"truthiness of {type(v).__name__}")


def neg(v):
    if isinstance(v, SBool):
        return SBool(z3.Not(v.term))
    if isinstance(v, bool):
        return not v
    return SBool(z3.Not(v))
