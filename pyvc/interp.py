"""Symbolic interpreter for the Python subset (one path per run; see ctx.explore)."""
from __future__ import annotations

import ast
from typing import Any, Optional

import z3

from . import lists as L
from .contract import REGISTRY, Contract
from .ctx import Ctx, PathStop
from .ops import PyRaise, binop, cmp, int_binop, list_len, neg, truth
from .source import SourceIndex, is_generator, loops_of
from .values import (SBool, SClass, SDict, SEnumMember, SExc, SFloat, SFunc, SInt, SList, SModule, SObj, SOpaque,
                     SSet, SStr, Unsupported, next_oid, to_term_int)


class _Return(Exception):
    def __init__(self, value):
        self.value = value


class _Break(Exception):
    pass


class _Continue(Exception):
    pass


class Poison:
    """value of a local the engine could not keep track of across a loop cut; any use is Unsupported"""

    def __init__(self, name):
        self.name = name


class Env:
    """view of a frame's locals handed to contract callbacks (invariants, havoc)"""

    def __init__(self, fr: "Frame"):
        self._fr = fr

    def __getitem__(self, k):
        return self._fr.locals[k]

    def get(self, k, d=None):
        return self._fr.locals.get(k, d)

    def __setitem__(self, k, v):
        self._fr.locals[k] = v

    def __contains__(self, k):
        return k in self._fr.locals


class Frame:
    def __init__(self, target: str, fn: ast.FunctionDef, module, cls, contract: Optional[Contract]):
        self.target = target
        self.fn = fn
        self.module = module
        self.cls = cls
        self.contract = contract
        self.locals: dict[str, Any] = {}
        self.loop_ord = {id(n): k for k, n in enumerate(loops_of(fn))}
        self.is_gen = is_generator(fn)
        self.yield_count = 0
        self.args_ns = None


class LoopFrame:
    def __init__(self, allowed_names: set, allowed_heap: list, start_oid: int, target: str):
        self.allowed_names = allowed_names
        self.allowed_heap = allowed_heap  # list of (object, field|None)
        self.start_oid = start_oid
        self.target = target

    def note_write(self, obj, fieldname) -> None:
        if getattr(obj, "oid", 0) > self.start_oid:
            return  # allocated inside the iteration
        for o, f in self.allowed_heap:
            if o is obj and (f is None or f == fieldname):
                return
        raise Unsupported(
            f"{self.target}: loop body writes {getattr(obj, 'label', obj)}.{fieldname}, which the loop contract "
            "does not list under modifies")


DROPPED_CALLS = ("LOGGER.", "print_exception", "print", "warnings.warn", "logging.")
EXC_BASES = {
    "Exception": "BaseException", "ValueError": "Exception", "TypeError": "Exception", "KeyError": "LookupError",
    "IndexError": "LookupError", "LookupError": "Exception", "ZeroDivisionError": "ArithmeticError",
    "ArithmeticError": "Exception", "OverflowError": "ArithmeticError", "AssertionError": "Exception",
    "RuntimeError": "Exception", "NotImplementedError": "RuntimeError", "StopIteration": "Exception",
    "UnicodeEncodeError": "UnicodeError", "UnicodeDecodeError": "UnicodeError", "UnicodeError": "ValueError",
    "AttributeError": "Exception", "RecursionError": "RuntimeError",
    # fandango.errors
    "FandangoError": "ValueError", "FandangoParseError": "FandangoError", "FandangoValueError": "FandangoError",
    "FandangoConversionError": "FandangoError", "FandangoFailedError": "FandangoError",
    "FandangoSyntaxError": "FandangoError",
}


class Interp:
    def __init__(self, index: SourceIndex, cx: Ctx, registry: Optional[dict] = None, verifying: str = ""):
        self.index = index
        self.cx = cx
        self.registry = REGISTRY if registry is None else registry
        self.verifying = verifying
        self.depth = 0
        from .builtins import Builtins
        self.b = Builtins(self)

    # =================================================================================== functions
    def run_function(self, target: str, args: dict, contract: Optional[Contract]):
        mi, ci, fn, kind = self.index.function(target)
        fr = Frame(target, fn, mi, ci, contract)
        fr.locals.update(args)
        return self._run_frame(fr)

    def _run_frame(self, fr: Frame):
        self.depth += 1
        if self.depth > 40:
            raise Unsupported("call depth > 40 (recursion must go through a contract)")
        try:
            try:
                for s in fr.fn.body:
                    self.ex(s, fr)
            except _Return as r:
                return r.value
            return None
        finally:
            self.depth -= 1

    def bind_args(self, fn: ast.FunctionDef, fr: Frame, pos: list, kw: dict, self_obj=None) -> None:
        a = fn.args
        params = [p.arg for p in a.posonlyargs + a.args]
        pos = list(pos)
        if self_obj is not None:
            pos = [self_obj] + pos
        if len(pos) > len(params) and a.vararg is None:
            raise PyRaise(SExc("TypeError"))
        for name, v in zip(params, pos):
            fr.locals[name] = v
        if a.vararg is not None:
            fr.locals[a.vararg.arg] = tuple(pos[len(params):])
        defaults = a.defaults
        first_default = len(params) - len(defaults)
        kw = dict(kw)
        for k, name in enumerate(params):
            if name in fr.locals:
                if name in kw:
                    raise PyRaise(SExc("TypeError"))
                continue
            if name in kw:
                fr.locals[name] = kw.pop(name)
            elif k >= first_default:
                fr.locals[name] = self.ev(defaults[k - first_default], fr)
            else:
                raise PyRaise(SExc("TypeError"))
        for p, d in zip(a.kwonlyargs, a.kw_defaults):
            if p.arg in kw:
                fr.locals[p.arg] = kw.pop(p.arg)
            elif d is not None:
                fr.locals[p.arg] = self.ev(d, fr)
            else:
                raise PyRaise(SExc("TypeError"))
        if a.kwarg is not None:
            fr.locals[a.kwarg.arg] = SDict(concrete=dict(kw), fresh=True)
        elif kw:
            raise PyRaise(SExc("TypeError"))

    def call_repo(self, target: str, pos: list, kw: dict, self_obj=None):
        """Call of a repository function: by contract if one is registered (and not inline), else inlined only if
        explicitly allowed."""
        c = self.registry.get(target)
        mi, ci, fn, kind = self.index.function(target)
        decs = [ast.unparse(d) for d in fn.decorator_list]
        if "staticmethod" in decs:
            self_obj = None
        elif "classmethod" in decs:
            self_obj = SClass(ci.name) if ci is not None else self_obj
        if c is not None and not c.inline and target != self.verifying + "!":
            return self.call_by_contract(c, fn, pos, kw, self_obj)
        if c is None and target not in self.cx.ghost.get("inline_ok", ()) and not fn.name == "__init__":
            raise Unsupported(f"call of {target}: no contract and not marked inline")
        fr = Frame(target, fn, mi, ci, c)
        self.bind_args(fn, fr, pos, kw, self_obj)
        return self._run_frame(fr)

    def call_repo_inline(self, target: str, pos: list, kw: dict, self_obj=None):
        """execute the body of `target` (used by script contracts that relate several real functions)"""
        mi, ci, fn, kind = self.index.function(target)
        fr = Frame(target, fn, mi, ci, self.registry.get(target))
        self.bind_args(fn, fr, pos, kw, self_obj)
        return self._run_frame(fr)

    def call_by_contract(self, c: Contract, fn: ast.FunctionDef, pos: list, kw: dict, self_obj=None):
        cx = self.cx
        try:
            mi_, ci_, _fn, _k = self.index.function(c.target)
        except Exception:
            mi_, ci_ = None, None
        fr = Frame(c.target, fn, mi_, ci_, c)
        self.bind_args(fn, fr, pos, kw, self_obj)
        a = fr.locals
        for name, f in c.requires(cx, a):
            cx.oblige(f"{cx.tag or self.verifying}#call_pre[{c.target}]:{name}", f, kind="call_pre")
            cx.assume(f)
        for exc_cls, cond in c.may_raise(cx, a):
            if cx.ghost.get("generic"):
                cx.ghost["generic_raises"].append(exc_cls)
                continue
            if cond is None:
                taken = cx.choose(f"raises_{exc_cls}")
            else:
                taken = cx.branch(cond, f"raises_{exc_cls}")
            if taken:
                e = SExc(exc_cls, opaque=True)
                for name, f in c.ensures_raise(cx, a, e):
                    cx.assume(f)
                raise PyRaise(e)
        cx.ghost["call_site"] = cx.ghost.get("call_site", 0) + 1
        try:
            c.effects(cx, a)
            res = c.fresh_result(cx, a)
            for name, f in c.ensures(cx, a, res):
                cx.assume(f)
        finally:
            cx.ghost["call_site"] -= 1
        return res

    # =================================================================================== statements
    def ex(self, s: ast.stmt, fr: Frame) -> None:
        m = getattr(self, "ex_" + type(s).__name__, None)
        if m is None:
            raise Unsupported(f"statement {type(s).__name__} at line {s.lineno}")
        m(s, fr)

    def ex_Expr(self, s, fr):
        if isinstance(s.value, ast.Constant):
            return  # docstring
        if self.is_dropped_call(s.value, fr):
            return
        self.ev(s.value, fr)

    def is_dropped_call(self, e, fr) -> bool:
        if isinstance(e, ast.Call):
            txt = ast.unparse(e.func)
            if txt.startswith(DROPPED_CALLS) or txt in ("print", "print_exception"):
                self.cx.drop(f"{txt}(...) treated as a no-op that does not raise")
                return True
        return False

    def ex_Pass(self, s, fr):
        pass

    def ex_Global(self, s, fr):
        raise Unsupported("global statement")

    def ex_Import(self, s, fr):
        for a in s.names:
            fr.locals[a.asname or a.name.split(".")[0]] = SModule(a.name)

    def ex_ImportFrom(self, s, fr):
        for a in s.names:
            fr.locals[a.asname or a.name] = self.resolve_global_name(a.name, fr, imported=(s.module or "", a.name))

    def ex_Assign(self, s, fr):
        v = self.ev(s.value, fr)
        for t in s.targets:
            self.assign(t, v, fr)

    def ex_AnnAssign(self, s, fr):
        if s.value is not None:
            self.assign(s.target, self.ev(s.value, fr), fr)

    def ex_AugAssign(self, s, fr):
        cur = self.ev(_load(s.target), fr)
        rhs = self.ev(s.value, fr)
        if isinstance(cur, SList) and isinstance(s.op, ast.Add):
            self.cx.log_write(cur, "@items")
            L.extend(self.cx, cur, rhs)
            return
        self.assign(s.target, binop(self.cx, s.op, cur, rhs), fr)

    def assign(self, t, v, fr: Frame) -> None:
        if isinstance(t, ast.Name):
            fr.locals[t.id] = v
        elif isinstance(t, (ast.Tuple, ast.List)):
            vals = self.unpack(v, len(t.elts))
            for tt, vv in zip(t.elts, vals):
                self.assign(tt, vv, fr)
        elif isinstance(t, ast.Attribute):
            obj = self.ev(t.value, fr)
            self.set_attr(obj, t.attr, v, fr)
        elif isinstance(t, ast.Subscript):
            obj = self.ev(t.value, fr)
            key = self.ev(t.slice, fr)
            self.b.setitem(obj, key, v)
        else:
            raise Unsupported(f"assignment target {type(t).__name__}")

    def unpack(self, v, n: int) -> list:
        if isinstance(v, tuple):
            if len(v) != n:
                raise PyRaise(SExc("ValueError"))
            return list(v)
        if isinstance(v, SList) and v.concrete:
            if len(v.items) != n:
                raise PyRaise(SExc("ValueError"))
            return list(v.items)
        raise Unsupported(f"unpacking of {type(v).__name__}")

    def set_attr(self, obj, attr: str, v, fr: Frame) -> None:
        if isinstance(obj, SObj):
            st = self.index.resolve_setter(obj.cls, attr)
            if st is not None and not (fr.cls is not None and fr.fn.name == attr and fr.fn in st[0].setters.values()):
                ci, fn = st
                self.call_repo(f"{ci.module.rel}:{ci.name}.{attr}@setter", [v], {}, self_obj=obj)
                return
            self.cx.log_write(obj, attr, v)
            obj.fields[attr] = v
            return
        raise Unsupported(f"attribute store on {type(obj).__name__}.{attr}")

    def ex_Return(self, s, fr):
        raise _Return(self.ev(s.value, fr) if s.value is not None else None)

    def ex_Raise(self, s, fr):
        if s.exc is None:
            cur = fr.locals.get("@exc")
            if cur is None:
                raise Unsupported("bare raise outside handler")
            raise PyRaise(cur)
        if isinstance(s.exc, ast.Call) and isinstance(s.exc.func, ast.Name):
            name = s.exc.func.id
            raise PyRaise(SExc(name))  # message arguments (f-strings) are not evaluated
        if isinstance(s.exc, ast.Name):
            v = fr.locals.get(s.exc.id)
            if isinstance(v, SExc):
                raise PyRaise(v)
            raise PyRaise(SExc(s.exc.id))
        raise Unsupported("raise of a computed exception")

    def ex_Assert(self, s, fr):
        txt = ast.unparse(s.test)
        if txt.startswith("isinstance("):
            # type-narrowing assertion: kept as an assumption and listed
            c = self.ev(s.test, fr)
            t = truth(self.cx, c)
            self.cx.assume_note(f"{fr.target}: assert {txt} (type narrowing) assumed to hold")
            self.cx.assume(t)
            return
        c = self.ev(s.test, fr)
        if not self.cx.branch(truth(self.cx, c), "assert"):
            raise PyRaise(SExc("AssertionError"))

    def ex_If(self, s, fr):
        c = self.ev(s.test, fr)
        if self.cx.branch(truth(self.cx, c), f"if@{s.lineno}"):
            for x in s.body:
                self.ex(x, fr)
        else:
            for x in s.orelse:
                self.ex(x, fr)

    def ex_With(self, s, fr):
        for item in s.items:
            txt = ast.unparse(item.context_expr)
            if "profiler" in txt.lower() or "timer" in txt.lower():
                self.cx.drop(f"with {txt}: context manager treated as transparent")
                continue
            if txt.endswith("_lock") or "lock" in txt.lower():
                self.cx.drop(f"with {txt}: lock acquisition treated as transparent (single-threaded reasoning)")
                continue
            raise Unsupported(f"with {txt}")
        for x in s.body:
            self.ex(x, fr)

    def ex_Break(self, s, fr):
        raise _Break()

    def ex_Continue(self, s, fr):
        raise _Continue()

    def ex_Delete(self, s, fr):
        for t in s.targets:
            if isinstance(t, ast.Subscript):
                obj = self.ev(t.value, fr)
                key = self.ev(t.slice, fr)
                self.b.delitem(obj, key)
            elif isinstance(t, ast.Name):
                fr.locals.pop(t.id, None)
            else:
                raise Unsupported("del target")

    def ex_FunctionDef(self, s, fr):
        fr.locals[s.name] = SFunc("lambda", s.name, node=s, module=fr.module, cls=fr.cls, closure=fr)

    # ---- try -------------------------------------------------------------------------------------
    def exc_matches(self, exc: SExc, type_node, fr) -> bool:
        if type_node is None:
            return True
        names = [type_node] if not isinstance(type_node, ast.Tuple) else list(type_node.elts)
        for n in names:
            want = ast.unparse(n).split(".")[-1]
            c = exc.cls
            seen = 0
            while c is not None and seen < 20:
                if c == want:
                    return True
                nxt = EXC_BASES.get(c)
                if nxt is None:
                    ci = self.index.find_class(c)
                    nxt = ci.bases[0] if ci and ci.bases else None
                c = nxt
                seen += 1
            if want == "BaseException":
                return True
        return False

    def ex_Try(self, s, fr):
        try:
            try:
                for x in s.body:
                    self.ex(x, fr)
            except PyRaise as pr:
                for h in s.handlers:
                    if self.exc_matches(pr.exc, h.type, fr):
                        if h.name:
                            fr.locals[h.name] = pr.exc
                        prev = fr.locals.get("@exc")
                        fr.locals["@exc"] = pr.exc
                        try:
                            for x in h.body:
                                self.ex(x, fr)
                        finally:
                            fr.locals["@exc"] = prev
                        break
                else:
                    raise
            else:
                for x in s.orelse:
                    self.ex(x, fr)
        finally:
            # NB: a `finally` body runs on every exit, including our control-flow exceptions
            if s.finalbody:
                for x in s.finalbody:
                    self.ex(x, fr)

    # ---- match -----------------------------------------------------------------------------------
    def ex_Match(self, s, fr):
        subj = self.ev(s.subject, fr)
        for case in s.cases:
            ok = self.match_pattern(case.pattern, subj, fr)
            if case.guard is not None and ok is not False:
                raise Unsupported("match guard")
            if self.cx.branch(ok, "match"):
                for x in case.body:
                    self.ex(x, fr)
                return

    def match_pattern(self, p, subj, fr):
        if isinstance(p, ast.MatchValue):
            v = self.ev(p.value, fr)
            r = cmp("==", subj, v)
            return r.term if isinstance(r, SBool) else r
        if isinstance(p, ast.MatchAs) and p.pattern is None:
            if p.name:
                fr.locals[p.name] = subj
            return True
        if isinstance(p, ast.MatchSingleton):
            r = cmp("==", subj, p.value)
            return r.term if isinstance(r, SBool) else r
        raise Unsupported(f"match pattern {type(p).__name__}")

    # ---- loops -----------------------------------------------------------------------------------
    def iter_concrete(self, it) -> Optional[list]:
        if isinstance(it, tuple):
            return list(it)
        if isinstance(it, SList) and it.concrete:
            return list(it.items)
        if isinstance(it, (str, bytes)):
            return list(it)
        if isinstance(it, range):
            return list(it)
        if isinstance(it, SDict) and it.concrete is not None and not it.store:
            return list(it.concrete.keys())
        return None

    def ex_For(self, s, fr):
        it = self.ev(s.iter, fr)
        conc = self.iter_concrete(it)
        if conc is not None:
            broke = False
            for v in conc:
                self.assign(s.target, v, fr)
                try:
                    for x in s.body:
                        self.ex(x, fr)
                except _Continue:
                    continue
                except _Break:
                    broke = True
                    break
            if not broke:
                for x in s.orelse:
                    self.ex(x, fr)
            return
        if isinstance(it, SStr):
            it = self.b.chars_of(it)
        if not isinstance(it, SList):
            raise Unsupported(f"for over {type(it).__name__} at line {s.lineno}")
        self.cut_loop(s, fr, it)

    def loop_spec(self, s, fr):
        k = fr.loop_ord[id(s)]
        c = fr.contract
        spec = c.loops.get(k) if c is not None else None
        txt = ast.unparse(s.iter if isinstance(s, ast.For) else s.test)
        if c is not None and (spec is None or (spec.iter_text is not None and spec.iter_text != txt)):
            # loops whose contract does not depend on their position (frame-only invariants) are keyed by text
            alt = getattr(c, "loops_by_text", {}).get(txt)
            if alt is not None:
                return k, alt
        if spec is None:
            raise Unsupported(f"{fr.target}: loop #{k} at line {s.lineno} iterates an abstract sequence and has no invariant")
        if spec.iter_text is not None and spec.iter_text != txt:
            raise Unsupported(f"{fr.target}: loop #{k} now iterates `{txt}`, the contract was written for `{spec.iter_text}`")
        return k, spec

    def assigned_names(self, body: list) -> set:
        out = set()
        for st in body:
            for n in ast.walk(st):
                if isinstance(n, ast.Name) and isinstance(n.ctx, (ast.Store, ast.Del)):
                    out.add(n.id)
        return out

    def cut_loop(self, s: ast.For, fr: Frame, it: SList) -> None:
        cx = self.cx
        k, spec = self.loop_spec(s, fr)
        env = Env(fr)
        n = list_len(it)
        pre = f"{(self.cx.tag if fr.target == self.verifying else fr.target)}#loop{k}"
        for name, f in spec.inv(cx, env, 0):
            cx.oblige(f"{pre}:inv_init:{name}", f, kind="inv_init")
        # havoc ------------------------------------------------------------------------------------
        if isinstance(n, SInt) and n.is_bv:
            i = cx.bvint("i", 0, n.hi, named=False)
        else:
            i = cx.int("i")
            cx.assume(i.term >= 0)
        le = cmp("<=", i, n)
        cx.assume(le.term if isinstance(le, SBool) else le)
        assigned = self.assigned_names(s.body) | self.assigned_names([ast.Expr(s.target)] if False else [])
        for tn in ast.walk(s.target):
            if isinstance(tn, ast.Name):
                assigned.add(tn.id)
        declared = {m for m in spec.modifies if "." not in m}
        heap_allowed = []
        for m in spec.modifies:
            if "." in m:
                base, f = m.rsplit(".", 1)
                obj = self.ev(ast.parse(base, mode="eval").body, fr)
                heap_allowed.append((obj, f))
                fv = obj.fields.get(f) if isinstance(obj, SObj) else None
                if isinstance(fv, (SList, SDict, SSet)):
                    heap_allowed.append((fv, None))
            else:
                v = fr.locals.get(m)
                if isinstance(v, (SList, SDict, SSet, SObj)):
                    heap_allowed.append((v, None))
        before = {m: fr.locals.get(m) for m in declared}
        cx.ghost["loop_allow"] = []
        if spec.havoc is not None:
            spec.havoc(cx, env, i)
        heap_allowed.extend((o, None) for o in cx.ghost.pop("loop_allow", []))
        for name in assigned - declared:
            fr.locals[name] = Poison(name)
        for name in declared & assigned:
            if name in fr.locals and fr.locals[name] is before.get(name) and not isinstance(before.get(name), (SList, SDict, SSet, SObj)):
                fr.locals[name] = Poison(name)  # declared as modified but not described by the havoc
        # objects the havoc installed are part of the frame too
        for m in declared:
            v = fr.locals.get(m)
            if isinstance(v, (SList, SDict, SSet, SObj)):
                heap_allowed.append((v, None))
        for name, f in spec.inv(cx, env, i):
            cx.assume(f)
        # fork -------------------------------------------------------------------------------------
        lt = cmp("<", i, n)
        if cx.branch(lt.term if isinstance(lt, SBool) else lt, f"loop{k}-iterates"):
            lf = LoopFrame(declared | assigned, heap_allowed, next_oid(), fr.target)
            cx.loop_frames.append(lf)
            broke = False
            ev_mark = len(cx.events)
            try:
                self.assign(s.target, it.elem(i) if it.elem is not None else cx.opaque("elem"), fr)
                try:
                    for x in s.body:
                        self.ex(x, fr)
                except _Continue:
                    pass
                except _Break:
                    broke = True
            finally:
                cx.loop_frames.pop()
            if broke:
                cx.ghost.setdefault("breaks", []).append(k)
                return  # continue after the loop with the state at the break
            i1 = int_binop("+", i, 1)
            for name, f in spec.inv(cx, env, i1):
                cx.oblige(f"{pre}:inv_pres:{name}", f, kind="inv_pres")
            if spec.body_post is not None:
                for name, f in spec.body_post(cx, env, i, cx.events[ev_mark:]):
                    cx.oblige(f"{pre}:iteration:{name}", f, kind="inv_pres")
            raise PathStop()
        else:
            for x in s.orelse:
                self.ex(x, fr)

    def ex_While(self, s, fr):
        cx = self.cx
        # try concrete unrolling first
        count = 0
        while True:
            c = self.ev(s.test, fr)
            t = truth(cx, c)
            if not isinstance(t, bool):
                break
            if not t:
                for x in s.orelse:
                    self.ex(x, fr)
                return
            count += 1
            if count > 256:
                raise Unsupported("while loop unrolled more than 256 times")
            try:
                for x in s.body:
                    self.ex(x, fr)
            except _Continue:
                continue
            except _Break:
                return
        if count:
            raise Unsupported("while loop becomes symbolic after concrete iterations")
        k, spec = self.loop_spec(s, fr)
        env = Env(fr)
        pre = f"{(self.cx.tag if fr.target == self.verifying else fr.target)}#loop{k}"
        for name, f in spec.inv(cx, env, 0):
            cx.oblige(f"{pre}:inv_init:{name}", f, kind="inv_init")
        i = cx.int("it", lo=0)
        assigned = self.assigned_names(s.body)
        declared = {m for m in spec.modifies if "." not in m}
        heap_allowed = []
        for m in spec.modifies:
            if "." in m:
                base, f = m.rsplit(".", 1)
                obj = self.ev(ast.parse(base, mode="eval").body, fr)
                heap_allowed.append((obj, f))
                fv = obj.fields.get(f) if isinstance(obj, SObj) else None
                if isinstance(fv, (SList, SDict, SSet)):
                    heap_allowed.append((fv, None))
            else:
                v = fr.locals.get(m)
                if isinstance(v, (SList, SDict, SSet, SObj)):
                    heap_allowed.append((v, None))
        if spec.havoc is not None:
            spec.havoc(cx, env, i)
        for name in assigned - declared:
            fr.locals[name] = Poison(name)
        for m in declared:
            v = fr.locals.get(m)
            if isinstance(v, (SList, SDict, SSet, SObj)):
                heap_allowed.append((v, None))
        for name, f in spec.inv(cx, env, i):
            cx.assume(f)
        c = self.ev(s.test, fr)
        if cx.branch(truth(cx, c), f"while{k}"):
            v0 = spec.variant(cx, env) if spec.variant else None
            lf = LoopFrame(declared | assigned, heap_allowed, next_oid(), fr.target)
            cx.loop_frames.append(lf)
            broke = False
            ev_mark = len(cx.events)
            try:
                try:
                    for x in s.body:
                        self.ex(x, fr)
                except _Continue:
                    pass
                except _Break:
                    broke = True
            finally:
                cx.loop_frames.pop()
            if broke:
                return
            for name, f in spec.inv(cx, env, SInt(i.term + 1)):
                cx.oblige(f"{pre}:inv_pres:{name}", f, kind="inv_pres")
            if spec.body_post is not None:
                for name, f in spec.body_post(cx, env, i, cx.events[ev_mark:]):
                    cx.oblige(f"{pre}:iteration:{name}", f, kind="inv_pres")
            if v0 is not None:
                v1 = spec.variant(cx, env)
                cx.oblige(f"{pre}:variant_decreases", z3.And(v1 < v0, v0 >= 0), kind="inv_pres")
            raise PathStop()
        else:
            for x in s.orelse:
                self.ex(x, fr)

    # =================================================================================== expressions
    def ev(self, e: ast.expr, fr: Frame):
        hooks = getattr(fr.contract, "expr_hooks", None) if fr.contract is not None else None
        if hooks and isinstance(e, (ast.Call, ast.GeneratorExp, ast.ListComp, ast.JoinedStr)):
            h = hooks.get(ast.unparse(e))
            if h is not None:
                self.cx.assume_note(f"{fr.target}: `{ast.unparse(e)[:90]}` is given its assumed meaning by the contract")
                return h(self, fr)
        m = getattr(self, "ev_" + type(e).__name__, None)
        if m is None:
            raise Unsupported(f"expression {type(e).__name__} at line {getattr(e, 'lineno', '?')}")
        v = m(e, fr)
        if isinstance(v, Poison):
            raise Unsupported(f"{fr.target}: `{v.name}` is read after a loop cut that does not describe it (add it to the loop's modifies/invariant)")
        return v

    def ev_Constant(self, e, fr):
        return e.value

    def ev_Name(self, e, fr):
        if e.id in fr.locals:
            return fr.locals[e.id]
        cl = getattr(fr, "closure", None)
        while cl is not None:
            if e.id in cl.locals:
                return cl.locals[e.id]
            cl = getattr(cl, "closure", None)
        return self.resolve_global_name(e.id, fr)

    def resolve_global_name(self, name: str, fr: Frame, imported=None):
        if name in ("True", "False", "None"):
            return {"True": True, "False": False, "None": None}[name]
        mi = fr.module
        if mi is not None and imported is None:
            if name in mi.functions:
                return SFunc("repo", f"{mi.rel}:{name}", node=mi.functions[name], module=mi)
            if name in mi.classes:
                return SClass(name)
            if name in mi.constants:
                try:
                    return self.ev(mi.constants[name], Frame(mi.rel + ":<module>", ast.parse("def _(): pass").body[0], mi, None, None))
                except Unsupported:
                    pass
            if name in mi.imports:
                imported = mi.imports[name]
        if imported is not None:
            mod, nm = imported
            if nm is None:
                return SModule(mod)
            if mod.startswith("fandango"):
                ci = self.index.find_class(nm)
                if ci is not None:
                    return SClass(nm)
                # a function or constant imported from another repository module
                rel = mod.replace("fandango.", "").replace(".", "/")
                for cand in (rel + ".py", rel + "/__init__.py", "__init__.py" if mod == "fandango" else None):
                    if cand is None:
                        continue
                    try:
                        m2 = self.index.module(cand)
                    except Exception:
                        continue
                    if nm in m2.functions:
                        return SFunc("repo", f"{m2.rel}:{nm}", node=m2.functions[nm], module=m2)
                    if nm in m2.classes:
                        return SClass(nm)
                    if nm in m2.constants:
                        return self.ev(m2.constants[nm], Frame(m2.rel + ":<module>", ast.parse("def _(): pass").body[0], m2, None, None))
                    if nm in m2.imports:
                        return self.resolve_global_name(nm, Frame(m2.rel, ast.parse("def _(): pass").body[0], m2, None, None))
                return SOpaque(f"import:{mod}.{nm}")
            if nm in EXC_BASES:
                return SClass(nm)
            return SFunc("builtin", f"{mod}.{nm}")
        if self.b.has(name):
            return SFunc("builtin", name)
        if name in EXC_BASES or name in ("int", "str", "bytes", "float", "bool", "list", "dict", "tuple", "set", "object", "type"):
            return SClass(name)
        ci = self.index.find_class(name)
        if ci is not None:
            return SClass(name)
        raise Unsupported(f"unresolved name {name} in {fr.target}")

    def ev_Tuple(self, e, fr):
        out = []
        for x in e.elts:
            if isinstance(x, ast.Starred):
                v = self.ev(x.value, fr)
                c = self.iter_concrete(v)
                if c is None:
                    raise Unsupported("star-unpacking of an abstract sequence")
                out.extend(c)
            else:
                out.append(self.ev(x, fr))
        return tuple(out)

    def ev_List(self, e, fr):
        if e.elts and all(isinstance(x, ast.Starred) for x in e.elts):
            # [*a, *b, ...] of abstract sequences: their concatenation (a new list)
            parts = [self.ev(x.value, fr) for x in e.elts]
            if any(isinstance(p, SList) and not p.concrete for p in parts) and all(isinstance(p, SList) for p in parts):
                from .ops import list_concat
                acc = parts[0]
                for p in parts[1:]:
                    acc = list_concat(self.cx, acc, p)
                if len(parts) == 1:
                    acc = self.b.f_list([acc], {}, fr)
                return acc
        return SList(list(self.ev_Tuple(e, fr)))

    def ev_Set(self, e, fr):
        raise Unsupported("set display")

    def ev_Dict(self, e, fr):
        if not e.keys:
            return self.b.f_dict([], {}, fr)
        d = {}
        for k, v in zip(e.keys, e.values):
            if k is None:
                raise Unsupported("dict unpacking")
            kk = self.ev(k, fr)
            if not isinstance(kk, (str, int, bytes, tuple, SEnumMember)):
                raise Unsupported("dict display with a symbolic key")
            d[kk] = self.ev(v, fr)
        return SDict(concrete=d, fresh=True)

    def ev_JoinedStr(self, e, fr):
        # f-strings: constant parts and plain replacement fields {x} of str / non-negative int values are modelled;
        # anything else (format specs, conversions, other types) makes the result an opaque str
        from .ops import str_term
        parts = []
        symbolic = False
        for v in e.values:
            if isinstance(v, ast.Constant):
                parts.append(v.value)
                continue
            if isinstance(v, ast.FormattedValue) and v.format_spec is None and v.conversion == -1:
                val = self.ev(v.value, fr)
                if isinstance(val, str):
                    parts.append(val)
                    continue
                if isinstance(val, int) and not isinstance(val, bool):
                    parts.append(str(val))
                    continue
                if isinstance(val, SStr) and val.kind == "str":
                    parts.append(val)
                    symbolic = True
                    continue
                if isinstance(val, SInt):
                    t = to_term_int(val)
                    self.cx.oblige(f"{self.cx.tag}#call_pre:int_in_fstring_is_non_negative", t >= 0, kind="call_pre")
                    parts.append(SStr(z3.IntToStr(t)))
                    symbolic = True
                    continue
            return SOpaque("str")
        if not symbolic:
            return "".join(parts)
        terms = [str_term(p) for p in parts if not (isinstance(p, str) and p == "")]
        return SStr(z3.Concat(*terms) if len(terms) > 1 else terms[0])

    def ev_FormattedValue(self, e, fr):
        return SOpaque("str")

    def ev_UnaryOp(self, e, fr):
        v = self.ev(e.operand, fr)
        if isinstance(e.op, ast.Not):
            t = truth(self.cx, v)
            return (not t) if isinstance(t, bool) else SBool(z3.Not(t))
        if isinstance(e.op, ast.USub):
            if isinstance(v, (int, float)):
                return -v
            if isinstance(v, SInt):
                return int_binop("-", 0, v)
            if isinstance(v, SFloat):
                return SFloat(z3.fpNeg(v.term))
        raise Unsupported(f"unary {type(e.op).__name__}")

    def ev_BinOp(self, e, fr):
        return binop(self.cx, e.op, self.ev(e.left, fr), self.ev(e.right, fr))

    def ev_BoolOp(self, e, fr):
        is_and = isinstance(e.op, ast.And)
        if self.cx.ghost.get("generic"):
            # generic element of a comprehension: no path split; operands are evaluated as a pure boolean term
            ts = []
            for x in e.values:
                t = truth(self.cx, self.ev(x, fr))
                ts.append(z3.BoolVal(t) if isinstance(t, bool) else t)
            return SBool(z3.And(*ts) if is_and else z3.Or(*ts))
        v = None
        for k, x in enumerate(e.values):
            v = self.ev(x, fr)
            if k == len(e.values) - 1:
                return v
            t = truth(self.cx, v)
            d = self.cx.branch(t, "boolop")
            if is_and and not d:
                return v
            if (not is_and) and d:
                return v
        return v

    def ev_IfExp(self, e, fr):
        c = self.ev(e.test, fr)
        if self.cx.branch(truth(self.cx, c), "ifexp"):
            return self.ev(e.body, fr)
        return self.ev(e.orelse, fr)

    def ev_Compare(self, e, fr):
        left = self.ev(e.left, fr)
        acc = None
        for op, rn in zip(e.ops, e.comparators):
            right = self.ev(rn, fr)
            r = self.compare(op, left, right, fr)
            if len(e.ops) == 1:
                return r
            t = truth(self.cx, r)
            if not self.cx.branch(t, "cmpchain"):
                return False
            left = right
        return True

    def compare(self, op, a, b, fr):
        if isinstance(op, (ast.Is, ast.IsNot)):
            r = self.identical(a, b)
            if isinstance(op, ast.IsNot):
                return (not r) if isinstance(r, bool) else neg(r)
            return r
        if isinstance(op, (ast.In, ast.NotIn)):
            r = self.b.contains(b, a)
            if isinstance(op, ast.NotIn):
                return (not r) if isinstance(r, bool) else neg(r)
            return r
        sym = {ast.Eq: "==", ast.NotEq: "!=", ast.Lt: "<", ast.LtE: "<=", ast.Gt: ">", ast.GtE: ">="}[type(op)]
        if isinstance(a, SObj) and sym in ("==", "!="):
            res = self.index.resolve_method(a.cls, "__eq__")
            if res is not None:
                kind, ci, fn = res
                r = self.call_repo(f"{ci.module.rel}:{ci.name}.__eq__", [b], {}, self_obj=a)
                if sym == "!=":
                    t = truth(self.cx, r)
                    return (not t) if isinstance(t, bool) else SBool(z3.Not(t))
                return r
        return cmp(sym, a, b)

    def identical(self, a, b):
        if a is None or b is None:
            if a is None and b is None:
                return True
            other = b if a is None else a
            if isinstance(other, SOpaque) and other.attrs.get("maybe_none") is not None:
                return SBool(other.attrs["maybe_none"])
            return False
        if isinstance(a, (SObj, SList, SDict, SSet, SOpaque)) or isinstance(b, (SObj, SList, SDict, SSet, SOpaque)):
            if a is b:
                return True
            if getattr(a, "fresh", False) or getattr(b, "fresh", False):
                return False   # a freshly allocated object is identical to nothing else
            if isinstance(a, SOpaque) and isinstance(b, SOpaque) and a.ident is not None and b.ident is not None:
                return SBool(a.ident == b.ident)
            return False
        if isinstance(a, bool) or isinstance(b, bool) or isinstance(a, SEnumMember) or isinstance(b, SEnumMember):
            return cmp("==", a, b) if type(a) == type(b) else False
        if isinstance(a, SBool) or isinstance(b, SBool):
            return cmp("==", a, b)
        raise Unsupported(f"`is` on {type(a).__name__}, {type(b).__name__}")

    def ev_Attribute(self, e, fr):
        obj = self.ev(e.value, fr)
        return self.get_attr(obj, e.attr, fr)

    def get_attr(self, obj, attr: str, fr: Optional[Frame]):
        if isinstance(obj, SObj):
            if attr in obj.fields:
                return obj.fields[attr]
            res = self.index.resolve_method(obj.cls, attr)
            if res is not None:
                kind, ci, fn = res
                if kind == "property":
                    return self.call_repo(f"{ci.module.rel}:{ci.name}.{attr}", [], {}, self_obj=obj)
                return SFunc("repo", f"{ci.module.rel}:{ci.name}.{attr}", self_obj=obj, node=fn, module=ci.module, cls=ci)
            if obj.lazy is not None:
                v = obj.lazy(attr)
                if v is not None:
                    obj.fields[attr] = v
                    return v
            for ci in self.index.mro(obj.cls):
                if attr in ci.class_attrs:
                    return self.ev(ci.class_attrs[attr], Frame(ci.module.rel, ast.parse("def _(): pass").body[0], ci.module, ci, None))
            if attr == "__class__":
                return SClass(obj.cls)
            raise Unsupported(f"attribute {obj.cls}.{attr} is not modelled")
        if isinstance(obj, SOpaque):
            if attr in obj.attrs:
                return obj.attrs[attr]
            return SFunc("builtin", f"opaque.{attr}", self_obj=obj)
        if isinstance(obj, (SList, SDict, SSet, SStr, str, bytes, tuple)):
            return SFunc("builtin", f"{_tname(obj)}.{attr}", self_obj=obj)
        if isinstance(obj, SInt):
            return SFunc("builtin", f"int.{attr}", self_obj=obj)
        if isinstance(obj, SModule):
            for k, fn in self.cx.ghost.get("module_attrs", {}).items():
                if f"{obj.name}.{attr}".endswith(k):
                    return fn(self.cx)
            return SFunc("builtin", f"{obj.name}.{attr}")
        if isinstance(obj, SClass):
            ci = self.index.find_class(obj.name)
            if ci is not None:
                if attr in ci.class_attrs and _is_enum(self.index, obj.name):
                    return SEnumMember(obj.name, attr, self._enum_value(ci, attr))
                res = self.index.resolve_method(obj.name, attr)
                if res is not None:
                    kind, c2, fn = res
                    return SFunc("repo", f"{c2.module.rel}:{c2.name}.{attr}", node=fn, module=c2.module, cls=c2)
                if attr in ci.class_attrs:
                    return self.ev(ci.class_attrs[attr], Frame(ci.module.rel, ast.parse("def _(): pass").body[0], ci.module, ci, None))
            raise Unsupported(f"class attribute {obj.name}.{attr}")
        if isinstance(obj, SEnumMember) and attr == "value":
            return obj.value
        if isinstance(obj, SEnumMember):
            res = self.index.resolve_method(obj.enum, attr)
            if res is not None:
                kind, c2, fn = res
                return SFunc("repo", f"{c2.module.rel}:{c2.name}.{attr}", self_obj=obj, node=fn, module=c2.module, cls=c2)
        if isinstance(obj, SExc):
            return SOpaque("excattr")
        if isinstance(obj, SFunc) and obj.kind == "builtin" and obj.self_obj is None:
            return SFunc("builtin", f"{obj.name}.{attr}")
        if isinstance(obj, SFunc) and obj.kind == "super":
            res = None
            mro = self.index.mro(obj.self_obj.cls)
            names = [c.name for c in mro]
            start = names.index(obj.cls.name) + 1 if obj.cls.name in names else 0
            for ci in mro[start:]:
                if attr in ci.methods:
                    return SFunc("repo", f"{ci.module.rel}:{ci.name}.{attr}", self_obj=obj.self_obj, node=ci.methods[attr], module=ci.module, cls=ci)
            if attr == "__init__":
                return SFunc("builtin", "object.__init__", self_obj=obj.self_obj)
            raise Unsupported(f"super().{attr}")
        raise Unsupported(f"attribute .{attr} on {type(obj).__name__}")

    def _enum_value(self, ci, attr):
        v = ci.class_attrs[attr]
        return v.value if isinstance(v, ast.Constant) else None

    def ev_Subscript(self, e, fr):
        obj = self.ev(e.value, fr)
        if isinstance(e.slice, ast.Slice):
            lo = self.ev(e.slice.lower, fr) if e.slice.lower is not None else None
            hi = self.ev(e.slice.upper, fr) if e.slice.upper is not None else None
            st = self.ev(e.slice.step, fr) if e.slice.step is not None else None
            return self.b.getslice(obj, lo, hi, st)
        key = self.ev(e.slice, fr)
        return self.b.getitem(obj, key)

    def ev_Lambda(self, e, fr):
        return SFunc("lambda", "<lambda>", node=e, module=fr.module, cls=fr.cls, closure=fr)

    def ev_NamedExpr(self, e, fr):
        v = self.ev(e.value, fr)
        fr.locals[e.target.id] = v
        return v

    def ev_Yield(self, e, fr):
        v = self.ev(e.value, fr) if e.value is not None else None
        cx = self.cx
        idx = fr.yield_count
        fr.yield_count += 1
        cx.event("yield", v)
        c = fr.contract
        if c is not None and fr.target == self.verifying:
            for name, f in c.at_yield(cx, fr.args_ns if fr.args_ns is not None else fr.locals, v, idx):
                cx.oblige(f"{fr.target}#at_yield:{name}", f, kind="post")
        return None

    def ev_ListComp(self, e, fr):
        return self.b.comprehension(e, fr, "list")

    def ev_GeneratorExp(self, e, fr):
        return self.b.comprehension(e, fr, "gen")

    def ev_DictComp(self, e, fr):
        return self.b.dict_comprehension(e, fr)

    def ev_Starred(self, e, fr):
        raise Unsupported("starred expression")

    # ---- calls -----------------------------------------------------------------------------------
    def ev_Call(self, e: ast.Call, fr: Frame):
        if self.is_dropped_call(e, fr):
            return None
        if isinstance(e.func, ast.Name) and e.func.id == "cast" and len(e.args) == 2 and "cast" not in fr.locals:
            return self.ev(e.args[1], fr)   # typing.cast: the type expression is not evaluated
        # super()
        if isinstance(e.func, ast.Name) and e.func.id == "super" and not e.args:
            return SFunc("super", "super", self_obj=fr.locals.get("self"), cls=fr.cls)
        # builtins that need the unevaluated argument (comprehension consumers)
        if isinstance(e.func, ast.Name) and e.func.id in ("sum", "all", "any", "list", "tuple") and len(e.args) >= 1 \
                and isinstance(e.args[0], (ast.GeneratorExp, ast.ListComp)) and e.func.id not in fr.locals:
            return self.b.consume_comprehension(e.func.id, e.args[0], e.args[1:], fr)
        f = self.ev(e.func, fr)
        pos = []
        for a in e.args:
            if isinstance(a, ast.Starred):
                v = self.ev(a.value, fr)
                c = self.iter_concrete(v)
                if c is None:
                    raise Unsupported("star-args of an abstract sequence")
                pos.extend(c)
            else:
                pos.append(self.ev(a, fr))
        kw = {}
        for k in e.keywords:
            if k.arg is None:
                d = self.ev(k.value, fr)
                if isinstance(d, SDict) and d.concrete is not None and not d.store:
                    kw.update(d.concrete)
                else:
                    raise Unsupported("**kwargs of an abstract dict")
            else:
                kw[k.arg] = self.ev(k.value, fr)
        return self.call_value(f, pos, kw, fr)

    def call_value(self, f, pos: list, kw: dict, fr: Optional[Frame]):
        if isinstance(f, SFunc):
            if f.kind == "repo":
                return self.call_repo(f.name, pos, kw, self_obj=f.self_obj)
            if f.kind == "builtin":
                return self.b.call(f.name, f.self_obj, pos, kw, fr)
            if f.kind == "lambda":
                node = f.node
                mi = f.module
                fn = node if isinstance(node, ast.FunctionDef) else _lambda_as_def(node)
                fr2 = Frame((fr.target if fr else "") + ":<lambda>", fn, mi, f.cls, None)
                fr2.closure = f.closure  # type: ignore[attr-defined]
                self.bind_args(fn, fr2, pos, kw)
                return self._run_frame(fr2)
            if f.kind == "py":
                return f.py(self, *pos, **kw)
        if isinstance(f, SClass):
            return self.construct(f.name, pos, kw, fr)
        if isinstance(f, SOpaque) and f.attrs.get("callable"):
            return f.attrs["callable"](self, *pos, **kw)
        raise Unsupported(f"call of {f!r}")

    def construct(self, cls: str, pos: list, kw: dict, fr):
        if cls in EXC_BASES:
            return SExc(cls)
        if self.b.has(cls):
            return self.b.call(cls, None, pos, kw, fr)
        ci = self.index.find_class(cls)
        if ci is None:
            raise Unsupported(f"constructor of unknown class {cls}")
        c = self.registry.get(f"{ci.module.rel}:{cls}.__new__")
        if c is not None:
            return self.call_by_contract(c, _dummy_fn(), pos, kw)
        if self.index.is_subclass(cls, "Exception") or any(b in EXC_BASES for b in ci.bases):
            return SExc(cls)
        obj = SObj(cls, {}, fresh=True)
        obj.ident = z3.Int(self.cx._name(cls))
        res = self.index.resolve_method(cls, "__init__")
        if res is not None:
            kind, c2, fn = res
            self.call_repo(f"{c2.module.rel}:{c2.name}.__init__", pos, kw, self_obj=obj)
        return obj


def _load(t):
    import copy
    t2 = copy.deepcopy(t)
    for n in ast.walk(t2):
        if hasattr(n, "ctx"):
            n.ctx = ast.Load()
    return t2


def _tname(v) -> str:
    if isinstance(v, SList):
        return "list"
    if isinstance(v, SDict):
        return "dict"
    if isinstance(v, SSet):
        return "set"
    if isinstance(v, (SStr, str)):
        return "str" if not (isinstance(v, SStr) and v.kind == "bytes") else "bytes"
    if isinstance(v, bytes):
        return "bytes"
    if isinstance(v, tuple):
        return "tuple"
    return type(v).__name__


def _is_enum(index: SourceIndex, name: str) -> bool:
    ci = index.find_class(name)
    return ci is not None and any(b in ("Enum", "IntEnum", "StrEnum") for b in ci.bases)


def _lambda_as_def(node: ast.Lambda) -> ast.FunctionDef:
    fn = ast.FunctionDef(name="<lambda>", args=node.args, body=[ast.Return(value=node.body)], decorator_list=[],
                         returns=None, type_comment=None, type_params=[])
    ast.copy_location(fn, node)
    ast.fix_missing_locations(fn)
    return fn


def _dummy_fn() -> ast.FunctionDef:
    return ast.parse("def _(*args, **kwargs): pass").body[0]  # type: ignore[return-value]
