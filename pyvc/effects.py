"""C18: write-frame / read-frame of module-level and class-level state (effect inference over the AST).

Obligation:  W ∩ R ⊆ Allowed   where
  W = module/class-level locations written by any function reachable (call graph by simple name, an
      over-approximation) from the roots Fandango.__init__ / fuzz / generate_solutions / parse,
  R = module/class-level locations read by reachable functions,
  Allowed = committed list below (each with the reason it cannot carry state between instances).

Write forms recognised (sound for these syntactic forms, blind to setattr()/globals()/exec tricks):
  `global X` + assignment; `module.attr = ...`; `Class.attr = ...` / `cls.attr = ...` / `type(self).attr = ...` /
  `self.__class__.attr = ...`; in-place mutation (append/extend/add/update/clear/pop/remove/insert/setdefault/
  popitem/discard, subscript store, del) of a module-level container, of `module.attr` / `Class.attr`, of a mutable
  class attribute through `self.attr` when no method assigns `self.attr`, and of a mutable default argument;
  a METHOD decorated with functools.lru_cache / functools.cache (its memo table is process-wide, shared by all instances and
  keyed by their __hash__ / __eq__).
"""
from __future__ import annotations

import ast
from dataclasses import dataclass, field
from typing import Optional

from .source import ModuleInfo, SourceIndex

MUTATORS = {"append", "extend", "add", "update", "clear", "pop", "remove", "insert", "setdefault", "popitem", "discard",
            "sort", "reverse", "appendleft", "extendleft", "__setitem__", "__delitem__"}
IMPLICIT = {"__hash__", "__eq__", "__iter__", "__getitem__", "__len__", "__str__", "__repr__", "__contains__", "__deepcopy__",
            "__copy__", "__bool__", "__int__", "__bytes__", "__lt__", "__le__", "__gt__", "__ge__", "__ne__", "__add__",
            "__init__", "__new__", "__call__", "__enter__", "__exit__", "__next__", "__setitem__", "__delitem__",
            "__post_init__", "__getattr__"}


@dataclass
class FuncEffects:
    qual: str                       # rel:Class.method
    writes: dict = field(default_factory=dict)   # (owner, name) -> line
    reads: set = field(default_factory=set)
    calls: set = field(default_factory=set)      # simple names
    simple: str = ""


def _mutable_value(v: Optional[ast.expr]) -> bool:
    if v is None:
        return False
    if isinstance(v, (ast.List, ast.Dict, ast.Set, ast.ListComp, ast.DictComp, ast.SetComp)):
        return True
    if isinstance(v, ast.Call):
        f = ast.unparse(v.func).split("[")[0]
        return f in ("list", "dict", "set", "defaultdict", "collections.defaultdict", "deque", "collections.deque", "Counter", "OrderedDict")
    return False


class Analyzer:
    def __init__(self, index: SourceIndex):
        self.index = index
        self.funcs: dict[str, FuncEffects] = {}
        self.by_simple: dict[str, list[str]] = {}
        self.property_names: set[str] = set()
        self.modules = index.all_modules()
        self.module_by_dotted = {}
        for mi in self.modules:
            dotted = "fandango." + mi.rel[:-3].replace("/", ".")
            if dotted.endswith(".__init__"):
                dotted = dotted[: -len(".__init__")]
            self.module_by_dotted[dotted] = mi
        self.module_by_dotted["fandango"] = self.module_by_dotted.get("fandango.__init__", self.module_by_dotted.get("fandango"))

    # ---- name resolution -------------------------------------------------------------------------
    def resolve_base(self, mi: ModuleInfo, cls: Optional[str], name: str):
        """what does the global name `name` denote in module mi?  -> ('module', rel) | ('class', Name) | ('var', rel, name) | None"""
        if name in mi.classes:
            return ("class", name)
        if name in mi.constants:
            return ("var", mi.rel, name)
        if name in mi.imports:
            mod, nm = mi.imports[name]
            if nm is None:
                m2 = self.module_by_dotted.get(mod)
                return ("module", m2.rel) if m2 is not None else ("extmodule", mod)
            full = f"{mod}.{nm}"
            if full in self.module_by_dotted:
                return ("module", self.module_by_dotted[full].rel)
            m2 = self.module_by_dotted.get(mod)
            if m2 is not None:
                if nm in m2.classes:
                    return ("class", nm)
                if nm in m2.constants:
                    return ("var", m2.rel, nm)
                if nm in m2.imports:
                    return self.resolve_base(m2, None, nm)
                return None
            if self.index.find_class(nm) is not None and mod.startswith("fandango"):
                return ("class", nm)
            return ("ext", mod, nm)
        return None

    # ---- per function ----------------------------------------------------------------------------
    def analyze(self):
        for mi in self.modules:
            for fn in mi.functions.values():
                self._function(mi, None, fn, f"{mi.rel}:{fn.name}")
            for ci in mi.classes.values():
                for nm, fn in list(ci.methods.items()) + list(ci.properties.items()) + [(k + "@setter", v) for k, v in ci.setters.items()]:
                    self._function(mi, ci, fn, f"{mi.rel}:{ci.name}.{nm}")
                for p in ci.properties:
                    self.property_names.add(p)
            # module top level code runs at import: not part of any instance's activity
        for q, fe in self.funcs.items():
            self.by_simple.setdefault(fe.simple, []).append(q)
        return self

    def _locals(self, fn: ast.FunctionDef):
        a = fn.args
        names = {p.arg for p in a.posonlyargs + a.args + a.kwonlyargs}
        if a.vararg:
            names.add(a.vararg.arg)
        if a.kwarg:
            names.add(a.kwarg.arg)
        globs = set()
        for n in ast.walk(fn):
            if isinstance(n, ast.Global):
                globs.update(n.names)
            elif isinstance(n, ast.Name) and isinstance(n.ctx, (ast.Store, ast.Del)):
                names.add(n.id)
            elif isinstance(n, (ast.Import, ast.ImportFrom)):
                for al in n.names:
                    names.add(al.asname or al.name.split(".")[0])
            elif isinstance(n, (ast.FunctionDef, ast.ClassDef)) and n is not fn:
                names.add(n.name)
            elif isinstance(n, ast.ExceptHandler) and n.name:
                names.add(n.name)
        return names - globs, globs

    def _function(self, mi: ModuleInfo, ci, fn: ast.FunctionDef, qual: str):
        fe = FuncEffects(qual, simple=fn.name)
        self.funcs[qual] = fe
        local, globs = self._locals(fn)
        local_imports = {}
        for n in ast.walk(fn):
            if isinstance(n, ast.ImportFrom):
                for al in n.names:
                    local_imports[al.asname or al.name] = (n.module or "", al.name)
            elif isinstance(n, ast.Import):
                for al in n.names:
                    local_imports[al.asname or al.name.split(".")[0]] = (al.name, None)
        is_classmethod = any(ast.unparse(d) == "classmethod" for d in fn.decorator_list)
        for d in fn.decorator_list:
            # a memoising decorator keeps a process-wide table next to the function (for methods it is shared by ALL instances,
            # keyed by the arguments' __hash__ / __eq__): every call reads and writes it
            name = ast.unparse(d.func if isinstance(d, ast.Call) else d)
            # only METHODS: their memo is keyed by the receiver's __hash__ / __eq__, which need not tell instances of different
            # specs apart; a memo on a module-level function of plain values cannot carry anything but the function's own results
            if ci is not None and name.split(".")[-1] in ("lru_cache", "cache"):
                fe.writes[("memo:" + qual, name.split(".")[-1])] = fn.lineno
                fe.reads.add(("memo:" + qual, name.split(".")[-1]))
        defaults = {}
        a = fn.args
        params = a.posonlyargs + a.args
        for p, d in zip(params[len(params) - len(a.defaults):], a.defaults):
            if _mutable_value(d):
                defaults[p.arg] = d
        for p, d in zip(a.kwonlyargs, a.kw_defaults):
            if _mutable_value(d):
                defaults[p.arg] = d
        instance_assigned = set()
        if ci is not None:
            for m in list(ci.methods.values()):
                for n in ast.walk(m):
                    if isinstance(n, ast.Attribute) and isinstance(n.ctx, ast.Store) and isinstance(n.value, ast.Name) and n.value.id == "self":
                        instance_assigned.add(n.attr)

        def base_of(expr):
            """location denoted by an expression used as an object: -> key (owner, name) or None"""
            if isinstance(expr, ast.Name):
                if expr.id in globs:
                    return (mi.rel, expr.id)
                if expr.id in local and expr.id not in local_imports:
                    if expr.id in defaults:
                        return (qual, "default:" + expr.id)
                    return None
                r = None
                if expr.id in local_imports:
                    mod, nm = local_imports[expr.id]
                    tmp = ModuleInfo(mi.rel, mi.path, "", mi.tree, {}, {}, {expr.id: (mod, nm)}, {})
                    r = self.resolve_base(tmp, None, expr.id)
                else:
                    r = self.resolve_base(mi, ci.name if ci else None, expr.id)
                if r and r[0] == "var":
                    return (r[1], r[2])
                return None
            if isinstance(expr, ast.Attribute):
                v = expr.value
                if isinstance(v, ast.Name):
                    if v.id == "cls" and is_classmethod and ci is not None:
                        return ("class:" + ci.name, expr.attr)
                    if v.id == "self" and ci is not None:
                        # mutable class attribute never shadowed by an instance attribute
                        for c2 in self.index.mro(ci.name):
                            if expr.attr in c2.class_attrs and _mutable_value(c2.class_attrs[expr.attr]) and expr.attr not in instance_assigned:
                                return ("class:" + c2.name, expr.attr)
                        return None
                    if v.id in local and v.id not in local_imports and v.id not in globs:
                        return None
                    r = None
                    if v.id in local_imports:
                        mod, nm = local_imports[v.id]
                        tmp = ModuleInfo(mi.rel, mi.path, "", mi.tree, {}, {}, {v.id: (mod, nm)}, {})
                        r = self.resolve_base(tmp, None, v.id)
                    else:
                        r = self.resolve_base(mi, None, v.id)
                    if r is None:
                        return None
                    if r[0] == "module":
                        return (r[1], expr.attr)
                    if r[0] == "class":
                        cinfo = self.index.find_class(r[1])
                        if cinfo is not None and (expr.attr in cinfo.methods or expr.attr in cinfo.properties):
                            return None
                        return ("class:" + r[1], expr.attr)
                    return None
                txt = ast.unparse(v)
                if txt in ("self.__class__", "type(self)") and ci is not None:
                    return ("class:" + ci.name, expr.attr)
            return None

        for n in ast.walk(fn):
            # --- writes by assignment
            targets = []
            if isinstance(n, ast.Assign):
                targets = n.targets
            elif isinstance(n, (ast.AugAssign, ast.AnnAssign)):
                targets = [n.target]
            elif isinstance(n, ast.Delete):
                targets = n.targets
            for t in targets:
                for tt in ast.walk(t) if isinstance(t, (ast.Tuple, ast.List)) else [t]:
                    if isinstance(tt, ast.Name) and tt.id in globs:
                        fe.writes[(mi.rel, tt.id)] = tt.lineno
                    elif isinstance(tt, ast.Attribute):
                        k = base_of(tt)
                        if k is not None and not (isinstance(tt.value, ast.Name) and tt.value.id == "self"):
                            fe.writes[k] = tt.lineno
                    elif isinstance(tt, ast.Subscript):
                        k = base_of(tt.value)
                        if k is not None:
                            fe.writes[k] = tt.lineno
            # --- writes by mutator calls, calls, reads
            if isinstance(n, ast.Call):
                f = n.func
                if isinstance(f, ast.Attribute):
                    fe.calls.add(f.attr)
                    if f.attr in MUTATORS:
                        k = base_of(f.value)
                        if k is not None:
                            fe.writes[k] = n.lineno
                elif isinstance(f, ast.Name):
                    fe.calls.add(f.id)
                    if self.index.find_class(f.id) is not None:
                        fe.calls.add("__init__")
            if isinstance(n, ast.Attribute) and isinstance(n.ctx, ast.Load):
                k = base_of(n)
                if k is not None:
                    fe.reads.add(k)
                fe.calls.add("@attr:" + n.attr)
            if isinstance(n, ast.Name) and isinstance(n.ctx, ast.Load):
                k = base_of(n)
                if k is not None:
                    fe.reads.add(k)

    # ---- reachability ----------------------------------------------------------------------------
    def reachable(self, roots: list[str]) -> set:
        seen = set()
        work = [r for r in roots if r in self.funcs]
        for q, fe in self.funcs.items():
            if fe.simple in IMPLICIT:
                work.append(q)
        while work:
            q = work.pop()
            if q in seen:
                continue
            seen.add(q)
            fe = self.funcs[q]
            for c in fe.calls:
                if c.startswith("@attr:"):
                    nm = c[6:]
                    if nm not in self.property_names:
                        continue
                    cands = [x for x in self.by_simple.get(nm, [])]
                else:
                    cands = self.by_simple.get(c, [])
                for x in cands:
                    if x not in seen:
                        work.append(x)
        return seen
