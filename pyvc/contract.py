"""Sidecar contracts.

A Contract describes ONE repository function.  The same declarative parts are used in both directions:

* verifying the function: `inputs` builds the symbolic pre-state, `requires` is assumed, the real body is
  executed symbolically, `ensures` / `ensures_raise` / `at_yield` / frames become obligations;
* at a call site of the function (modular reasoning): `requires` becomes an obligation on the caller, the
  result is `fresh_result` constrained by the assumed `ensures`; the body is never looked at.

Loop invariants are keyed by the loop's ordinal in the function (source order) and, as a guard against silent
re-keying after an edit, by the text of the iterated expression.
"""
from __future__ import annotations

from dataclasses import dataclass, field
from typing import Any, Callable, Optional


@dataclass
class Loop:
    ordinal: int
    iter_text: Optional[str] = None           # ast.unparse of the iterated expression / while test
    inv: Optional[Callable] = None            # (cx, env, i) -> list[(name, z3 Bool)]
    havoc: Optional[Callable] = None          # (cx, env, i) -> None : replaces the loop's write set by fresh values
    modifies: tuple = ()                      # local names (and 'obj.field' strings) the loop may write
    variant: Optional[Callable] = None        # while loops: (cx, env) -> z3 Int term that must decrease and stay >= 0
    unroll: bool = False
    body_post: Optional[Callable] = None      # (cx, env, i, events of this iteration) -> list[(name, z3 Bool)]


class Contract:
    target: str = ""                      # 'rel/path.py:Class.method'
    properties: tuple = ()                # property ids this contract serves
    inline: bool = False                  # call sites execute the body instead of using the contract
    loops: dict[int, Loop] = {}
    pure: bool = False
    trusted: bool = False                 # assumed contract: used at call sites, never verified (listed in evidence)
    abstract: bool = False                # contract of an abstract method: overrides are verified against it
    float_mode: str = "ieee"              # 'ieee' (exact binary64) or 'real' (relaxed standard model, see values.FloatMode)
    anchors: tuple = ()                   # representable constants for the monotonicity rule of the relaxed model
    key: str = ""                         # registry key if several contract instances share one target
    cases: tuple = (None,)                # verification is repeated for each case (concrete case split of the inputs)

    # ---- verification direction -------------------------------------------------------------------
    def inputs(self, cx, case=None) -> dict:
        """Build the symbolic arguments (name -> value).  Everything created here is pre-existing (not fresh)."""
        raise NotImplementedError

    def requires(self, cx, a) -> list:
        return []

    def ensures(self, cx, a, result) -> list:
        """[(name, z3 Bool)] on normal return."""
        return []

    def ensures_raise(self, cx, a, exc) -> list:
        """[(name, z3 Bool)] when the function exits with exception `exc` (default: no exceptional exit allowed
        is NOT assumed; by default an exceptional exit is unconstrained)."""
        return []

    def at_yield(self, cx, a, value, index) -> list:
        return []

    def finish(self, cx, a, outcome) -> list:
        """extra obligations over the whole outcome (events, heap write log)"""
        return []

    # ---- call-site direction ----------------------------------------------------------------------
    def fresh_result(self, cx, a) -> Any:
        raise NotImplementedError

    def may_raise(self, cx, a) -> list:
        """list of (exception class name, z3 Bool condition | None for 'non-deterministically')"""
        return []

    def effects(self, cx, a) -> None:
        """havoc of the callee's modifies-frame at a call site"""
        return None

    # ---- replay ------------------------------------------------------------------------------------
    def replay(self, obligation: str, model: dict) -> Optional[str]:
        """Return the text of a stand-alone Python script that runs the REAL function on the counterexample and
        exits 1 if the violation reproduces (0 otherwise), or None."""
        return None


REGISTRY: dict[str, Contract] = {}


def register(c):
    inst = c() if isinstance(c, type) else c
    assert inst.target, c
    REGISTRY[inst.key or inst.target] = inst
    return c


def named(prefix: str, items: list) -> list:
    return [(f"{prefix}:{n}", f) for n, f in items]
