"""Verification of one function against its contract: path exploration -> VCs."""
from __future__ import annotations

import time
import traceback
from dataclasses import dataclass, field
from typing import Any, Optional

import z3

from .contract import REGISTRY, Contract
from .ctx import Ctx, PathInfeasible, PathStop, explore
from .interp import Interp
from .ops import PyRaise
from .smt import VC, to_smt2
from .source import MissingFunction, SourceIndex
from .values import Unsupported


@dataclass
class Outcome:
    kind: str  # 'return' | 'raise'
    value: Any = None
    exc: Any = None
    events: list = field(default_factory=list)
    writes: list = field(default_factory=list)


@dataclass
class FunctionReport:
    target: str
    sha: str = ""
    paths: int = 0
    vcs: list = field(default_factory=list)
    status: str = "ok"  # ok | unsupported | missing | error
    message: str = ""
    dropped: list = field(default_factory=list)
    assumed: list = field(default_factory=list)
    seconds: float = 0.0
    cases: int = 0


def _symbolic_for_annotation(cx, arg):
    import ast as _ast
    if arg.annotation is None:
        return None
    txt = _ast.unparse(arg.annotation).replace(" ", "")
    if txt == "bool":
        return cx.bool("param_" + arg.arg)
    if txt == "int":
        return cx.int("param_" + arg.arg)
    if txt in ("Optional[int]", "int|None", "None|int"):
        return cx.int("param_" + arg.arg) if cx.choose("param_" + arg.arg + "_given") else None
    if txt in ("Optional[bool]", "bool|None"):
        return cx.bool("param_" + arg.arg) if cx.choose("param_" + arg.arg + "_given") else None
    return None


def verify_function(index: SourceIndex, c: Contract, registry: Optional[dict] = None) -> FunctionReport:
    rep = FunctionReport(c.target)
    t0 = time.time()
    try:
        mi, ci, fn, kind = index.function(c.target)
    except MissingFunction as e:
        rep.status = "missing"
        rep.message = f"function {e} not found in the working tree"
        return rep
    rep.sha = index.sha(mi, fn)
    vcs: list[VC] = []
    dropped: list[str] = []
    assumed: list[str] = []
    from .values import FloatMode
    FloatMode.mode = c.float_mode
    FloatMode.abstract = bool(getattr(c, "float_abstract", False))
    FloatMode.anchors = tuple(c.anchors)
    try:
        for case in c.cases:
            rep.cases += 1

            def run_path(cx: Ctx, case=case):
                cx.tag = c.key or c.target
                it = Interp(index, cx, registry, verifying=c.target)
                a = c.inputs(cx, case) if case is not None else c.inputs(cx)
                for name, f in c.requires(cx, a):
                    cx.assume(f)
                # vacuity guard: the precondition must be satisfiable (checked once per case on the first path)
                if not cx.prefix:
                    cx.oblige(f"{c.key or c.target}#cover:requires" + (f"[{case}]" if case is not None else ""), z3.BoolVal(True),
                              kind="cover", expect="sat")
                if hasattr(c, "script"):
                    # relational / multi-call obligations: the contract drives several real functions itself
                    for name, f in c.script(cx, it, a):
                        cx.oblige(f"{c.key or c.target}#lemma:{name}" + (f"[{case}]" if case is not None else ""), f, kind="post")
                    return None
                from .interp import Frame
                fr = Frame(c.target, fn, mi, ci, c)
                fr.locals.update({k: v for k, v in a.items() if not k.startswith("@")})
                # parameters the contract does not supply take their declared defaults
                fa = fn.args
                plist = fa.posonlyargs + fa.args
                for p_, d_ in list(zip(plist[len(plist) - len(fa.defaults):], fa.defaults)) + list(zip(fa.kwonlyargs, fa.kw_defaults)):
                    if p_.arg in fr.locals or d_ is None:
                        continue
                    # a parameter the contract does not mention ranges over its annotated type (not just its default),
                    # so that a newly added parameter is explored instead of being silently fixed to its default
                    sv = _symbolic_for_annotation(cx, p_) if getattr(c, "explore_unlisted_params", True) else None
                    fr.locals[p_.arg] = sv if sv is not None else it.ev(d_, fr)
                fr.args_ns = a
                cx.ghost["pre_args"] = a
                try:
                    val = it._run_frame(fr)
                    out = Outcome("return", val, None, list(cx.events), list(cx.writes))
                except PyRaise as pr:
                    out = Outcome("raise", None, pr.exc, list(cx.events), list(cx.writes))
                except Unsupported as us:
                    if not getattr(c, "prefix_only", False) or cx.loop_frames:
                        raise
                    # prefix contract: the obligations speak about what happens BEFORE the first construct the engine
                    # cannot follow; the path is cut there
                    cx.assume_note(f"{c.target}: explored up to the first construct outside the engine's reach ({str(us)[:80]})")
                    out = Outcome("cut", None, None, list(cx.events), list(cx.writes))
                suffix = f"[{case}]" if case is not None else ""
                if out.kind == "return":
                    for name, f in c.ensures(cx, a, out.value):
                        cx.oblige(f"{c.key or c.target}#post:{name}{suffix}", f, kind="post")
                else:
                    for name, f in c.ensures_raise(cx, a, out.exc):
                        cx.oblige(f"{c.key or c.target}#post_raise:{name}{suffix}", f, kind="post")
                for name, f in c.finish(cx, a, out):
                    cx.oblige(f"{c.key or c.target}#post:{name}{suffix}", f, kind="post")
                return out

            results = explore(run_path)
            rep.paths += len(results)
            for r in results:
                cx = r.cx
                for d in cx.dropped:
                    if d not in dropped:
                        dropped.append(d)
                for d in cx.assumed:
                    if d not in assumed:
                        assumed.append(d)
                for ob in r.obligations:
                    negate = ob.expect == "unsat"
                    smt2 = to_smt2(ob.assumptions, ob.goal, negate=negate)
                    vcs.append(VC(ob.name, smt2, ob.kind, ob.expect, ob.path, "FloatingPoint" in smt2 or "fp." in smt2,
                                  ob.note, c.target))
    except Unsupported as e:
        rep.status = "unsupported"
        rep.message = str(e)
    except KeyError as e:
        # a contract callback refers to a local / field the code no longer has: the contract does not match the code
        rep.status = "unsupported"
        rep.message = f"the contract refers to {e} which the current code does not define (contract needs re-annotation)"
    except MissingFunction as e:
        rep.status = "missing"
        rep.message = f"{e}"
    except Exception as e:  # engine bug: reported as a crash of the checker, never as a verdict
        rep.status = "error"
        rep.message = f"{type(e).__name__}: {e}\n{traceback.format_exc()[-1500:]}"
    FloatMode.mode = "ieee"
    FloatMode.abstract = False
    FloatMode.anchors = ()
    rep.vcs = vcs
    rep.dropped = dropped
    rep.assumed = assumed
    rep.seconds = time.time() - t0
    return rep
