"""Helpers for writing sidecar contracts."""
from __future__ import annotations

from typing import Any, Callable, Optional

import z3

from .contract import Contract, Loop, register, named  # noqa: F401
from .lists import record_list, term_list, field_fn  # noqa: F401
from .ops import cmp, int_binop, list_len  # noqa: F401
from .values import (BVW, F64, RNE, SBool, SDict, SExc, SFloat, SFunc, SInt, SList, SObj, SOpaque, SSet, SStr,  # noqa: F401
                     Unsupported, fpval, mk_bv, to_term_bool, to_term_float, to_term_int)

And, Or, Not, Implies, If, ForAll, Exists = z3.And, z3.Or, z3.Not, z3.Implies, z3.If, z3.ForAll, z3.Exists


def fp(x) -> Any:
    """float term of a python number / SInt / SFloat"""
    return to_term_float(x)


def _real_mode() -> bool:
    from .values import FloatMode
    return FloatMode.mode == "real"


def fle(a, b):
    return (fp(a) <= fp(b)) if _real_mode() else z3.fpLEQ(fp(a), fp(b))


def flt(a, b):
    return (fp(a) < fp(b)) if _real_mode() else z3.fpLT(fp(a), fp(b))


def feq(a, b):
    return (fp(a) == fp(b)) if _real_mode() else z3.fpEQ(fp(a), fp(b))


def fge(a, b):
    return (fp(a) >= fp(b)) if _real_mode() else z3.fpGEQ(fp(a), fp(b))


def fsub(a, b):
    """exact a - b of two float-valued spec terms (spec-level, not a rounded operation); ieee mode: rounded"""
    return (fp(a) - fp(b)) if _real_mode() else z3.fpSub(RNE, fp(a), fp(b))


def int_to_fp(t):
    """float of an index term (bit-vector in ieee mode, Int in real mode)"""
    if z3.is_bv(t):
        return z3.fpSignedToFP(RNE, t, F64)
    return z3.ToReal(t)


def kconst(like, k: int):
    """integer constant k in the sort of term `like`"""
    return z3.BitVecVal(k, like.size()) if z3.is_bv(like) else z3.IntVal(k)


def as_float(v):
    """the float term of a value that Python would treat as a number (int 0 returned instead of 0.0 etc.)"""
    return to_term_float(v)


def T(v):
    """z3 Bool of a python/SBool value"""
    if isinstance(v, bool):
        return z3.BoolVal(v)
    if isinstance(v, SBool):
        return v.term
    return v


def idx_sort(i):
    t = i.term if isinstance(i, SInt) else i
    return t.sort()


def idx_term(i):
    if isinstance(i, SInt):
        return i.term
    if isinstance(i, int):
        return z3.IntVal(i)
    return i


def idx_like(i, k: int):
    """constant k in the sort of index i"""
    s = idx_sort(i)
    return z3.BitVecVal(k, s.size()) if z3.is_bv_sort(s) else z3.IntVal(k)


def same_sort_const(like, k: int):
    s = like.sort()
    return z3.BitVecVal(k, s.size()) if z3.is_bv_sort(s) else z3.IntVal(k)


class PrefixAll:
    """Ghost predicate  All(i) := forall j < i. p(j)  given by its recursive definition; instances are assumed where
    needed (a definition by primitive recursion on the index: conservative, no axiom about p)."""

    def __init__(self, cx, base: str, p: Callable, sort):
        self.cx = cx
        self.p = p
        self.fn = cx.func(base, sort, z3.BoolSort())
        self.sort = sort
        zero = z3.BitVecVal(0, sort.size()) if z3.is_bv_sort(sort) else z3.IntVal(0)
        cx.assume(self.fn(zero))

    def at(self, i):
        return self.fn(idx_term(i))

    def unfold(self, i) -> None:
        """assume All(i+1) == (All(i) and p(i))"""
        it = idx_term(i)
        one = z3.BitVecVal(1, self.sort.size()) if z3.is_bv_sort(self.sort) else z3.IntVal(1)
        self.cx.assume(self.fn(it + one) == z3.And(self.fn(it), self.p(it)))


def elem_ident_list(cx, base: str, length, cls: str, extra: Optional[Callable] = None, fresh: bool = False) -> SList:
    """abstract list of pre-existing objects of class `cls`; element j has identity  <base>_id(j)."""
    s = idx_sort(length) if isinstance(length, SInt) else z3.IntSort()
    idf = cx.func(base + "_id", s, z3.IntSort())
    l = SList(None, length=length, fresh=fresh, label=base)
    l.ghost["id_fn"] = idf

    def elem(j, l=l):
        o = SObj(cls, {}, fresh=False, label=f"{base}[{idx_term(j)}]")
        o.ident = idf(idx_term(j))
        o.index = idx_term(j)  # type: ignore[attr-defined]
        o.owner = l  # type: ignore[attr-defined]
        if extra is not None:
            extra(o, idx_term(j))
        return o

    l.elem = elem
    l.ghost["ident"] = cx.const(base + "_listid", z3.IntSort())
    return l


def unknown_fields(cx, obj):
    """attributes of a pre-existing object that the contract does not describe: they may hold anything (a
    pre-existing value or None); reads return such a value, so code that starts to rely on a new attribute is
    explored instead of being declared out of reach"""
    def lazy(attr, cx=cx):
        if attr.startswith("__"):
            return None
        o = cx.opaque("unknown-field", base="field_" + attr, maybe_none=cx.bool(attr + "_is_none").term)
        o.fresh = False
        return o
    obj.lazy = lazy
    return obj
