"""Extraction of the *real* source: every run re-reads /repo/src/fandango from the working tree.

Nothing in /verif holds a copy of a function body.  A function is addressed as
``<path relative to src/fandango>:<Class.method | function>``.
"""
from __future__ import annotations

import ast
import hashlib
import os
from dataclasses import dataclass, field
from typing import Optional

REPO = os.environ.get("VERIF_REPO", "/repo")
SRC_ROOT = os.path.join(REPO, "src", "fandango")


class MissingFunction(Exception):
    pass


@dataclass
class ClassInfo:
    name: str
    module: "ModuleInfo"
    node: ast.ClassDef
    bases: list[str]
    methods: dict[str, ast.FunctionDef] = field(default_factory=dict)
    properties: dict[str, ast.FunctionDef] = field(default_factory=dict)
    setters: dict[str, ast.FunctionDef] = field(default_factory=dict)
    class_attrs: dict[str, ast.expr] = field(default_factory=dict)


@dataclass
class ModuleInfo:
    rel: str
    path: str
    text: str
    tree: ast.Module
    functions: dict[str, ast.FunctionDef] = field(default_factory=dict)
    classes: dict[str, ClassInfo] = field(default_factory=dict)
    imports: dict[str, tuple[str, Optional[str]]] = field(default_factory=dict)  # local name -> (module, name)
    constants: dict[str, ast.expr] = field(default_factory=dict)


def _decorator_names(fn: ast.FunctionDef) -> list[str]:
    out = []
    for d in fn.decorator_list:
        out.append(ast.unparse(d))
    return out


class SourceIndex:
    """Index of all modules under src/fandango of the working tree (parsed lazily)."""

    def __init__(self, root: str = SRC_ROOT):
        self.root = root
        self._modules: dict[str, ModuleInfo] = {}
        self._class_index: Optional[dict[str, list[ClassInfo]]] = None

    # -- modules ---------------------------------------------------------------------------
    def module(self, rel: str) -> ModuleInfo:
        if rel in self._modules:
            return self._modules[rel]
        path = os.path.join(self.root, rel)
        if not os.path.exists(path):
            raise MissingFunction(f"module {rel} not found under {self.root}")
        text = open(path, encoding="utf-8").read()
        tree = ast.parse(text, filename=path)
        mi = ModuleInfo(rel, path, text, tree)
        for node in tree.body:
            self._index_stmt(mi, node)
        self._modules[rel] = mi
        return mi

    def _index_stmt(self, mi: ModuleInfo, node: ast.stmt) -> None:
        if isinstance(node, (ast.FunctionDef,)):
            mi.functions[node.name] = node
        elif isinstance(node, ast.ClassDef):
            ci = ClassInfo(node.name, mi, node, [ast.unparse(b).split("[")[0].split(".")[-1] for b in node.bases])
            for item in node.body:
                if isinstance(item, ast.FunctionDef):
                    decs = _decorator_names(item)
                    if "property" in decs:
                        ci.properties[item.name] = item
                    elif any(d.endswith(".setter") for d in decs):
                        ci.setters[item.name] = item
                    else:
                        ci.methods[item.name] = item
                elif isinstance(item, ast.Assign) and len(item.targets) == 1 and isinstance(item.targets[0], ast.Name):
                    ci.class_attrs[item.targets[0].id] = item.value
                elif isinstance(item, ast.AnnAssign) and isinstance(item.target, ast.Name) and item.value is not None:
                    ci.class_attrs[item.target.id] = item.value
            mi.classes[node.name] = ci
        elif isinstance(node, ast.ImportFrom):
            for a in node.names:
                mi.imports[a.asname or a.name] = (node.module or "", a.name)
        elif isinstance(node, ast.Import):
            for a in node.names:
                mi.imports[a.asname or a.name.split(".")[0]] = (a.name, None)
        elif isinstance(node, ast.Assign) and len(node.targets) == 1 and isinstance(node.targets[0], ast.Name):
            mi.constants[node.targets[0].id] = node.value
        elif isinstance(node, ast.AnnAssign) and isinstance(node.target, ast.Name) and node.value is not None:
            mi.constants[node.target.id] = node.value
        elif isinstance(node, ast.If):
            # e.g. `if TYPE_CHECKING:` imports
            for s in node.body + node.orelse:
                self._index_stmt(mi, s)

    def all_modules(self) -> list[ModuleInfo]:
        out = []
        for dirpath, _dirs, files in os.walk(self.root):
            for f in sorted(files):
                if f.endswith(".py"):
                    rel = os.path.relpath(os.path.join(dirpath, f), self.root)
                    if rel.startswith(os.path.join("language", "parser", "Fandango")) or rel.startswith(
                        os.path.join("converters", "antlr", "ANTLRv4")
                    ):
                        continue  # generated ANTLR tables
                    try:
                        out.append(self.module(rel))
                    except SyntaxError:
                        pass
        return out

    # -- classes ---------------------------------------------------------------------------
    def class_index(self) -> dict[str, list[ClassInfo]]:
        if self._class_index is None:
            idx: dict[str, list[ClassInfo]] = {}
            for mi in self.all_modules():
                for ci in mi.classes.values():
                    idx.setdefault(ci.name, []).append(ci)
            self._class_index = idx
        return self._class_index

    def find_class(self, name: str, prefer_module: Optional[str] = None) -> Optional[ClassInfo]:
        cands = self.class_index().get(name, [])
        if not cands:
            return None
        if prefer_module:
            for c in cands:
                if c.module.rel == prefer_module:
                    return c
        return cands[0]

    def mro(self, name: str) -> list[ClassInfo]:
        """Simple left-to-right depth-first linearisation over classes defined in the repository."""
        out: list[ClassInfo] = []
        seen = set()

        def rec(n: str) -> None:
            ci = self.find_class(n)
            if ci is None or ci.name in seen:
                return
            seen.add(ci.name)
            out.append(ci)
            for b in ci.bases:
                rec(b)

        rec(name)
        return out

    def is_subclass(self, name: str, base: str) -> bool:
        if name == base:
            return True
        return any(ci.name == base for ci in self.mro(name)) or base in self._external_bases(name)

    def _external_bases(self, name: str) -> set[str]:
        out = set()
        for ci in self.mro(name):
            for b in ci.bases:
                if self.find_class(b) is None:
                    out.add(b)
        return out

    def resolve_method(self, cls: str, meth: str):
        """-> (kind, ClassInfo, FunctionDef) with kind in method/property/setter, or None."""
        for ci in self.mro(cls):
            if meth in ci.methods:
                return ("method", ci, ci.methods[meth])
            if meth in ci.properties:
                return ("property", ci, ci.properties[meth])
        return None

    def resolve_setter(self, cls: str, attr: str):
        for ci in self.mro(cls):
            if attr in ci.setters:
                return (ci, ci.setters[attr])
        return None

    # -- functions -------------------------------------------------------------------------
    def function(self, target: str):
        """target = 'rel/path.py:Qual.name' -> (ModuleInfo, ClassInfo|None, FunctionDef, kind)."""
        rel, qual = target.split(":")
        mi = self.module(rel)
        parts = qual.split(".")
        if len(parts) == 1:
            fn = mi.functions.get(parts[0])
            if fn is None:
                raise MissingFunction(target)
            return mi, None, fn, "function"
        cname, mname = parts
        kind = "method"
        if mname.endswith("@setter"):
            mname = mname[: -len("@setter")]
            kind = "setter"
        ci = mi.classes.get(cname)
        if ci is None:
            raise MissingFunction(target)
        if kind == "setter":
            fn = ci.setters.get(mname)
        else:
            fn = ci.methods.get(mname)
            if fn is None and mname in ci.properties:
                fn = ci.properties[mname]
                kind = "property"
        if fn is None:
            raise MissingFunction(target)
        return mi, ci, fn, kind

    def segment(self, mi: ModuleInfo, node: ast.AST) -> str:
        return ast.get_source_segment(mi.text, node) or ""

    def sha(self, mi: ModuleInfo, node: ast.AST) -> str:
        return hashlib.sha256(self.segment(mi, node).encode()).hexdigest()[:16]


def loops_of(fn: ast.FunctionDef) -> list[ast.AST]:
    """For/While nodes of a function body in source order (nested function bodies excluded)."""
    out: list[ast.AST] = []

    def rec(n: ast.AST) -> None:
        for c in ast.iter_child_nodes(n):
            if isinstance(c, (ast.FunctionDef, ast.AsyncFunctionDef, ast.Lambda, ast.ClassDef)):
                continue
            if isinstance(c, (ast.For, ast.While)):
                out.append(c)
            rec(c)

    rec(fn)
    return out


def is_generator(fn: ast.FunctionDef) -> bool:
    for n in ast.walk(fn):
        if isinstance(n, (ast.Yield, ast.YieldFrom)):
            # ignore nested defs: good enough, the functions under contract have none with yields
            return True
    return False
