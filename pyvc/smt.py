"""Discharging verification conditions: z3 (python API, from SMT-LIB text) first, /usr/bin/cvc5 on `unknown`."""
from __future__ import annotations

import os
import re
import subprocess
import tempfile
import time
from concurrent.futures import ProcessPoolExecutor
from dataclasses import dataclass, field
from typing import Optional

import z3


@dataclass
class VC:
    name: str
    smt2: str
    kind: str = "post"
    expect: str = "unsat"
    path: tuple = ()
    has_fp: bool = False
    note: str = ""
    target: str = ""
    consts: list = field(default_factory=list)

    @property
    def relaxed(self) -> bool:
        """does the VC mention a rounding result of the relaxed float model?"""
        return "fl!" in self.smt2


@dataclass
class VCResult:
    name: str
    status: str            # 'unsat' | 'sat' | 'unknown'
    backend: str
    seconds: float
    model: dict = field(default_factory=dict)
    reason: str = ""
    kind: str = "post"
    expect: str = "unsat"
    path: tuple = ()
    target: str = ""
    relaxed: bool = False

    @property
    def ok(self) -> bool:
        return self.status == self.expect


def to_smt2(assumptions: list, goal, negate: bool = True) -> str:
    s = z3.Solver()
    for a in assumptions:
        s.add(a)
    s.add(z3.Not(goal) if negate else goal)
    return s.to_smt2()


def _model_dict(m) -> dict:
    out = {}
    for d in m.decls():
        if d.arity() == 0:
            try:
                out[d.name()] = str(m[d])
            except Exception:
                pass
    return out


def _run_z3(smt2: str, timeout_s: float, seed: int = 0):
    # the seed is a GLOBAL parameter of the binding: always set it (a worker process that retried one query with another
    # seed would otherwise keep that seed for every later query, which made verdicts depend on scheduling)
    z3.set_param("smt.random_seed", seed)
    z3.set_param("sat.random_seed", seed)
    s = z3.Solver()
    s.set("timeout", int(timeout_s * 1000))
    s.set("random_seed", seed)
    s.from_string(smt2)
    t0 = time.time()
    r = s.check()
    dt = time.time() - t0
    if r == z3.sat:
        return "sat", dt, _model_dict(s.model()), ""
    if r == z3.unsat:
        return "unsat", dt, {}, ""
    return "unknown", dt, {}, s.reason_unknown()


def _run_cvc5(smt2: str, timeout_s: float, has_fp: bool):
    with tempfile.NamedTemporaryFile("w", suffix=".smt2", delete=False) as f:
        text = smt2
        if "(set-logic" not in text:
            text = "(set-logic ALL)\n" + text
        if "(get-model)" not in text:
            text = text + "\n(get-model)\n"
        f.write(text)
        path = f.name
    t0 = time.time()
    try:
        args = ["/usr/bin/cvc5", "--lang=smt2", f"--tlimit={int(timeout_s * 1000)}", "--strings-exp", "--produce-models"]
        if has_fp:
            args.append("--fp-exp")
        p = subprocess.run(args + [path], capture_output=True, text=True, timeout=timeout_s + 10)
        out = p.stdout.strip().splitlines()
        first = out[0].strip() if out else ""
        if first in ("sat", "unsat"):
            model = {}
            if first == "sat":
                for m in re.finditer(r"\(define-fun (\S+) \(\) (\([^()]*\)|\S+) (.*)\)\s*$", p.stdout, re.M):
                    name, sort, val = m.group(1).strip("|"), m.group(2), m.group(3).strip()
                    if val.startswith("#x"):
                        val = str(int(val[2:], 16))
                    elif val.startswith("#b"):
                        val = str(int(val[2:], 2))
                    model[name] = val
            return first, time.time() - t0, model, ""
        return "unknown", time.time() - t0, {}, (first or p.stderr.strip()[:200])
    except subprocess.TimeoutExpired:
        return "unknown", time.time() - t0, {}, "cvc5 timeout"
    finally:
        os.unlink(path)


def solve_one(vc: VC, timeout_s: float, use_cvc5: bool = True) -> VCResult:
    """portfolio: z3 with a short leash, then cvc5, then z3 with the full budget"""
    total = 0.0
    reasons = []
    # quantifier instantiation in z3 is sensitive to the seed: a query that takes 0.04 s with one seed can run away with
    # another, so an `unknown` is retried with other seeds before the full budget is spent
    stages = [("z3", min(10.0, timeout_s), 0)]
    if use_cvc5:
        stages.append(("cvc5", timeout_s, 0))
    if timeout_s > 10.0:
        stages += [("z3", 10.0, 7), ("z3", 10.0, 23), ("z3", timeout_s, 101)]
    st, model, backend = "unknown", {}, "z3"
    for be, budget, seed in stages:
        try:
            if be == "z3":
                st, dt, model, reason = _run_z3(vc.smt2, budget, seed)
            else:
                st, dt, model, reason = _run_cvc5(vc.smt2, budget, vc.has_fp)
        except z3.Z3Exception as e:  # pragma: no cover
            st, dt, model, reason = "unknown", 0.0, {}, f"z3 error {e}"
        total += dt
        backend = be
        if st != "unknown":
            break
        reasons.append(f"{be}: {reason}")
    return VCResult(vc.name, st, backend, total, model, " | ".join(reasons), vc.kind, vc.expect, vc.path, vc.target, vc.relaxed)


def _worker(args):
    vc, timeout_s, use_cvc5 = args
    return solve_one(vc, timeout_s, use_cvc5)


def solve_all(vcs: list, timeout_s: float = 60.0, jobs: int = 0, use_cvc5: bool = True) -> list:
    if not vcs:
        return []
    jobs = jobs or min(16, os.cpu_count() or 4)
    if jobs == 1 or len(vcs) == 1:
        return [solve_one(v, timeout_s, use_cvc5) for v in vcs]
    with ProcessPoolExecutor(max_workers=jobs) as ex:
        return list(ex.map(_worker, [(v, timeout_s, use_cvc5) for v in vcs], chunksize=1))
