"""Models of builtins and of methods on builtin containers."""
from __future__ import annotations

import ast
from typing import Any, Optional

import z3

from . import lists as L
from .ops import PyRaise, cmp, generic_eq, int_binop, list_len, str_concat, str_kind, str_term, truth
from .values import (SBool, SClass, SDict, SEnumMember, SExc, SFloat, SFunc, SInt, SList, SModule, SObj, SOpaque,
                     SSet, SStr, Unsupported, to_term_bool, to_term_float, to_term_int)

_HPAIR = None
_HASH = None
_DPUT = z3.Function("dput", z3.IntSort(), z3.IntSort(), z3.IntSort(), z3.IntSort())
EMPTY_DICT_ID = z3.IntVal(-7)


def dput(d, k, v):
    """content identity of a dict after d[k] = v"""
    return _DPUT(d, k, v)


def dput_overwrite_law():
    """dput(dput(d,k,v1),k,v2) == dput(d,k,v2): a law of finite maps, assumed where the contract asks for it"""
    d, k, v1, v2 = z3.Ints("dl_d dl_k dl_v1 dl_v2")
    return z3.ForAll([d, k, v1, v2], _DPUT(_DPUT(d, k, v1), k, v2) == _DPUT(d, k, v2), patterns=[_DPUT(_DPUT(d, k, v1), k, v2)])


def _hash_fns():
    global _HPAIR, _HASH
    if _HPAIR is None:
        _HPAIR = z3.Function("hpair", z3.IntSort(), z3.IntSort(), z3.IntSort())
        _HASH = z3.Function("pyhash", z3.IntSort(), z3.IntSort())
    return _HPAIR, _HASH


class Builtins:
    NAMES = {"len", "isinstance", "hash", "sum", "all", "any", "list", "tuple", "dict", "set", "copy", "int", "float",
             "bool", "str", "min", "max", "abs", "range", "enumerate", "zip", "reversed", "hasattr", "type", "id",
             "cast", "sorted", "iter", "next", "filter", "map", "callable", "repr", "getattr", "bytes", "frozenset",
             "object", "issubclass"}

    def __init__(self, interp):
        self.it = interp

    @property
    def cx(self):
        return self.it.cx

    def has(self, name: str) -> bool:
        return name in self.NAMES

    # ------------------------------------------------------------------------------------ identity terms
    def ident_term(self, v):
        """an Int term standing for the hashed content of v (uninterpreted encoding; never assumed injective)"""
        hp, _ = _hash_fns()
        if isinstance(v, bool):
            return z3.IntVal(int(v))
        if isinstance(v, int):
            return z3.IntVal(v)
        if isinstance(v, SInt):
            return v.as_int()
        if isinstance(v, SBool):
            return z3.If(v.term, z3.IntVal(1), z3.IntVal(0))
        if v is None:
            return z3.IntVal(-7)
        if isinstance(v, str):
            return z3.IntVal(__import__("zlib").crc32(v.encode()) + 1000)
        if isinstance(v, SStr):
            return z3.Function("strid", z3.StringSort(), z3.IntSort())(v.term)
        if isinstance(v, tuple):
            t = z3.IntVal(-1)
            for x in reversed(v):
                t = hp(self.ident_term(x), t)
            return t
        if isinstance(v, (SObj, SOpaque)):
            if isinstance(v, SObj) and "@hash" in v.fields:
                return to_term_int(v.fields["@hash"])
            if getattr(v, "ident", None) is not None:
                return v.ident
        if isinstance(v, SEnumMember):
            return z3.IntVal(__import__("zlib").crc32((v.enum + "." + v.member).encode()) + 5000)
        if isinstance(v, (SList, SDict)) and "ident" in v.ghost:
            return v.ghost["ident"]
        raise Unsupported(f"hash() of {type(v).__name__}")

    # ------------------------------------------------------------------------------------ calls
    def call(self, name: str, self_obj, pos: list, kw: dict, fr):
        if self_obj is not None or "." in name:
            return self.method(name, self_obj, pos, kw, fr)
        m = getattr(self, "f_" + name, None)
        if m is None:
            raise Unsupported(f"builtin {name}")
        return m(pos, kw, fr)

    def f_len(self, pos, kw, fr):
        v = pos[0]
        if isinstance(v, SList):
            return list_len(v)
        if isinstance(v, (tuple, str, bytes)):
            return len(v)
        if isinstance(v, SStr):
            return SInt(z3.Length(v.term), 0, None)
        if isinstance(v, SDict):
            if v.concrete is not None and not v.store:
                return len(v.concrete)
            if "len" in v.ghost:
                return v.ghost["len"]
        if isinstance(v, SObj):
            res = self.it.index.resolve_method(v.cls, "__len__")
            if res:
                kind, ci, fn = res
                return self.it.call_repo(f"{ci.module.rel}:{ci.name}.__len__", [], {}, self_obj=v)
        if isinstance(v, SOpaque) and "len" in v.attrs:
            return v.attrs["len"]
        raise Unsupported(f"len of {type(v).__name__}")

    def f_isinstance(self, pos, kw, fr):
        v, c = pos
        classes = list(c) if isinstance(c, tuple) else [c]
        names = []
        for k in classes:
            if isinstance(k, SClass):
                names.append(k.name)
            elif isinstance(k, SFunc) and k.kind == "builtin":
                names.append(k.name)
            else:
                raise Unsupported(f"isinstance against {k!r}")
        return self.isinstance_names(v, names)

    def isinstance_names(self, v, names: list):
        def py_is(v, n):
            if isinstance(v, SOpaque) and v.attrs.get("isinstance") is not None:
                return None        # a value of unknown type: ask its model
            if n == "int":
                return isinstance(v, (int, SInt, SBool)) and not isinstance(v, float)
            if n == "bool":
                return isinstance(v, (bool, SBool))
            if n == "float":
                return isinstance(v, (float, SFloat))
            if n == "str":
                return isinstance(v, str) or (isinstance(v, SStr) and v.kind == "str")
            if n == "bytes":
                return isinstance(v, bytes) or (isinstance(v, SStr) and v.kind == "bytes")
            if n == "list":
                return isinstance(v, SList) and v.kind == "list"
            if n == "tuple":
                return isinstance(v, tuple)
            if n == "dict":
                return isinstance(v, SDict)
            if n == "set":
                return isinstance(v, SSet)
            if n == "object":
                return True
            return None

        for n in names:
            r = py_is(v, n)
            if r:
                return True
            if r is None:
                if isinstance(v, SObj):
                    if self.it.index.is_subclass(v.cls, n):
                        return True
                elif isinstance(v, SExc):
                    if self.it.exc_matches(v, ast.Name(id=n), None):
                        return True
                elif isinstance(v, SOpaque):
                    isa = v.attrs.get("isinstance")
                    if isa is not None:
                        r2 = isa(n)
                        if r2 is True:
                            return True
                        if r2 is False or r2 is None:
                            continue
                        if self.cx.branch(r2, f"isinstance-{n}"):
                            return True
                        continue
                    if v.kind == n or self.it.index.is_subclass(v.kind, n):
                        return True
                    if self.it.index.find_class(v.kind) is None:
                        raise Unsupported(f"isinstance({v!r}, {n})")
        return False

    def f_hash(self, pos, kw, fr):
        _, H = _hash_fns()
        v = pos[0]
        if isinstance(v, SObj):
            res = self.it.index.resolve_method(v.cls, "__hash__")
            if res is not None and "@hash" not in v.fields:
                kind, ci, fn = res
                return self.it.call_repo(f"{ci.module.rel}:{ci.name}.__hash__", [], {}, self_obj=v)
        return SInt(H(self.ident_term(v)))

    def f_id(self, pos, kw, fr):
        v = pos[0]
        if getattr(v, "ident", None) is not None:
            return SInt(v.ident)
        raise Unsupported("id()")

    def f_cast(self, pos, kw, fr):
        return pos[1]

    def f_bool(self, pos, kw, fr):
        t = truth(self.cx, pos[0])
        return t if isinstance(t, bool) else SBool(t)

    def f_int(self, pos, kw, fr):
        v = pos[0]
        if isinstance(v, (int, SInt)):
            return v
        if isinstance(v, SBool):
            return SInt(to_term_int(v), 0, 1)
        if isinstance(v, float):
            return int(v)
        if isinstance(v, SFloat):
            from .values import FloatMode
            if FloatMode.mode != "real":
                raise Unsupported("int(float) in the exact float model")
            # truncation toward zero; the relaxed model has no infinities/NaN, for which CPython raises: both exits are
            # offered non-deterministically
            if self.cx.choose("int_of_float_raises"):
                raise PyRaise(SExc("OverflowError"))
            k = self.cx.int("trunc")
            x = v.term
            kt = z3.ToReal(to_term_int(k))
            self.cx.assume(z3.If(x >= 0, z3.And(kt <= x, x < kt + 1), z3.And(kt >= x, x > kt - 1)))
            return k
        raise Unsupported(f"int({type(v).__name__})")

    def f_float(self, pos, kw, fr):
        v = pos[0]
        if isinstance(v, float):
            return v
        return SFloat(to_term_float(v))

    def f_abs(self, pos, kw, fr):
        v = pos[0]
        if isinstance(v, (int, float)):
            return abs(v)
        if isinstance(v, SInt):
            t = to_term_int(v)
            return SInt(z3.If(t >= 0, t, -t), 0, None)
        if isinstance(v, SFloat):
            from .values import FloatMode
            return SFloat(z3.If(v.term >= 0, v.term, -v.term)) if FloatMode.mode == "real" else SFloat(z3.fpAbs(v.term))
        if isinstance(v, SOpaque) and v.attrs.get("isinstance") is not None:
            o = self.cx.opaque(v.kind, base="abs")
            o.attrs.update({k: w for k, w in v.attrs.items() if k in ("isinstance", "binop", "eq")})
            return o
        raise Unsupported("abs")

    def f_min(self, pos, kw, fr):
        return self._minmax(pos, True, kw.get("key"), fr)

    def f_max(self, pos, kw, fr):
        return self._minmax(pos, False, kw.get("key"), fr)

    def _minmax(self, pos, is_min, key=None, fr=None):
        if len(pos) == 1:
            c = self.it.iter_concrete(pos[0])
            if c is None:
                l = pos[0]
                if isinstance(l, SList) and l.elem is not None and key is not None:
                    # over-approximation: SOME element of the sequence (the ordering by `key` is not modelled); the key
                    # function is run once on that element so that anything it cannot do is still noticed
                    n = list_len(l)
                    if self.cx.branch(truth(self.cx, cmp("==", n, 0)), "minmax-of-empty"):
                        raise PyRaise(SExc("ValueError"))
                    m = self.cx.int("argmin" if is_min else "argmax")
                    self.cx.assume(z3.And(to_term_int(m) >= 0, to_term_int(m) < to_term_int(n)))
                    x = l.elem(m)
                    self.it.call_value(key, [x], {}, fr)
                    return x
                raise Unsupported("min/max of an abstract sequence")
            pos = c
        if key is not None:
            raise Unsupported("min/max with key over concrete operands")
        cur = pos[0]
        for x in pos[1:]:
            r = cmp("<" if is_min else ">", x, cur)
            if isinstance(r, bool):
                cur = x if r else cur
            else:
                if self.cx.branch(r.term, "minmax"):
                    cur = x
        return cur

    def f_range(self, pos, kw, fr):
        if all(isinstance(p, int) for p in pos):
            return range(*pos)
        # abstract range(n) / range(a, b): a term list of ints
        if len(pos) == 1:
            lo, hi = 0, pos[0]
        elif len(pos) == 2:
            lo, hi = pos
        else:
            raise Unsupported("symbolic range with step")
        n = int_binop("-", hi, lo)
        nt = to_term_int(n)
        length = SInt(z3.If(nt > 0, nt, 0), 0, None)
        lot = to_term_int(lo)
        l = SList(None, length=length, fresh=True, label="range")
        l.ghost["elem_term"] = ("int", lambda j: lot + j)
        l.elem = lambda j: SInt(lot + to_term_int(j))
        return l

    def f_list(self, pos, kw, fr):
        if not pos:
            return SList([])
        v = pos[0]
        c = self.it.iter_concrete(v)
        if c is not None:
            return SList(list(c))
        if isinstance(v, SList):
            out = SList(None, length=v.length, elem=v.elem, fresh=True)
            out.ghost = dict(v.ghost)
            return out
        raise Unsupported(f"list({type(v).__name__})")

    def f_tuple(self, pos, kw, fr):
        if not pos:
            return ()
        c = self.it.iter_concrete(pos[0])
        if c is not None:
            return tuple(c)
        if isinstance(pos[0], SList):
            out = SList(None, length=pos[0].length, elem=pos[0].elem, fresh=True, kind="tuple")
            out.ghost = dict(pos[0].ghost)
            return out
        if isinstance(pos[0], SOpaque) and pos[0].ident is not None:
            return SOpaque("tuple", z3.Function("tuple_of", z3.IntSort(), z3.IntSort())(pos[0].ident))
        raise Unsupported("tuple() of abstract value")

    def f_dict(self, pos, kw, fr):
        if not pos:
            if not kw:
                d = SDict(z3.K(z3.IntSort(), z3.BoolVal(False)), None, fresh=True, label="newdict")
                d.ghost["ident"] = EMPTY_DICT_ID
                d.ghost["nonempty"] = z3.BoolVal(False)
                return d
            return SDict(concrete=dict(kw), fresh=True)
        if isinstance(pos[0], SDict) and not kw:
            return self.dict_method("copy", pos[0], [], {})
        raise Unsupported("dict(x)")

    def f_set(self, pos, kw, fr):
        if not pos:
            return SSet(z3.K(z3.IntSort(), z3.BoolVal(False)), fresh=True)
        raise Unsupported("set(x)")

    def f_type(self, pos, kw, fr):
        v = pos[0]
        if isinstance(v, SObj):
            return SClass(v.cls)
        if isinstance(v, SExc):
            return SClass(v.cls)
        raise Unsupported("type()")

    def f_hasattr(self, pos, kw, fr):
        obj, name = pos
        if isinstance(obj, SObj) and isinstance(name, str):
            if name in obj.fields:
                return True
            if self.it.index.resolve_method(obj.cls, name):
                return True
            return False
        raise Unsupported("hasattr")

    def f_getattr(self, pos, kw, fr):
        obj, name = pos[0], pos[1]
        if isinstance(name, str):
            try:
                return self.it.get_attr(obj, name, fr)
            except Unsupported:
                if len(pos) == 3:
                    return pos[2]
                raise
        raise Unsupported("getattr with symbolic name")

    def f_callable(self, pos, kw, fr):
        return isinstance(pos[0], (SFunc, SClass))

    def f_str(self, pos, kw, fr):
        v = pos[0] if pos else ""
        if isinstance(v, (str, SStr)):
            return v
        if isinstance(v, int) and not isinstance(v, bool):
            return str(v)
        if isinstance(v, SObj):
            res = self.it.index.resolve_method(v.cls, "__str__")
            if res:
                kind, ci, fn = res
                return self.it.call_repo(f"{ci.module.rel}:{ci.name}.__str__", [], {}, self_obj=v)
        if isinstance(v, SInt):
            return SStr(z3.IntToStr(to_term_int(v)))  # valid for non-negative ints only; callers must guard
        return SOpaque("str")

    def f_repr(self, pos, kw, fr):
        return SOpaque("str")

    def f_copy(self, pos, kw, fr):
        v = pos[0]
        if isinstance(v, SObj):
            res = self.it.index.resolve_method(v.cls, "__copy__")
            if res:
                kind, ci, fn = res
                return self.it.call_repo(f"{ci.module.rel}:{ci.name}.__copy__", [], {}, self_obj=v)
            o = SObj(v.cls, dict(v.fields), fresh=True)
            o.ident = z3.Int(self.cx._name(v.cls))
            return o
        if isinstance(v, SList):
            return self.f_list([v], {}, fr)
        if isinstance(v, SOpaque):
            return self.cx.opaque(v.kind)
        if isinstance(v, (int, float, str, bytes, tuple, SInt, SFloat, SBool, SStr, type(None))):
            return v
        raise Unsupported(f"copy of {type(v).__name__}")

    def f_enumerate(self, pos, kw, fr):
        c = self.it.iter_concrete(pos[0])
        if c is None and isinstance(pos[0], SList) and len(pos) == 1 and not kw:
            src = pos[0]
            out = SList(None, length=list_len(src), fresh=True, label="enumerate")
            out.ghost["enumerate_of"] = src
            out.elem = lambda j, src=src: (SInt(to_term_int(j), 0, None), src.elem(j) if src.elem is not None else self.cx.opaque("elem"))
            return out
        if c is None:
            raise Unsupported("enumerate of abstract sequence")
        start = pos[1] if len(pos) > 1 else kw.get("start", 0)
        return SList([(start + k, v) for k, v in enumerate(c)])

    def f_zip(self, pos, kw, fr):
        cs = [self.it.iter_concrete(p) for p in pos]
        if any(c is None for c in cs):
            raise Unsupported("zip of abstract sequence")
        return SList([tuple(t) for t in zip(*cs)])

    def f_reversed(self, pos, kw, fr):
        c = self.it.iter_concrete(pos[0])
        if c is None:
            raise Unsupported("reversed of abstract sequence")
        return SList(list(reversed(c)))

    def f_map(self, pos, kw, fr):
        fn, seq = pos[0], pos[1]
        if len(pos) != 2:
            raise Unsupported("map over several sequences")
        c = self.it.iter_concrete(seq)
        if c is not None:
            return SList([self.it.call_value(fn, [x], {}, fr) for x in c])
        if isinstance(seq, SList) and seq.elem is not None and isinstance(fn, SClass):
            # map(Class, abstract list): element j is Class(seq[j]), built on access; the source list is remembered
            out = SList(None, length=list_len(seq), fresh=True, label=f"map({fn.name})")
            out.elem = lambda j, fn=fn, seq=seq: self.it.call_value(fn, [seq.elem(j)], {}, fr)
            out.ghost["map_of"] = (fn.name, seq)
            return out
        raise Unsupported("map over " + type(seq).__name__)

    def f_filter(self, pos, kw, fr):
        pred, seq = pos
        c = self.it.iter_concrete(seq)
        if c is not None:
            out = []
            for x in c:
                r = self.it.call_value(pred, [x], {}, fr) if pred is not None else x
                if self.cx.branch(truth(self.cx, r), "filter"):
                    out.append(x)
            return SList(out)
        if isinstance(seq, SList):
            # over-approximation: some sub-sequence of `seq` (the predicate is not evaluated)
            n = self.cx.int("n_filtered", lo=0)
            self.cx.assume(to_term_int(n) <= to_term_int(list_len(seq)))
            return SList(None, length=n, elem=self.selected_elem(seq, n), fresh=True, label="filtered")
        raise Unsupported("filter over " + type(seq).__name__)

    def chars_of(self, sv: SStr) -> SList:
        """iteration view of a symbolic str (1-character strings) or bytes (ints)"""
        t = sv.term
        l = SList(None, length=SInt(z3.Length(t), 0, None), fresh=True, label="chars")
        if sv.kind == "bytes":
            l.elem = lambda j, t=t: SInt(z3.StrToCode(z3.SubString(t, to_term_int(j), 1)), 0, 255)
        else:
            l.elem = lambda j, t=t: SStr(z3.SubString(t, to_term_int(j), 1))
        l.ghost["chars_of"] = sv
        return l

    def f_bytes(self, pos, kw, fr):
        if not pos:
            return b""
        v = pos[0]
        if isinstance(v, SList) and v.concrete and len(v.items) == 1:
            x = v.items[0]
            if isinstance(x, int):
                return bytes([x])
            if isinstance(x, SInt):
                return SStr(z3.StrFromCode(to_term_int(x)), "bytes")
        if isinstance(v, (bytes, SStr)):
            return v
        if isinstance(v, SObj):
            res = self.it.index.resolve_method(v.cls, "__bytes__")
            if res:
                kind, ci, fn = res
                return self.it.call_repo(f"{ci.module.rel}:{ci.name}.__bytes__", [], {}, self_obj=v)
        raise Unsupported("bytes(...)")

    def f_sum(self, pos, kw, fr):
        c = self.it.iter_concrete(pos[0])
        if c is not None:
            acc = pos[1] if len(pos) > 1 else 0
            from .ops import binop
            for x in c:
                acc = binop(self.cx, ast.Add(), acc, x)
            return acc
        if isinstance(pos[0], SList) and "elem_term" in pos[0].ghost:
            kind, fn = pos[0].ghost["elem_term"]
            return self.sum_terms(pos[0], kind, fn, list_len(pos[0]))
        raise Unsupported("sum of abstract sequence")

    def f_all(self, pos, kw, fr):
        return self._allany(pos[0], True)

    def f_any(self, pos, kw, fr):
        return self._allany(pos[0], False)

    def _allany(self, seq, is_all):
        c = self.it.iter_concrete(seq)
        if c is not None:
            acc = []
            for x in c:
                t = truth(self.cx, x)
                if isinstance(t, bool):
                    if is_all and not t:
                        return False
                    if not is_all and t:
                        return True
                else:
                    acc.append(t)
            if not acc:
                return is_all
            return SBool(z3.And(*acc) if is_all else z3.Or(*acc))
        if isinstance(seq, SList) and "elem_term" in seq.ghost:
            kind, fn = seq.ghost["elem_term"]
            if kind != "bool":
                raise Unsupported("all/any over non-bool term list")
            j = z3.Int(self.cx._name("j"))
            n = to_term_int(list_len(seq))
            rng = z3.And(j >= 0, j < n)
            return SBool(z3.ForAll([j], z3.Implies(rng, fn(j))) if is_all else z3.Exists([j], z3.And(rng, fn(j))))
        raise Unsupported("all/any of abstract sequence")

    # ------------------------------------------------------------------------------------ sums
    def sum_terms(self, src: SList, kind: str, fn, n):
        """sum_{j<n} fn(j) as an uninterpreted function with its defining axioms (math ints / exact floats)."""
        cx = self.cx
        if kind == "int":
            probe = z3.Int("arrsum!probe")
            t = fn(probe)
            if z3.is_app(t) and t.decl().kind() == z3.Z3_OP_SELECT and t.arg(1).eq(probe) and not _mentions(t.arg(0), probe):
                # sum of an array segment: canonical term arr_sum(A, n), so that contracts can name the same sum
                res = SInt(arr_sum(t.arg(0), to_term_int(n)))
                S = lambda k, A=t.arg(0): arr_sum(A, k)   # noqa: E731
                cx.assume(arr_sum(t.arg(0), z3.IntVal(0)) == 0)
                cx.ghost.setdefault("sums", []).append({"S": S, "fn": fn, "n": to_term_int(n), "src": src, "res": res})
                return res
            S = cx.func("Sum", z3.IntSort(), z3.IntSort())
            j = z3.Int(cx._name("j"))
            # S is specified by S(0) = 0 and S(k+1) = S(k) + fn(k); only the instances asked for by the contract
            # (lemma instances, unfoldings) are given to the solver -- the quantified recursion would make
            # E-matching loop on S(j+1)
            cx.assume(S(0) == 0)
            res = SInt(S(to_term_int(n)))
            cx.ghost.setdefault("sums", []).append({"S": S, "fn": fn, "n": to_term_int(n), "src": src, "res": res})
            return res
        if kind == "float":
            from .values import FloatMode
            if FloatMode.mode == "real":
                # relaxed model: FS(0) = 0, FS(j+1) = fl(FS(j) + fn(j)); facts about FS come from lemma instances
                S = cx.func("FSum", z3.IntSort(), z3.RealSort())
                cx.assume(S(0) == 0)
                res = SFloat(S(to_term_int(n)))
                cx.has_fp = True
                rec = {"S": S, "fn": fn, "n": to_term_int(n), "src": src, "res": res, "float": True}
                cx.ghost.setdefault("sums", []).append(rec)
                if cx.ghost.get("on_sum") is not None:
                    cx.ghost["on_sum"](cx, rec)      # the contract instantiates its lemma where the sum is formed
                return res
            # left-to-right float accumulation starting from the int 0:  S(0)=+0.0, S(j+1)=fl(S(j)+fn(j))
            from .values import F64, RNE, fpval
            cx.has_fp = True
            S = cx.func("FSum", z3.IntSort(), F64)
            j = z3.Int(cx._name("j"))
            cx.assume(S(0) == fpval(0.0))
            cx.assume(z3.ForAll([j], z3.Implies(j >= 0, S(j + 1) == z3.fpAdd(RNE, S(j), fn(j))), patterns=[S(j + 1)]))
            res = SFloat(S(to_term_int(n)))
            cx.ghost.setdefault("sums", []).append({"S": S, "fn": fn, "n": to_term_int(n), "src": src, "res": res, "float": True})
            return res
        raise Unsupported("sum over " + kind)

    # ------------------------------------------------------------------------------------ comprehensions
    def generic_element(self, comp, fr):
        """Evaluate the element expression of a single-generator comprehension for a generic index j of an
        abstract source list.  Returns (src, j, value, new_assumptions, fresh_consts, filters)."""
        cx = self.cx
        if len(comp.generators) == 2:
            # [... for c in <containers> for t in c.get_trees()]: the trees of a container list that is tracked by the sequence
            # it flattens to, in order (exact: that sequence is defined as this concatenation)
            g1, g2 = comp.generators
            it2 = g2.iter
            if (not g1.ifs and isinstance(g1.target, ast.Name) and isinstance(it2, ast.Call) and not it2.args and not it2.keywords
                    and isinstance(it2.func, ast.Attribute) and it2.func.attr == "get_trees" and isinstance(it2.func.value, ast.Name)
                    and it2.func.value.id == g1.target.id):
                src1 = self.it.ev(g1.iter, fr)
                if isinstance(src1, SList) and "flat" in src1.ghost and "flat_make" in src1.ghost:
                    return ("abstract", src1.ghost["flat_make"](src1.ghost["flat"]), g2)
                raise Unsupported("trees of a container list that is not tracked by its flattening")
        if len(comp.generators) != 1:
            raise Unsupported("comprehension with several generators over abstract sequences")
        g = comp.generators[0]
        src = self.it.ev(g.iter, fr)
        conc = self.it.iter_concrete(src)
        if conc is not None:
            return ("concrete", conc, g)
        if not isinstance(src, SList):
            raise Unsupported(f"comprehension over {type(src).__name__}")
        return ("abstract", src, g)

    def comprehension(self, e, fr, kind):
        mode, src, g = self.generic_element(e, fr)
        if mode == "concrete":
            out = []
            saved = dict(fr.locals)
            for v in src:
                self.it.assign(g.target, v, fr)
                ok = True
                for cond in g.ifs:
                    if not self.cx.branch(truth(self.cx, self.it.ev(cond, fr)), "comp-if"):
                        ok = False
                        break
                if ok:
                    out.append(self.it.ev(e.elt, fr))
            self._restore(fr, saved, g)
            return SList(out)
        return self.abstract_map(e, fr, src, g)

    def _restore(self, fr, saved, g):
        for n in ast.walk(g.target):
            if isinstance(n, ast.Name):
                if n.id in saved:
                    fr.locals[n.id] = saved[n.id]
                else:
                    fr.locals.pop(n.id, None)

    def abstract_map(self, e, fr, src: SList, g, sum_filter: bool = False):
        """[elt for x in src] over an abstract list: the element expression is executed ONCE for a generic index;
        symbols created meanwhile become functions of the index and the assumptions made become universally
        quantified.  Any symbolic branch inside the element expression is Unsupported (except 'callee may raise',
        which makes the whole comprehension raise non-deterministically)."""
        cx = self.cx
        if g.ifs and not sum_filter:
            return self.abstract_filter(e, fr, src, g)
        n = to_term_int(list_len(src))
        jname = cx._name("gj")
        j = z3.Int(jname)
        saved = dict(fr.locals)
        mark_pc = len(cx.pc)
        mark_counter = cx.counter
        mark_pos = cx.pos
        mark_obl = len(cx.obligations)
        cx.ghost["generic"] = cx.ghost.get("generic", 0) + 1
        cx.ghost.setdefault("generic_raises", [])
        n_raises = len(cx.ghost["generic_raises"])
        rng = z3.And(j >= 0, j < n)
        cx.assume(rng)
        try:
            self.it.assign(g.target, src.elem(SInt(j)) if src.elem else cx.opaque("elem"), fr)
            val = self.it.ev(e.elt, fr)
            if g.ifs:
                # only under sum(): an element filtered out contributes 0
                conds = [truth(cx, self.it.ev(c, fr)) for c in g.ifs]
                ct = z3.And(*[c if not isinstance(c, bool) else z3.BoolVal(c) for c in conds])
                if isinstance(val, SList):
                    # sum([f(x) for x in L if c(x)], []): the filter is handed to the contract (with the assumptions made for the
                    # generic element), which may demand that it never excludes an element
                    cx.ghost.setdefault("flat_map_filters", []).append((rng, list(cx.pc[mark_pc + 1:]), ct))
                elif not isinstance(val, (int, SInt)):
                    raise Unsupported("filtered sum of non-int elements")
                else:
                    val = SInt(z3.If(ct, to_term_int(val), 0))
        finally:
            cx.ghost["generic"] -= 1
        if cx.pos != mark_pos:
            raise Unsupported("symbolic branch inside a comprehension over an abstract sequence")
        self._restore(fr, saved, g)
        new_assumptions = cx.pc[mark_pc + 1:]
        del cx.pc[mark_pc:]
        # rebuild the feasibility solver lazily: simply re-add (it only grows); remove by reset
        cx.solver.reset()
        cx.solver.set("timeout", 1500)
        for f in cx.pc:
            cx.solver.add(f)
        # obligations raised inside (call preconditions) are kept, under the generic range assumption
        for ob in cx.obligations[mark_obl:]:
            ob.assumptions = ob.assumptions[:mark_pc] + [rng] + ob.assumptions[mark_pc + 1:]
        # skolem constants created during the generic execution -> functions of j
        consts = _consts_created(new_assumptions, val, mark_counter, jname)
        sub = []
        fns = {}
        for c in consts:
            F = z3.Function(c.decl().name() + "@", z3.IntSort(), c.sort())
            fns[c.decl().name()] = F
            sub.append((c, F(j)))
        for f in new_assumptions:
            f2 = z3.substitute(f, *sub) if sub else f
            cx.assume(z3.ForAll([j], z3.Implies(rng, f2)))
        raised = cx.ghost["generic_raises"][n_raises:]
        del cx.ghost["generic_raises"][n_raises:]
        if raised:
            if cx.choose("comprehension-element-raises"):
                raise PyRaise(SExc(raised[0], opaque=True))
        self._last_generic_val = val
        return self._generalise(val, j, sub, src)

    def abstract_filter(self, e, fr, src: SList, g):
        """[elt for x in src if cond] over an abstract list: the result is the sub-sequence selected by `cond`; the engine
        records, as functions of the index, the keep-condition and whether the element expression is the element itself."""
        cx = self.cx
        n = to_term_int(list_len(src))
        j = z3.Int(cx._name("fj"))
        saved = dict(fr.locals)
        mark_pos = cx.pos
        cx.ghost["generic"] = cx.ghost.get("generic", 0) + 1
        try:
            elem = src.elem(SInt(j)) if src.elem else cx.opaque("elem")
            self.it.assign(g.target, elem, fr)
            conds = [truth(cx, self.it.ev(c, fr)) for c in g.ifs]
            val = self.it.ev(e.elt, fr)
        finally:
            cx.ghost["generic"] -= 1
        if cx.pos != mark_pos:
            raise Unsupported("symbolic branch inside a filtered comprehension")
        self._restore(fr, saved, g)
        keep = z3.And(*[c if not isinstance(c, bool) else z3.BoolVal(c) for c in conds])
        out = SList(None, length=cx.int("n_kept", lo=0), fresh=True, label="filtered")
        cx.assume(to_term_int(out.length) <= n)
        out.ghost["filter_of"] = {"src": src, "index": j, "keep": keep, "elt": val, "elem_at_index": elem}
        if val is elem:
            out.elem = self.selected_elem(src, out.length)      # [x for x in src if ...]: elements of src, selection unknown
        return out

    def _generalise(self, val, j, sub, src: SList):
        """turn the generic element value into a list value"""
        cx = self.cx

        def at(term, k):
            t = z3.substitute(term, *sub) if sub else term
            return z3.substitute(t, (j, k))

        length = list_len(src)
        if isinstance(val, (SInt, SBool, SFloat)):
            kind = "int" if isinstance(val, SInt) else "bool" if isinstance(val, SBool) else "float"
            term = val.as_int() if isinstance(val, SInt) else val.term
            out = SList(None, length=length, fresh=True, label="comp")
            out.ghost["elem_term"] = (kind, lambda k, term=term: at(term, k))
            out.elem = lambda k, out=out: L.wrap(out.ghost["elem_term"][0], out.ghost["elem_term"][1](to_term_int(k)))
            return out
        if isinstance(val, bool) or isinstance(val, int) or isinstance(val, float):
            kind = "bool" if isinstance(val, bool) else "int" if isinstance(val, int) else "float"
            from .values import fpval
            term = z3.BoolVal(val) if kind == "bool" else z3.IntVal(val) if kind == "int" else fpval(val)
            out = SList(None, length=length, fresh=True, label="comp")
            out.ghost["elem_term"] = (kind, lambda k, term=term: term)
            out.elem = lambda k, v=val: v
            return out
        if isinstance(val, SObj):
            fields = {}
            other = {}
            for f, v in val.fields.items():
                if isinstance(v, SInt):
                    fields[f] = ("int", lambda k, t=v.as_int(): at(t, k))
                elif isinstance(v, SBool):
                    fields[f] = ("bool", lambda k, t=v.term: at(t, k))
                elif isinstance(v, SFloat):
                    fields[f] = ("float", lambda k, t=v.term: at(t, k))
                elif isinstance(v, bool):
                    fields[f] = ("bool", lambda k, t=z3.BoolVal(v): t)
                elif isinstance(v, int):
                    fields[f] = ("int", lambda k, t=z3.IntVal(v): t)
                else:
                    other[f] = (lambda cx_, k, v=v: _reopaque(cx_, v))
            out = SList(None, length=length, fresh=True, label="comp")
            out.ghost["rec_cls"] = val.cls
            out.ghost["rec_fields"] = fields
            out.ghost["rec_other"] = other
            out.elem = lambda k, out=out: L.rec_elem(cx, out, k)
            # objects with an identity: the list also stands for the sequence of these identities
            vid = getattr(val, "ident", None)
            if vid is not None and z3.is_expr(vid) and vid.sort() == z3.IntSort():
                W = z3.Const(cx._name("mapped"), z3.SeqSort(z3.IntSort()))
                k = z3.Int(cx._name("mk"))
                nlen = to_term_int(length)
                cx.assume(z3.Length(W) == nlen)
                cx.assume(z3.ForAll([k], z3.Implies(z3.And(k >= 0, k < nlen), W[k] == at(vid, k))))
                out.ghost["seq"] = W
            # [Cls(x) for x in <sequence of identities>]: a wrapper object per element, like map(Cls, seq)
            if "seq" in src.ghost and len(val.fields) == 1:
                (only,) = val.fields.values()
                if isinstance(only, SObj) and getattr(only, "ident", None) is not None and z3.eq(only.ident, src.ghost["seq"][j]):
                    out.ghost["map_of"] = (val.cls, src)
            return out
        if isinstance(val, (SOpaque, SList, tuple)) or val is None:
            return SList(None, length=length, elem=None, fresh=True, label="comp-opaque")
        raise Unsupported(f"comprehension element of type {type(val).__name__}")

    def flatten_of_containers(self, comp, rest, fr):
        """sum([c.get_trees() for c in <list of containers>], []) over a container list that is tracked by the sequence it
        flattens to: that sequence (exact: the ghost `flat` of such a list is defined as this concatenation)"""
        if len(comp.generators) != 1 or comp.generators[0].ifs or len(rest) != 1:
            return None
        g = comp.generators[0]
        start = rest[0]
        if not (isinstance(start, ast.List) and not start.elts and isinstance(g.target, ast.Name)):
            return None
        e = comp.elt
        if not (isinstance(e, ast.Call) and not e.args and not e.keywords and isinstance(e.func, ast.Attribute) and e.func.attr == "get_trees"
                and isinstance(e.func.value, ast.Name) and e.func.value.id == g.target.id):
            return None
        src = self.it.ev(g.iter, fr)
        if not (isinstance(src, SList) and "flat" in src.ghost and "flat_make" in src.ghost):
            return ("src", src)
        return ("ok", src.ghost["flat_make"](src.ghost["flat"]))

    def consume_comprehension(self, fname: str, comp, rest, fr):
        if fname == "sum":
            r = self.flatten_of_containers(comp, rest, fr)
            if r is not None and r[0] == "ok":
                return r[1]
            if r is not None:
                # the source was evaluated once already; evaluating it again would duplicate its effects
                raise Unsupported("sum of get_trees() over a container list that is not tracked by its flattening")
        mode, src, g = self.generic_element(comp, fr)
        if mode == "concrete" or fname in ("list", "tuple"):
            lst = self.comprehension(comp, fr, "list")
            extra = [self.it.ev(r, fr) for r in rest]
            return self.call(fname, None, [lst] + extra, {}, fr)
        self._last_generic_val = None
        lst = self.abstract_map(comp, fr, src, g, sum_filter=(fname == "sum"))
        if (fname == "sum" and len(rest) == 1 and isinstance(rest[0], ast.List) and not rest[0].elts
                and isinstance(self._last_generic_val, SList)):
            # sum([f(x) for x in L], []) with list-valued f: the concatenation of the per-element lists -- a NEW list of unknown
            # length and content (over-approximation); which elements of L contributed is recorded: all of them, unless a filter
            # was recorded in ghost["flat_map_filters"]
            out = self.cx.opaque_list(self.cx.int("n_flat_map", lo=0), fresh=True, label="flat-map")
            out.ghost["flat_map_over"] = src
            self.cx.ghost.setdefault("flat_maps", []).append(src)
            return out
        extra = [self.it.ev(r, fr) for r in rest]
        return self.call(fname, None, [lst] + extra, {}, fr)

    def dict_comprehension(self, e, fr):
        if len(e.generators) != 1:
            raise Unsupported("dict comprehension with several generators")
        g = e.generators[0]
        src = self.it.ev(g.iter, fr)
        conc = self.it.iter_concrete(src)
        if conc is None:
            d = SDict(z3.Array(self.cx._name("dc_keys"), z3.IntSort(), z3.BoolSort()), None, fresh=True, label="dictcomp")
            d.ghost["ident"] = self.cx.const("dictcomp_content", z3.IntSort())
            d.ghost["nonempty"] = self.cx.bool("dictcomp_nonempty").term
            d.ghost["comp_src"] = src
            it = self.it

            def view(short, src=src, g=g, e=e, fr=fr, it=it):
                if not isinstance(src, SList):
                    raise Unsupported("view of a dict built from a non-list")

                def elem(j):
                    saved = dict(fr.locals)
                    it.assign(g.target, src.elem(j) if src.elem else it.cx.opaque("elem"), fr)
                    k = it.ev(e.key, fr) if short in ("keys", "items") else None
                    v = it.ev(e.value, fr) if short in ("values", "items") else None
                    self._restore(fr, saved, g)
                    return k if short == "keys" else v if short == "values" else (k, v)

                return SList(None, length=src.length if not src.concrete else len(src.items), elem=elem, fresh=True, label="dictview")

            d.ghost["view"] = view
            self.cx.assume_note("comprehension over an abstract pair sequence: the element expression is not executed (assumed not to raise)")
            return d
        d = {}
        saved = dict(fr.locals)
        for v in conc:
            self.it.assign(g.target, v, fr)
            k = self.it.ev(e.key, fr)
            d[k] = self.it.ev(e.value, fr)
        self._restore(fr, saved, g)
        return SDict(concrete=d, fresh=True)

    # ------------------------------------------------------------------------------------ containers
    def contains(self, container, x):
        if isinstance(container, SSet):
            return SBool(z3.Select(container.term, to_term_int(x)))
        if isinstance(container, SDict):
            if container.concrete is not None:
                if isinstance(x, (str, int, bytes, tuple, SEnumMember)) and not container.store:
                    return x in container.concrete
                raise Unsupported("symbolic key in a concrete dict")
            return SBool(z3.Select(container.keys, self.ident_term(x)))
        c = self.it.iter_concrete(container)
        if c is not None:
            acc = []
            for y in c:
                r = generic_eq(x, y) if not (isinstance(x, SObj)) else self.it.compare(ast.Eq(), x, y, None)
                if r is True:
                    return True
                if r is not False:
                    acc.append(truth(self.cx, r))
            return SBool(z3.Or(*acc)) if acc else False
        if isinstance(container, SList) and "contains" in container.ghost:
            return container.ghost["contains"](x)
        if isinstance(container, (str, SStr)) and isinstance(x, (str, SStr)):
            return SBool(z3.Contains(str_term(container), str_term(x)))
        if isinstance(container, SObj):
            res = self.it.index.resolve_method(container.cls, "__contains__")
            if res:
                kind, ci, fn = res
                return self.it.call_repo(f"{ci.module.rel}:{ci.name}.__contains__", [x], {}, self_obj=container)
        raise Unsupported(f"`in` on {type(container).__name__}")

    def getitem(self, obj, key):
        if isinstance(obj, tuple):
            if isinstance(key, int):
                return obj[key]
        if isinstance(obj, SList):
            if obj.concrete:
                if isinstance(key, int):
                    if -len(obj.items) <= key < len(obj.items):
                        return obj.items[key]
                    raise PyRaise(SExc("IndexError"))
                raise Unsupported("symbolic index into concrete list")
            n = to_term_int(list_len(obj))
            k = to_term_int(key)
            if isinstance(key, int):
                if key < 0:
                    k = n + key
            else:
                # a symbolic index may be negative: Python counts from the end (found by tools/crosscheck.py)
                k = z3.If(k < 0, n + k, k)
            inb = z3.And(k >= 0, k < n)
            if not self.cx.branch(inb, "index-in-bounds"):
                raise PyRaise(SExc("IndexError"))
            if obj.elem is None:
                return self.cx.opaque("elem")
            return obj.elem(SInt(k))
        if isinstance(obj, SDict):
            if obj.concrete is not None:
                if key in obj.concrete:
                    return obj.concrete[key]
                raise PyRaise(SExc("KeyError"))
            kt = self.ident_term(key)
            for k2, v in obj.store:
                if self.cx.branch(kt == self.ident_term(k2), "dict-key-eq"):
                    return v
            if not self.cx.branch(z3.Select(obj.keys, kt), "dict-has-key"):
                raise PyRaise(SExc("KeyError"))
            if obj.base is None:
                raise Unsupported("read of a pre-existing dict entry without value model")
            return obj.base(key)
        if isinstance(obj, SObj):
            res = self.it.index.resolve_method(obj.cls, "__getitem__")
            if res:
                kind, ci, fn = res
                return self.it.call_repo(f"{ci.module.rel}:{ci.name}.__getitem__", [key], {}, self_obj=obj)
        if isinstance(obj, (str, bytes)) and isinstance(key, int):
            try:
                return obj[key]
            except IndexError:
                raise PyRaise(SExc("IndexError"))
        raise Unsupported(f"subscript on {type(obj).__name__}")

    def getslice(self, obj, lo, hi, st):
        if st is not None:
            raise Unsupported("slice step")
        if isinstance(obj, SList) and obj.concrete and all(isinstance(x, (int, type(None))) for x in (lo, hi)):
            return SList(obj.items[lo:hi])
        if isinstance(obj, (tuple, str, bytes)) and all(isinstance(x, (int, type(None))) for x in (lo, hi)):
            return obj[lo:hi]
        if isinstance(obj, SList) and "arrays" in obj.ghost:
            return L.heap_slice(self.cx, obj, lo, hi)
        if isinstance(obj, SList) and "seq" in obj.ghost:
            t = obj.ghost["seq"]
            n = z3.Length(t)
            a = to_term_int(lo) if lo is not None else z3.IntVal(0)
            b = to_term_int(hi) if hi is not None else n
            a = z3.If(a < 0, z3.If(n + a < 0, 0, n + a), z3.If(a > n, n, a))
            b = z3.If(b < 0, z3.If(n + b < 0, 0, n + b), z3.If(b > n, n, b))
            sub = z3.SubString(t, a, z3.If(b > a, b - a, 0))
            make = obj.ghost.get("seq_make")
            if make is not None:
                return make(sub)
            from .ops import seq_list
            return seq_list(sub)
        if isinstance(obj, SList) and lo is None and hi is None:
            return self.f_list([obj], {}, None)
        if isinstance(obj, (SStr, str)) :
            t = str_term(obj)
            n = z3.Length(t)
            a = to_term_int(lo) if lo is not None else z3.IntVal(0)
            b = to_term_int(hi) if hi is not None else n
            a = z3.If(a < 0, z3.If(n + a < 0, 0, n + a), z3.If(a > n, n, a))
            b = z3.If(b < 0, z3.If(n + b < 0, 0, n + b), z3.If(b > n, n, b))
            return SStr(z3.SubString(t, a, z3.If(b > a, b - a, 0)), str_kind(obj))
        raise Unsupported(f"slice of {type(obj).__name__}")

    def setitem(self, obj, key, v):
        if isinstance(obj, SDict):
            self.cx.log_write(obj, "@items", (key, v))
            if obj.concrete is not None:
                if isinstance(key, (str, int, bytes, tuple, SEnumMember)) and not isinstance(key, bool):
                    obj.concrete[key] = v
                    return
                raise Unsupported("symbolic key stored into a concrete dict")
            kt = self.ident_term(key)
            obj.store.insert(0, (key, v))
            obj.keys = z3.Store(obj.keys, kt, z3.BoolVal(True))
            if "ident" in obj.ghost:
                obj.ghost["ident"] = dput(obj.ghost["ident"], kt, self.ident_term(v))
                obj.ghost["nonempty"] = z3.BoolVal(True)
            return
        if isinstance(obj, SList) and obj.concrete and isinstance(key, int):
            self.cx.log_write(obj, "@items", (key, v))
            obj.items[key] = v
            return
        if isinstance(obj, SObj):
            res = self.it.index.resolve_method(obj.cls, "__setitem__")
            if res:
                kind, ci, fn = res
                return self.it.call_repo(f"{ci.module.rel}:{ci.name}.__setitem__", [key, v], {}, self_obj=obj)
        raise Unsupported(f"item store on {type(obj).__name__}")

    def delitem(self, obj, key):
        raise Unsupported("del item")

    # ------------------------------------------------------------------------------------ methods
    def method(self, name: str, self_obj, pos, kw, fr):
        short = name.split(".")[-1]
        if name == "object.__init__":
            return None
        if name in ("copy.copy",):
            return self.f_copy(pos, kw, fr)
        if name in ("copy.deepcopy",):
            v = pos[0]
            if v is None or isinstance(v, (int, str, bytes, bool, float)):
                return v
            if isinstance(v, SList) and not v.concrete:
                # a list of objects: a new list of the same length (the element copies are not described further)
                return SList(None, length=list_len(v), elem=None, fresh=True, label="deepcopy(list)")
            if isinstance(v, SList) and v.concrete and not v.items:
                return SList([])
            if isinstance(v, SOpaque):
                return self.cx.opaque(v.kind)
            if isinstance(v, SObj):
                res = self.it.index.resolve_method(v.cls, "__deepcopy__")
                if res:
                    kind, ci, fn = res
                    memo = pos[1] if len(pos) > 1 else SDict(concrete={}, fresh=True)
                    return self.it.call_repo(f"{ci.module.rel}:{ci.name}.__deepcopy__", [memo], {}, self_obj=v)
            raise Unsupported("deepcopy")
        if name in ("random.random", "random.randint", "random.choice") and self_obj is None:
            return self.random_call(short, pos, kw)
        if name.startswith("itertools."):
            if short == "from_iterable" or name.endswith("chain.from_iterable"):
                v = pos[0]
                if isinstance(v, SList):
                    # only the length is modelled as unknown: an opaque list
                    return SList(None, length=self.cx.int("chainlen", lo=0), elem=None, fresh=True)
            raise Unsupported(name)
        if isinstance(self_obj, SList):
            return self.list_method(short, self_obj, pos, kw)
        if isinstance(self_obj, SSet):
            if short == "add":
                self.cx.log_write(self_obj, "@items", pos[0])
                self_obj.term = z3.Store(self_obj.term, to_term_int(pos[0]), z3.BoolVal(True))
                return None
            if short == "clear":
                self.cx.log_write(self_obj, "@items")
                self_obj.term = z3.K(z3.IntSort(), z3.BoolVal(False))
                return None
        if isinstance(self_obj, SDict):
            return self.dict_method(short, self_obj, pos, kw)
        if isinstance(self_obj, SOpaque):
            m = self_obj.attrs.get("methods", {}).get(short)
            if m is not None:
                return m(self.it, *pos, **kw)
            raise Unsupported(f"method {short} on opaque {self_obj.kind}")
        if isinstance(self_obj, (str, SStr, bytes)):
            return self.str_method(short, self_obj, pos, kw)
        if isinstance(self_obj, SInt) and short == "to_bytes":
            hook = self.cx.ghost.get("int_to_bytes")
            if hook is None:
                raise Unsupported("int.to_bytes without a model in the contract")
            return hook(self.cx, self_obj, pos, kw)
        if isinstance(self_obj, tuple):
            if short == "index":
                raise Unsupported("tuple.index")
        raise Unsupported(f"builtin method {name}")

    def random_call(self, short, pos, kw):
        """the pseudo-random source as non-determinism: ANY value the documented range allows"""
        cx = self.cx
        if short == "random":
            from .values import FloatMode
            if FloatMode.mode != "real":
                raise Unsupported("random.random() in the exact float model")
            r = z3.Real(cx._name("random"))
            cx.assume(z3.And(r >= 0, r < 1))
            return SFloat(r)
        if short == "randint":
            a, b = pos
            empty = cmp(">", a, b)
            if cx.branch(truth(cx, empty), "randint-empty-range"):
                raise PyRaise(SExc("ValueError"))
            k = cx.int("randint")
            cx.assume(z3.And(to_term_int(k) >= to_term_int(a), to_term_int(k) <= to_term_int(b)))
            return k
        if short == "choice":
            l = pos[0]
            if isinstance(l, tuple):
                l = SList(list(l))
            if not isinstance(l, SList):
                raise Unsupported("random.choice of " + type(l).__name__)
            n = list_len(l)
            if cx.branch(truth(cx, cmp("==", n, 0)), "choice-of-empty"):
                raise PyRaise(SExc("IndexError"))
            if l.concrete:
                k = cx.int("choice")
                cx.assume(z3.And(to_term_int(k) >= 0, to_term_int(k) < len(l.items)))
                for idx in range(len(l.items) - 1):
                    if cx.branch(to_term_int(k) == idx, f"choice-{idx}"):
                        return l.items[idx]
                return l.items[-1]
            if l.elem is None:
                raise Unsupported("random.choice of a list whose elements are not modelled")
            k = cx.int("choice")
            cx.assume(z3.And(to_term_int(k) >= 0, to_term_int(k) < to_term_int(n)))
            return l.elem(k)
        raise Unsupported("random." + short)

    def selected_elem(self, src: SList, n_out):
        """element function of a sub-sequence of `src`: element j is src[sel(j)] for an unknown, in-range selection sel"""
        cx = self.cx
        if src.elem is None:
            return None
        sel = cx.func("sel", z3.IntSort(), z3.IntSort())
        j = z3.Int(cx._name("selj"))
        cx.assume(z3.ForAll([j], z3.Implies(z3.And(j >= 0, j < to_term_int(n_out)),
                                           z3.And(sel(j) >= 0, sel(j) < to_term_int(list_len(src)))), patterns=[sel(j)]))
        return lambda k, src=src, sel=sel: src.elem(SInt(sel(to_term_int(k))))

    def list_method(self, short, l: SList, pos, kw):
        cx = self.cx
        if short == "__getitem__":
            k = pos[0]
            if isinstance(k, SObj) and k.cls == "slice":
                return self.getslice(l, k.fields.get("start"), k.fields.get("stop"), k.fields.get("step"))
            return self.getitem(l, k)
        if short == "append" and "tuple_seqs" in l.ghost:
            cx.log_write(l, "@items", pos[0])
            x = pos[0]
            seqs = l.ghost["tuple_seqs"]
            if not (isinstance(x, tuple) and len(x) == len(seqs)):
                raise Unsupported("append of a non-matching tuple to a tuple list")
            from .ops import str_term
            l.ghost["tuple_seqs"] = [z3.Concat(sq, z3.Unit(str_term(c))) for sq, c in zip(seqs, x)]
            l.length = SInt(z3.Length(l.ghost["tuple_seqs"][0]), 0, None)
            return None
        if short == "append":
            cx.log_write(l, "@items", pos[0])
            L.append(cx, l, pos[0])
            return None
        if short == "extend":
            cx.log_write(l, "@items")
            L.extend(cx, l, pos[0])
            return None
        if short == "copy":
            return self.f_list([l], {}, None)
        if short == "clear":
            cx.log_write(l, "@items")
            l.items, l.length, l.elem = [], None, None
            l.ghost = {}
            return None
        if short == "pop" and not l.concrete and pos == [0] and "rec_fields" not in l.ghost and "arrays" not in l.ghost:
            # pop(0) of an abstract list: the list becomes its tail
            cx.log_write(l, "@items")
            n = to_term_int(l.length)
            if not cx.branch(n > 0, "pop-from-nonempty"):
                raise PyRaise(SExc("IndexError"))
            off = l.ghost.get("offset", z3.IntVal(0))
            first = l.elem(SInt(off)) if l.elem is not None and l.ghost.get("offset_elem") else (l.ghost["base_elem"](off) if "base_elem" in l.ghost else cx.opaque("elem"))
            l.ghost["offset"] = off + 1
            l.length = int_binop("-", l.length, 1)
            return first
        if short == "pop" and l.concrete:
            cx.log_write(l, "@items")
            if not l.items:
                raise PyRaise(SExc("IndexError"))
            return l.items.pop(*pos)
        if short == "insert" and l.concrete and isinstance(pos[0], int):
            cx.log_write(l, "@items")
            l.items.insert(pos[0], pos[1])
            return None
        if short == "insert" and not l.concrete and l.elem is None and not l.ghost:
            # insert into an opaque list (elements not modelled): only the length changes
            cx.log_write(l, "@items")
            l.length = int_binop("+", l.length, 1)
            return None
        if short == "index" and l.concrete:
            for k, y in enumerate(l.items):
                r = self.it.compare(ast.Eq(), pos[0], y, None)
                t = truth(cx, r)
                if cx.branch(t, "list.index"):
                    return k
            raise PyRaise(SExc("ValueError"))
        raise Unsupported(f"list.{short}")

    def dict_method(self, short, d: SDict, pos, kw):
        if short == "copy":
            if d.concrete is not None:
                return SDict(concrete=dict(d.concrete), fresh=True)
            nd = SDict(d.keys, d.base, fresh=True, label=d.label + "'")
            nd.store = list(d.store)
            nd.ghost = dict(d.ghost)
            return nd
        if short == "update":
            self.cx.log_write(d, "@items")
            src = pos[0] if pos else SDict(concrete=dict(kw))
            if d.concrete is not None and isinstance(src, SDict) and src.concrete is not None:
                d.concrete.update(src.concrete)
                return None
            if isinstance(src, SDict) and src.concrete is not None and not src.concrete and not src.store:
                return None
            d.ghost["updated_with"] = d.ghost.get("updated_with", []) + [src]
            if d.concrete is not None:
                # becomes abstract: keep the concrete part as ghost
                d.ghost["was_concrete"] = dict(d.concrete)
                d.concrete = None
                d.keys = None
            return None
        if short == "get":
            if d.concrete is not None and isinstance(pos[0], (str, int, tuple)):
                return d.concrete.get(pos[0], pos[1] if len(pos) > 1 else None)
        if short in ("items", "values", "keys"):
            if d.concrete is not None and not d.store:
                if short == "items":
                    return SList([(k, v) for k, v in d.concrete.items()])
                if short == "values":
                    return SList(list(d.concrete.values()))
                return SList(list(d.concrete.keys()))
            if f"@{short}" in d.ghost:
                return d.ghost[f"@{short}"]
            if "view" in d.ghost:
                return d.ghost["view"](short)
            if "ident" in d.ghost:
                o = SOpaque("dictview", d.ghost["ident"])
                return o
        if short == "clear":
            self.cx.log_write(d, "@items")
            if d.concrete is not None:
                d.concrete.clear()
            else:
                d.keys = z3.K(z3.IntSort(), z3.BoolVal(False))
                d.store = []
            return None
        raise Unsupported(f"dict.{short}")

    def str_method(self, short, s, pos, kw):
        if isinstance(s, str) and all(isinstance(p, (str, int)) for p in pos) and short in (
                "startswith", "endswith", "replace", "lower", "upper", "strip", "split", "format", "join", "encode"):
            try:
                return getattr(s, short)(*pos, **kw)
            except Exception:
                raise PyRaise(SExc("ValueError"))
        if short == "join" and isinstance(s, (str, SStr)):
            c = self.it.iter_concrete(pos[0])
            if c is None:
                raise Unsupported("join of an abstract sequence")
            if not c:
                return ""
            t = c[0]
            for x in c[1:]:
                t = str_concat(str_concat(t, s), x)
            return t
        if short in ("encode", "decode"):
            enc = kw.get("encoding", pos[0] if pos else "utf-8")
            if not isinstance(enc, str):
                raise Unsupported("symbolic encoding name")
            hook = self.cx.ghost.get("codec")
            if hook is None:
                raise Unsupported("str.encode/bytes.decode without a codec model in the contract")
            return hook(self.cx, short, s, enc.lower().replace("_", "-"))
        if short == "startswith":
            return SBool(z3.PrefixOf(str_term(pos[0]), str_term(s)))
        if short == "endswith":
            return SBool(z3.SuffixOf(str_term(pos[0]), str_term(s)))
        raise Unsupported(f"str.{short}")


_ARRSUM = z3.Function("arr_sum", z3.ArraySort(z3.IntSort(), z3.IntSort()), z3.IntSort(), z3.IntSort())


def arr_sum(A, n):
    """sum_{j<n} A[j]  (uninterpreted; facts come from the lemma library / explicit unfoldings)"""
    return _ARRSUM(A, n)


def _mentions(t, v) -> bool:
    if t.eq(v):
        return True
    return any(_mentions(c, v) for c in t.children())


def _reopaque(cx, v):
    if isinstance(v, SOpaque):
        return cx.opaque(v.kind)
    if isinstance(v, SList):
        if v.concrete and not v.items:
            return SList([])
        return SList(None, length=cx.int("n", lo=0), elem=None, fresh=True)
    if v is None:
        return None
    if isinstance(v, SObj):
        o = SObj(v.cls, dict(v.fields), fresh=True)
        return o
    return v


def _consts_created(formulas, val, mark_counter: int, jname: str):
    """uninterpreted constants named <base>!<k> with k > mark_counter occurring in formulas/value"""
    seen = {}
    terms = list(formulas)

    def add_val(v):
        if isinstance(v, SInt):
            terms.append(v.term)
        elif isinstance(v, (SBool, SFloat, SStr)):
            terms.append(v.term)
        elif isinstance(v, SObj):
            for x in v.fields.values():
                add_val(x)
        elif isinstance(v, tuple):
            for x in v:
                add_val(x)

    add_val(val)
    visited = set()

    def walk(t):
        if t.get_id() in visited:
            return
        visited.add(t.get_id())
        if z3.is_quantifier(t):
            walk(t.body())
            return
        if z3.is_app(t):
            if t.num_args() == 0 and t.decl().kind() == z3.Z3_OP_UNINTERPRETED:
                nm = t.decl().name()
                if "!" in nm and nm != jname:
                    try:
                        k = int(nm.rsplit("!", 1)[1])
                    except ValueError:
                        k = -1
                    if k > mark_counter:
                        seen[nm] = t
            for c in t.children():
                walk(c)

    for t in terms:
        walk(t)
    return [seen[k] for k in sorted(seen)]
