"""C18 check: module/class-level write frame of everything reachable from the Fandango entry points."""
from __future__ import annotations

import os
import sys

from pyvc.check import load_known, run_replay, write_unreplayed
from pyvc.effects import Analyzer
from pyvc.source import SourceIndex

# location -> why it cannot make one instance influence another's solutions / parse results
ALLOWED = {
    ("class:FandangoIO", "_instances"): "registry of protocol-party singletons (IO mode only; documented process-wide)",
    ("class:ProcessManager", "_instances"): "registry of spawned external processes (IO mode only)",
    ("language/parser/sa_fandango.py", "USE_CPP_IMPLEMENTATION"): "selects the .fan front end (C++/Python); front ends are required to agree (C14)",
    ("logger.py", "COLUMNS"): "terminal geometry of the progress visualisation",
    ("logger.py", "LINES"): "terminal geometry of the progress visualisation",
    ("logger.py", "LINE_IS_CLEAR"): "progress visualisation state",
    ("language/parse/spec.py:FandangoSpec.__init__", "default:used_symbols"):
        "mutable default only reached when no set is passed; parse() always passes its own set; feeds the unused-symbol diagnostics only",
}

REPLAY_MAXREP = r'''#!/usr/bin/env python3
"""Replay of obligation {name}: module global language.grammar.nodes.MAX_REPETITIONS is written by
Grammar.set_max_repetition (reached from the search loop) and read by Repetition.max during generation AND parsing.
Instance B is used fresh, and again after activity on an unrelated instance A raised the cap.  Exit 1 = B differs."""
import os, random, sys
sys.path.insert(0, os.path.join(os.environ.get("VERIF_REPO", "/repo"), "src"))
from fandango.language.parse.parse import parse
SPEC_B = '<start> ::= "b"{{1,}}\n'
SPEC_A = '<start> ::= "a"{{1,}}\n'

def lengths_of_b():
    gb, _ = parse(SPEC_B, use_stdlib=False, use_cache=False)
    random.seed(7)
    return [len(str(gb.fuzz())) for _ in range(40)], gb.parse("b" * 30) is not None

fresh = lengths_of_b()
ga, _ = parse(SPEC_A, use_stdlib=False, use_cache=False)
ga.set_max_repetition(1000)          # what the adaptive tuner does on instance A during its run
after = lengths_of_b()
print("B fresh     : max length", max(fresh[0]), "parses 30 b's:", fresh[1])
print("B after A   : max length", max(after[0]), "parses 30 b's:", after[1])
if fresh != after:
    print("VIOLATION reproduced: B's generated words / parse results depend on earlier activity on instance A")
    sys.exit(1)
print("not reproduced")
'''


def run(pid="C18", tier="quick", seed=0, cov=None) -> int:
    cov = cov if cov is not None else {}
    index = SourceIndex()
    an = Analyzer(index).analyze()
    roots = [q for q in an.funcs if q.startswith("api.py:Fandango.") or q.startswith("evolution/algorithm.py:Fandango.")]
    if not roots:
        print(f"UNDECIDED property={pid}: entry points Fandango.* not found")
        return 2
    reach = an.reachable(roots)
    W, R = {}, {}
    for q in reach:
        fe = an.funcs[q]
        for k, line in fe.writes.items():
            W.setdefault(k, []).append(f"{q}:{line}")
        for k in fe.reads:
            R.setdefault(k, []).append(q)
    findings, _ = load_known(pid)
    known = {f["obligation"]: f for f in findings}
    code = 0
    obligations = []
    violations = 0
    # a shared location that is written through a setter is reported per CALL SITE of the setter, so that a new
    # way of reaching a known leak is still a new violation
    items = []
    for k in sorted(W, key=str):
        base = f"frame:module_state_not_shared:{k[0]}::{k[1]}"
        if k in R and k not in ALLOWED:
            writers = sorted({w.rsplit(":", 1)[0] for w in W[k]})
            callers = set()
            for wq in writers:
                simple = an.funcs[wq].simple
                for q in reach:
                    if simple in an.funcs[q].calls and q != wq:
                        callers.add(q)
            if callers:
                for cq in sorted(callers):
                    items.append((k, f"{base}@via={cq}"))
                continue
        items.append((k, base))
    for k, name in items:
        read = k in R
        status = "discharged"
        if read and k not in ALLOWED:
            if name in known:
                status = "known-finding"
                f = known[name]
                print(f"KNOWN-FINDING: property={pid} obligation={name} witness={f['witness']} — {f['text']}")
            else:
                status = "failed"
                violations += 1
                code = 1
                script = REPLAY_MAXREP.format(name=name) if k[1] == "MAX_REPETITIONS" else None
                reported = False
                if script:
                    path, rc, outp = run_replay(pid, name, script)
                    if rc == 1:
                        print(outp.strip()[-500:])
                        print(f"VIOLATION property={pid} replay={path}")
                        reported = True
                if not reported:
                    path = write_unreplayed(pid, name, [], f"written at {W[k][:5]} and read by {sorted(set(R[k]))[:8]} (both reachable from the Fandango entry points); not in the allowed list")
                    print(f"VIOLATION property={pid} replay={path} obligation={name} no-failing-input-found")
        obligations.append({"name": name, "written_at": W[k][:4], "read_by_reachable_code": read,
                            "allowed_because": ALLOWED.get(k), "status": status})
    cov.update({
        "explanation": "Effect inference over the AST of src/fandango (re-read every run): write set W of module/class-level "
                       "locations of all functions reachable (call graph by simple name, over-approximation) from "
                       "Fandango.__init__/fuzz/generate_solutions/parse, read set R likewise; obligation W ∩ R ⊆ Allowed. "
                       "Sound for the listed syntactic write forms; blind to setattr/globals()/exec; the global `random` "
                       "state is excluded by the property's 'under fixed seeds'.",
        "functions_analysed": len(an.funcs), "functions_reachable": len(reach), "entry_points": len(roots),
        "locations_written": len(W), "obligations": len(obligations), "discharged": sum(1 for o in obligations if o["status"] == "discharged"),
        "obligation_list": obligations, "violations": violations,
        "other_samples": [o["name"] for o in obligations][:8],
    })
    return code
