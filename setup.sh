#!/bin/sh
# Builds /verif/.venv (python 3.12) offline: tooling wheels from /opt/veriftools/wheels, the repository's
# third-party dependencies through a .pth pointing at /venv's site-packages. fandango itself is NOT taken
# from there at check time: every check puts /repo/src first on sys.path.
set -e
cd "$(dirname "$0")"
if [ ! -x .venv/bin/python ] || ! .venv/bin/python -c "import z3, crosshair, icontract, deal, jsonschema" 2>/dev/null; then
  rm -rf .venv
  /venv/bin/python -m venv .venv
  PIP_NO_INDEX=1 .venv/bin/python -m pip install -q --no-index --find-links /opt/veriftools/wheels \
      z3-solver crosshair-tool icontract deal jsonschema hypothesis
  SP=$(.venv/bin/python -c "import sysconfig; print(sysconfig.get_paths()['purelib'])")
  echo "import site; site.addsitedir('/venv/lib/python3.12/site-packages')" > "$SP/zz_repo_deps.pth"
fi
.venv/bin/python -c "import z3, sys; print('z3', z3.get_version_string(), 'python', sys.version.split()[0])"
PYTHONPATH=/repo/src .venv/bin/python -c "import fandango; print('fandango from', fandango.__file__)"
